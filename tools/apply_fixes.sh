#!/bin/sh
# usage: apply_fixes.sh <dir with NN-name.diff + NN-name.msg>  -- applies each as its own "fix:" commit in /repo
set -e
for d in "$1"/*.diff; do
  m="${d%.diff}.msg"
  git -C /repo apply "$d"
  git -C /repo commit -q -a -F "$m"
  echo "applied $(basename "$d"): $(head -1 "$m")"
done
