#!/bin/sh
# usage: [PROPS="C01 C02"] [LOG=name] thorough_all.sh : runs the thorough tier of the listed properties sequentially
cd /verif
LOG=/verif/build/${LOG:-thorough_all}.txt
: > $LOG
for p in ${PROPS:-C01 C03 C04 C05 C06 C07 C08 C09 C10 C11 C12 C13 C14 C15 C16 C17 C18 C19 C20 C02}; do
  s=$(date +%s)
  VERIF_JOBS=${VERIF_JOBS:-8} ./check $p --tier thorough > /verif/build/thorough_$p.txt 2>&1
  rc=$?
  [ $rc -eq 0 ] && mkdir -p /verif/evidence_thorough && cp /verif/evidence/$p.json /verif/evidence_thorough/$p.json
  echo "$p rc=$rc wall=$(( $(date +%s) - s ))s $(grep -c '^VIOLATION' /verif/build/thorough_$p.txt) violations; $(grep 'done:' /verif/build/thorough_$p.txt | cut -c1-170)" >> $LOG
done
echo ALLDONE >> $LOG
