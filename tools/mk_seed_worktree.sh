#!/bin/sh
# usage: mk_seed_worktree.sh <dir>   -- scratch git worktree of /repo HEAD incl. the untracked generated C, .so and version.py
set -e
d="$1"
git -C /repo worktree add --detach "$d" HEAD >/dev/null 2>&1
rsync -a --include='*/' --include='*.c' --include='*.cpp' --include='*.so' --include='version.py' --exclude='*' /repo/src/ "$d/src/"
cat > "$d/REBUILD_EXT.sh" <<'EOF'
#!/bin/sh
# Rebuild one compiled module of this worktree from its generated C after editing it (no Cython here):
#   ./REBUILD_EXT.sh src/biotite/structure/bonds.c
set -e
f="$1"; base="${f%.*}"; ext="${f##*.}"
inc1=$(/venv/bin/python -c "import sysconfig;print(sysconfig.get_paths()['include'])")
inc2=$(/venv/bin/python -c "import numpy;print(numpy.get_include())")
if [ "$ext" = "cpp" ]; then cc="g++ -std=c++11"; else cc=gcc; fi
$cc -O1 -fPIC -shared -w -DNPY_NO_DEPRECATED_API=NPY_1_7_API_VERSION -I"$inc1" -I"$inc2" -I"$(dirname "$f")" "$f" -o "$base.cpython-312-x86_64-linux-gnu.so"
echo "rebuilt $base.cpython-312-x86_64-linux-gnu.so"
EOF
chmod +x "$d/REBUILD_EXT.sh"
echo "$d"
