#!/bin/sh
# usage: try_seed.sh <PID> <seed-name> <label>   e.g. try_seed.sh C13 seed-c13a C13-a
# saves the seed under /verif/seeded/<label>, confirms the demo, runs the quick check with the patch applied to /repo, reverts.
PID=$1; WT=/tmp/$2; OUT=/verif/seeded/$3
mkdir -p $OUT
( cd $WT && git diff -- src > $OUT/patch.diff; cp demo_*.py SEED_NOTES.md $OUT/ 2>/dev/null; cp *.patch $OUT/ 2>/dev/null )
( cd $WT && PYTHONPATH=$WT/src /venv/bin/python demo_$PID.py >/dev/null 2>&1; echo "demo with change: exit $?" )
if git -C /repo apply --check $OUT/patch.diff 2>/dev/null; then
  ( cd $WT && git apply -R $OUT/patch.diff && PYTHONPATH=$WT/src /venv/bin/python demo_$PID.py >/dev/null 2>&1; echo "demo without change: exit $?"; git apply $OUT/patch.diff )
  if [ -n "$SEED_VIA_WORKTREE" ]; then
    # run against the seed worktree (= /repo HEAD + patch) so that /repo stays untouched while others use it
    ( cd /verif && VERIF_REPO=$WT VERIF_BUILD=/tmp/mut-build VERIF_JOBS=${JOBS:-8} ./check $PID --tier quick 2>&1 | grep -E "^VIOLATION|sig=|done:" | cut -c1-200 | head -${LINES_:-7} )
  else
    git -C /repo apply $OUT/patch.diff
    ( cd /verif && VERIF_JOBS=${JOBS:-8} ./check $PID --tier quick 2>&1 | grep -E "^VIOLATION|sig=|done:" | cut -c1-200 | head -${LINES_:-7} )
    git -C /repo checkout -- .
    git -C /repo status --short | head -3
  fi
else
  echo "patch does not apply to /repo HEAD"
fi
