"""Rebuild the 'findings' list of known_findings.json from findings.d/*.json (the 'fixed' list is kept)."""
import json, glob, os
HERE = os.path.dirname(os.path.dirname(os.path.abspath(__file__)))
kf = json.load(open(os.path.join(HERE, "known_findings.json")))
out, seen = [], set()
for p in sorted(glob.glob(os.path.join(HERE, "findings.d", "*.json"))):
    for f in json.load(open(p)).get("findings", []):
        k = (f["property"], f.get("sig") or f.get("sig_prefix") or f.get("sig_re"))
        if k not in seen:
            seen.add(k)
            out.append(f)
kf["findings"] = out
json.dump(kf, open(os.path.join(HERE, "known_findings.json"), "w"), indent=1)
print("known findings:", len(out), "fixed entries:", len(kf["fixed"]))
