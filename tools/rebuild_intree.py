"""Rebuild in-tree extension modules of /repo from their (hand-patched) generated C,
so that the repository's own test suite runs against repaired compiled code.
usage: rebuild_intree.py biotite.structure.bonds [...]   (no Cython in this image)"""
import sys, os, shutil
sys.path.insert(0, os.path.dirname(os.path.dirname(os.path.abspath(__file__))))
from mc import loader
import importlib.machinery
suffix = importlib.machinery.EXTENSION_SUFFIXES[0]
loader.EXT.mkdir(parents=True, exist_ok=True)
for dotted in sys.argv[1:]:
    for d, pyx, gen in loader._sources():
        if d == dotted:
            so = loader._compile(d, gen)
            dst = pyx.with_suffix("").as_posix() + suffix
            shutil.copyfile(so, dst)
            print("rebuilt", dst)
