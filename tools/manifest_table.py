HOOK_COMMITS = []
NOT_APPLICABLE = {}
CHECKS = {
 "C02": {
  "engine": "E1-history-explorer",
  "technique": "explicit-state BFS over operation histories on the real BondList vs. dict model; exhaustive construction inputs; out-of-range leaves in forked children",
  "ref": "DESIGN.md section 4 C02",
  "text": "Every operation history up to depth 3 (quick) / 4 (thorough) over the listed alphabet from 5 initial lists, every construction array up to 3 rows, and every out-of-range index leaf at every reached state are executed on the real BondList and compared view by view with a dict model; no sampling. Bounded exhaustive coverage is the right level: the defects in this code are small-scope (index wrap-around, precedence on merge, stale per-atom maximum).",
  "note": "Trusts the dict model in props/c02.py and numpy's own indexing (np.arange(n)[idx]) as the meaning of an index; self-bonds and wrong-length masks are outside the alphabet; compiled behaviour is taken from the generated C next to bonds.pyx.",
 },
}
