HOOK_COMMITS = []
NOT_APPLICABLE = {}
CHECKS = {
 "C02": {
  "engine": "E1-history-explorer",
  "technique": "explicit-state BFS over operation histories on the real BondList vs. dict model; exhaustive construction inputs; out-of-range leaves in forked children",
  "ref": "DESIGN.md section 4 C02",
  "text": "Every operation history up to depth 3 over the listed alphabet from 5 initial lists (one seed-selected bond-type palette at full depth at quick, all five at thorough, plus depth 4 from the 3-atom lists for one palette at thorough; the other standard palettes at depth 2 and all 50 other pairs of the 10 bond-type values at depth 1 with every seed; an operand with more atoms than the list at every state; a distinct-result law for every operation that returns a list), every construction array up to 3 rows, and every out-of-range index leaf at every reached state are executed on the real BondList and compared view by view with a dict model; no sampling. Bounded exhaustive coverage is the right level: the defects in this code are small-scope (index wrap-around, precedence on merge, stale per-atom maximum).",
  "note": "Trusts the dict model in props/c02.py and numpy's own indexing (np.arange(n)[idx]) as the meaning of an index; self-bonds and wrong-length masks are outside the alphabet; compiled behaviour is taken from the generated C next to bonds.pyx.",
 },
}
CHECKS["C20"] = {
  "engine": "E3-tlc-conformance",
  "technique": "TLC explicit-state model checking of tla/AppLifecycle.tla + conformance replay of every model-enabled core call sequence (simulation over the dumped state graph) on the real wrapper classes with a gated fake executable",
  "ref": "DESIGN.md section 4 C20",
  "text": "TLC explores the life-cycle model completely (all tool behaviours; invariants: clean-up exactly once at run end, nothing left behind, results only after a good run). Every sequence of core calls (start/join/join(timeout)/cancel/get_app_state/release) of length <= 4 (quick) / 5-6 (thorough) that the model enables - and, for every sequence containing join(timeout), its twin with join(timeout=0) - is replayed on 6 wrapper classes x up to 8 tool behaviours (incl. a tool killed by a signal after writing its output); after each step the observation (outcome class, stored flag, clean-up count, temp files, child liveness, cwd) must match a model successor, and all 12 probe (getter/setter) transitions are checked at every visited state. Results of successful runs are compared with the fake tool's output for every small input set. The generic Application.join()/cancel()/get_app_state() that WebApp and user-defined applications inherit is explored separately: every sequence of 9 operations (start, release, tick, join, join(timeout), join(timeout=0), cancel, get_app_state, get_result) up to depth 5 (quick) / 7 (thorough) on a pure-Python Application whose job and clock are owned by the harness, against a reference life-cycle model.",
  "note": "Trusts the TLA+ model as the reading of the documented life cycle, the deterministic fake tool, and /proc for child liveness; real tools and OS-level races are outside. For the LocalApp wrappers time enters only through join(timeout=0.05 s) against a child provably blocked on a gate file; the generic Application.join() is explored with a virtual clock owned by the harness (family generic).",
}
CHECKS["C01"] = {
  "engine": "E1-history-explorer",
  "technique": "explicit-state BFS over operation histories on real AtomArray/AtomArrayStack objects vs. a list-of-atoms model, canonical-state deduplication, complete observation per state",
  "ref": "DESIGN.md section 4 C01",
  "text": "Every operation history up to depth 2 (quick) / 3 (thorough) over a ~150-300 operation alphabet (all int/slice/mask/index-array/ellipsis/2-D indices incl. negative and out-of-range values, concatenation, stacking, repeat, from_template, atom and model deletion, atom/model assignment, annotation edits, coord/box/bonds assignment, copy) from 9 initial containers is executed on the real objects and compared with a list-of-atoms model: annotations, coord, per-model box, bonds, __eq__ against a model-built twin and perturbed twins, leaf views, copy independence, and a distinct-result law (re-binding edits of every returned container must not reach the operand).",
  "note": "Trusts the list-of-atoms model in props/c01.py and numpy's indexing of np.arange(n) as the meaning of an index; indices numpy rejects only have to raise or yield a coherent container; failed in-place calls only have to leave a coherent container.",
}
CHECKS["C03"] = {
  "engine": "E2-input-enumerator",
  "technique": "complete enumeration of bounded input spaces (all byte values, all codes in [-300,600], all alphabets of size 1..94, all k-mer codes/tuples, all short sequences, all nucleotide strings up to length 6-9 x 30 codon tables) against dict/list models and a codon-by-codon ORF model",
  "ref": "DESIGN.md section 4 C03; notes/C03.md",
  "text": "Every symbol/byte/code of the listed finite ranges is pushed through every encode/decode/mapper/k-mer entry point and every Sequence operation and compared with an independent Python model (ACCEPT value / REFUSE AlphabetError / EITHER); translation and ORF reporting are compared with a codon-by-codon dictionary model for every nucleotide string up to the length bound and every NCBI table. ~7.2 M cases quick, ~65 M thorough; no sampling.",
  "note": "Trusts mc/models/seqmodel.py (alphabet, IUPAC complement table, NCBI table parser, ORF definition written from the property statement); values outside the enumerated ranges and sequences longer than the bounds are not covered.",
}
CHECKS["C07"] = {
  "engine": "E2-input-enumerator",
  "technique": "complete enumeration of column-boundary ladders (every single deviation at every location, all pairs on small shapes), all bond graphs on <=3-4 atoms x residue kinds, and every hybrid-36 integer of widths 1-4 (quick) / 5 (thorough) against an independent fixed-column format model",
  "ref": "DESIGN.md section 4 C07; notes/C07.md",
  "text": "Every value of per-field ladders placed on and around the PDB column limits (coordinates, B-factor, occupancy, charge, ids, name lengths, atom-name x element alignment, box) is written at every location of 1-3 atom arrays and small stacks in decimal and hybrid-36 mode; the written records are sliced at the standard columns (layout law), read back (round-trip law), or must be refused with nothing written (refusal law); every hybrid-36 integer is encoded and decoded against an odometer model. ~3.0 M cases quick, ~90 M thorough.",
  "note": "Trusts mc/models/pdbfmt.py (column tables of the wwPDB format, hybrid-36 positional definition, decimal rounding via the decimal module, textbook cell geometry) and the synthetic component dictionary for bond types restored on reading.",
}
CHECKS["C13"] = {
  "engine": "E2-input-enumerator",
  "technique": "complete enumeration of sequences (length 1..6/8), sequence starts, feature/location sets over all positions incl. overhanging ones, all slices [a:b],[a:],[:b],[:], all feature indices, against a per-base coverage model",
  "ref": "DESIGN.md section 4 C13; notes/C13.md",
  "text": "Every annotation of the bounded shapes (1-3 features, 1-3 locations, both strands, defect flags) on every sequence length and start is sliced with every slice form and compared base by base with a model in which each location is the set of positions it covers; feature get/set, reverse complement (single against a mirror model, double against the original), copies and container operations are enumerated likewise. ~8.8 M cases quick, ~36 M thorough.",
  "note": "Trusts the per-base model in props/c13.py written from the property statement; 2 features x 2 locations each is replaced by 1 feature x 2-3 locations plus 2-3 features x 1 location.",
}
CHECKS["C17"] = {
  "engine": "E2-input-enumerator",
  "technique": "complete enumeration of annotation patterns (all sequences of length 0..4/5 over a 24-letter atom alphabet), all index arrays of length <=2, all labelled graphs on <=6/7 vertices, plus a size ladder of path/ring/comb/tree/star graphs up to 3*10^5 / 10^6 atoms in forked children, against per-atom loops and union-find",
  "ref": "DESIGN.md section 4 C17; notes/C17.md",
  "text": "Every annotation pattern in the bound (331,776 arrays at length 4; stacks for a fixed stride) is pushed through every residue/chain view (starts, masks, starts_for, positions, counts, names, iteration, apply with 7 reducing functions, spread) and compared with a per-atom recomputation; every labelled graph on <= 6 vertices through every molecule entry point against union-find components; the size ladder runs each entry point in a forked child (a crash or hang is an observation).",
  "note": "Trusts the per-atom model and union-find in props/c17.py; length-5 patterns use two 12-letter sub-alphabets; star graphs are capped at 3000 atoms (get_all_bonds is atoms x max degree).",
}
CHECKS["C19"] = {
  "engine": "E2-input-enumerator",
  "technique": "complete enumeration of symmetric distance matrices (n=2..5/6 over small value palettes, ties included), all unrooted topologies on 4-6 leaves x branch-length assignments (additive matrices), all ordered rooted tree shapes with <=5/6 leaves x permutations x length palettes, against average-linkage / path-sum models and an independent strict Newick parser",
  "ref": "DESIGN.md section 4 C19; notes/C19.md",
  "text": "Every matrix in the bound is clustered by upgma() and neighbor_joining(); the result must contain every index exactly once, be ultrametric with each merge height = half the average-linkage distance recomputed from the input along a valid greedy order (UPGMA), or reproduce every leaf-to-leaf path length of the additive matrix (NJ). Every hand-built tree in the bound is written with every writer option combination, read back (plain and whitespace-decorated), copied, converted to binary form and queried (distances, LCA) against explicit walks on a parent-pointer model. ~197 k cases quick, ~2.6 M thorough.",
  "note": "Trusts mc/models/phylo_model.py (parent-pointer tree, average linkage, additive matrices, strict Newick parser). Refusing hand-built trees with duplicate leaf indices and atomic failure of TreeNode construction are counted as unspecified (not in the statement).",
}
CHECKS["C06"] = {
  "engine": "E2-input-enumerator",
  "technique": "complete enumeration of string tables (every string of length <=3/4 over a 14-symbol awkward alphabet + reserved words at every cell of every 1-3 x 1-3 layout; all pairs of quoting-class representatives) and explicit-state BFS over mapping-operation histories on the six CIF/BinaryCIF container classes against nested dict models",
  "ref": "DESIGN.md section 4 C06; notes/C06.md",
  "text": "Every awkward value at every cell position is serialised, parsed again and compared cell by cell incl. masks; container histories (set/get/del/pop/setdefault/update/in/len/iter/keys/items/==/serialize/re-parse) are explored breadth-first to depth 4 (quick) / 5 (thorough) with laziness flags in the canonical state, each step compared with a dict model. ~730 k cases and ~386 k transitions quick.",
  "note": "Trusts the dict model and the table oracle in props/c06.py; BinaryCIF equality after a write is EITHER (encoding objects take part in __eq__). Multi-line values with blank/indented/'#'/'_'/reserved-word inner lines are recorded known findings (tokenizer restructuring).",
}
CHECKS["C12"] = {
  "engine": "E2-input-enumerator",
  "technique": "complete enumeration of FASTA headers/sequences, FASTQ score tuples over the full printable range x offsets x wrapping widths, GenBank location atoms/joins/qualifier sets/ORIGIN lengths, GFF3 entries and attributes; explicit-state exploration to fixpoint of edit histories on the four file classes against dict/list models and the re-parsed text",
  "ref": "DESIGN.md section 4 C12; notes/C12.md",
  "text": "Every case is written with the real writer, the text parsed from scratch and compared with the input at the read / read_iter / write_iter / typed get_*/set_* levels (1.6 M cases quick, 7.0 M thorough). Edit histories (set/replace/insert at every index/append/delete) on FastaFile, FastqFile, GenBankFile and GFFFile are explored breadth-first to their fixpoint under an entry-count bound (12 k states / 537 k transitions quick): after every edit the live view must equal the model and the view parsed back from the written text.",
  "note": "Trusts the models in props/c12.py; LOCUS metadata, GFF type strings with '%'/tab, GenBankFile indices below -len and fields with empty content are EITHER/outside the statement.",
}
CHECKS["C18"] = {
  "engine": "E2-input-enumerator",
  "technique": "complete enumeration of labelled graphs on 1-4 atoms x single/pair deviations (bond types, charges, elements, coordinate ladder), charged subsets, the 998-1001 size switch, header/metadata/record-name spaces, and the RDKit bridge, against an independent strict CTfile/SDF reader",
  "ref": "DESIGN.md section 4 C18; notes/C18.md",
  "text": "Every molecule in the bound is written as MOL and SDF in V2000/V3000/auto, the text checked by an independent strict reader (fixed columns, M  CHG entries, V3000 blocks, SD framing) and read back by biotite; values that do not fit V2000 columns must select V3000 or raise; header/metadata/record names must survive; stacks go through to_mol/from_mol as conformers. ~491 k cases quick, ~3.0 M thorough.",
  "note": "Trusts mc/models/ctfile.py (written from the CTfile specification) and RDKit's own reader as a second opinion where it is reliable; stripping of metadata value lines is counted as an unspecified normalisation.",
}
CHECKS["C04"] = {
  "engine": "E2-input-enumerator",
  "technique": "complete enumeration of small structures (28 layouts x all single/pair deviations from an 85-123 value ladder), all typed bond graphs on residue templates, hand-written atom_site tables for every altloc/model/author-label policy, against field-by-field comparison and a per-residue recomputation; three encodings compared differentially",
  "ref": "DESIGN.md section 4 C04; notes/C04.md",
  "text": "Every structure in the bound is written as CIF, BinaryCIF and compressed BinaryCIF, read back and compared field by field (annotations, float32 coordinates of every model, box, optional fields, typed bonds); every written struct_conn/chem_comp_bond row is additionally inspected as a statement about the input; hand-written tables with every assignment of alt ids and occupancies are read under every altloc policy / model / author-label choice and compared with a per-residue recomputation. ~160 k cases quick, ~421 k thorough.",
  "note": "Trusts the comparison model in props/c04.py and the synthetic component dictionary (mc/ccd.py); losses the file format cannot express (aromaticity / ANY order of inter-residue bonds, intra-residue COORDINATION, per-component chem_comp_bond, implicit polymer links) are recorded known findings.",
}
CHECKS["C05"] = {
  "engine": "E2-input-enumerator",
  "technique": "complete enumeration of boundary-value arrays per dtype x all encoding chains of 1-3/4 stages (with explicit and auto parameters), compress() at three tolerances, columns with every mask, against an exact reference model in Python ints/Fractions (ACCEPT / REFUSE-or-exact / EITHER per stage)",
  "ref": "DESIGN.md section 4 C05; notes/C05.md",
  "text": "Every (array, chain) pair in the bound is executed stage by stage and through BinaryCIFData.serialize -> msgpack -> deserialize; the reference model decides per stage whether the target representation can hold the values: then the round trip must be exact (floats within half a fixed-point step / the relative tolerance), otherwise a clean exception or a lossless result. ~1.0 M cases quick, ~9.8 M thorough.",
  "note": "Trusts mc/models/bcif_codec.py; the full product of palettes x chains is trimmed as listed in notes/C05.md (full palette x single stages, core palettes for multi-stage chains).",
}
CHECKS["C10"] = {
  "engine": "E2-input-enumerator",
  "technique": "complete enumeration of (reference set, query, masks, spacing model, bucket count, constructor) combinations over alphabets 2-4/5 and k 2-3/4, all similarity thresholds of 3 matrices, all selector parameterisations on all sequences up to length 11/12, against nested-loop triple sets and the selectors' definitions; direct vs bucket vs unpickled vs merged tables compared differentially",
  "ref": "DESIGN.md section 4 C10; notes/C10.md",
  "text": "Every table in the bound is built through every constructor (sequences, k-mers, selections, positions, merged tables, pickle, deepcopy), its content checked through every lookup view, and match / match_table / match_kmer_selection compared with the naive triple set (masks applied per informative position, spaced models included); minimizer / syncmer / mincode selectors compared with their definitions. ~9.6 M cases quick, ~48 M thorough; malformed calls run in forked children.",
  "note": "Trusts the nested-loop model in props/c10.py; positions / reference ids outside uint32 and from_tables with mixed table classes are recorded known findings (repairs need new control flow in compiled code).",
}
CHECKS["C08"] = {
  "engine": "E2-input-enumerator",
  "technique": "complete enumeration of all sequence pairs up to length 4/3 (thorough 5/4) over 2-3 letter alphabets x matrix families x 9 gap penalties x {global, semi-global, local} x max_number, against a brute-force enumerator of ALL alignments under the documented scoring model, cross-checked by an independent reference DP",
  "ref": "DESIGN.md section 4 C08; notes/C08.md",
  "text": "For every call in the bound the reported score must equal the maximum over all alignments enumerated by brute force; every returned alignment must be a valid trace of the inputs whose model score and align.score() equal the reported score; results pairwise distinct and at most max_number; with max_number=1000 the returned set must equal the complete set of optimal traces (strengthening, own signature). All 16 code-width combinations (uint8..uint64) and rectangular matrices included; unaddressable matrix entries are poisoned so that a wrong lookup changes the optimum. ~1.3 M calls quick, ~10.8 M thorough.",
  "note": "Trusts mc/models/align.py (scoring model written from the documentation; enumerator and DP agree on all 181,629 keys); matrix entries near the int32 limits and sequences longer than the bounds are outside.",
}
CHECKS["C09"] = {
  "engine": "E2-input-enumerator",
  "technique": "complete enumeration of sequence pairs up to length 3-4 x matrix families x penalties x every band (incl. bands partly outside the table, both diagonal orders) / every seed x thresholds x directions, against rescoring of the completed trace and the brute-force optimum of the unrestricted (or seed-constrained) problem from mc/models/align.py",
  "ref": "DESIGN.md section 4 C09; notes/C09.md",
  "text": "Every banded, seed-extended gapped and ungapped call in the bound is checked for: trace validity, reported score == score recomputed from the returned trace (semi-global traces completed by the unaligned ends of both sequences), score <= brute-force optimum, equality with the optimum when the band covers the table / the threshold cannot bind, diagonals inside the band, seed contained and direction respected, score_only == score of the full call. ~4.5 M evaluations quick, ~49 M thorough.",
  "note": "Trusts mc/models/align.py; exact X-drop behaviour at thresholds that do bind is not asserted (the statement does not give it); duplicate traces in banded result lists are not reported.",
}
CHECKS["C16"] = {
  "engine": "E2-input-enumerator",
  "technique": "complete enumeration of lattice point sets (all 1-4-subsets of {0,1,2}^3 up to rotation + listed larger sets; thorough all 5-subsets) x the 24 cube rotations x translations x single-coordinate noise x every atom mask x container combinations, against a float64 Horn/Kabsch reference, 48 rigid perturbations and the matrix form of the transformation",
  "ref": "DESIGN.md section 4 C16; notes/C16.md",
  "text": "Every fit in the bound must return an orthonormal rotation with det +1, an RMSD over the masked atoms within tolerance of the float64 optimum (both directions) and not worse than any of 48 perturbed placements, exact copies to ~0 RMSD incl. collinear/planar/mirror-ambiguous sets, apply() == 4x4 matrix form == fitted coordinates model-wise for all array/stack combinations; outlier-tolerant and homolog variants are compared with the documented loop / their own anchor selection. ~3.5 M evaluations quick, ~15 M thorough.",
  "note": "Trusts mc/models/superpos.py (closed-form float64 optimum, rotation group, uniqueness gap); coordinates are lattice points exact in float32; a fixed stack with a single mobile array is EITHER (biotite refuses it with a clear IndexError).",
}
CHECKS["C11"] = {
  "engine": "E2-input-enumerator",
  "technique": "complete enumeration of all contiguous 2-row traces over sequences up to 3x3 (thorough 4x4) incl. clipped ends, all 3-row traces of total length <=5, all CIGAR strings with <=3/4 operations, all align_optimal outputs for pairs up to length 3, all small input tuples for align_multiple, against a column-by-column model with exact rationals, an own CIGAR interpreter and the MSA oracle",
  "ref": "DESIGN.md section 4 C11; notes/C11.md",
  "text": "Every trace in the bound is pushed through every conversion (gapped strings, code/symbol matrices, __getitem__ with all column/row selections, terminal-gap helpers, identity in 3 modes, score with 4 penalties, CIGAR writer with all option combinations decoded by an own parser, FASTA) and compared with a column-by-column recomputation; every CIGAR string in the bound is read and compared with a direct interpreter; every align_multiple call in the bound (n = 2..4/5 sequences of length 1-3, 3 penalties, default/supplied distances/supplied guide trees) must return one row per input in input order, gap-stripped rows equal to the inputs, a permutation order and a guide tree with every leaf once. ~8.1 M evaluations quick, ~78 M thorough.",
  "note": "Trusts mc/models/alnconv.py; a bare integer index alignment[i] is unspecified; statistics.py (E-values) is not in the statement.",
}
CHECKS["C14"] = {
  "engine": "E2-input-enumerator",
  "technique": "complete enumeration of atom multisets on a half-integer lattice (exact in float32) x cell sizes x radii (scalar and per-query) x query points on the extended lattice (incl. far outside the box, NaN/inf) x selections x orthorhombic/triclinic boxes, against float64 brute force with exact minimum-image reduction",
  "ref": "DESIGN.md section 4 C14; notes/C14.md",
  "text": "For every cell list in the bound every query method (get_atoms with padded index arrays and masks, get_atoms_in_cells, create_adjacency_matrix) is compared with brute-force distances; because all coordinates, radii and cell sizes are dyadic the non-periodic comparison `distance <= radius` is exact incl. ties; periodic queries are compared with the minimum over 5^3 images after exact reduction into the primary cell (exact ties EITHER). ~167 M evaluations quick, ~1.8 G thorough.",
  "note": "Trusts mc/models/geom.py; 3-multisets over the full 125-point lattice are replaced by sub-lattices + a corner family (a cell list with its query program costs ~3 ms); radius / cell size <= 20.",
}
CHECKS["C15"] = {
  "engine": "E2-input-enumerator",
  "technique": "complete enumeration of point pairs/triples/quadruples on small integer lattices x the 24 cube rotations x translations (exact integer arithmetic) x shape/broadcast combinations, 59 triclinic cells x length palettes x fractional grids x lattice shifts, all bond graphs on <=4 atoms x wrap vectors, against textbook float64 formulas and brute-force minimum images",
  "ref": "DESIGN.md section 4 C15; notes/C15.md",
  "text": "distance/angle/dihedral (coordinate and index variants, every shape combination, with and without boxes) are compared with textbook float64 values and must be invariant under every motion of the group; displacement minus plain difference must be an integer lattice combination and the shortest image (always orthorhombic; triclinic inside the unique range); move_inside_box, fraction conversion, unit cell <-> vectors, repeat_box, is_orthogonal, remove_pbc(_from_coord) are checked as lattice-vector actions and mutual inverses. ~545 M evaluations quick, ~2.6 G thorough.",
  "note": "Trusts mc/models/geom.py; float32-derived tolerances (biotite casts coordinates to float32); degenerate angles/dihedrals are EITHER; remove_pbc re-assembling in array order instead of along bonds is a recorded known finding.",
}
