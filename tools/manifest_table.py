HOOK_COMMITS = []
NOT_APPLICABLE = {}
CHECKS = {
 "C02": {
  "engine": "E1-history-explorer",
  "technique": "explicit-state BFS over operation histories on the real BondList vs. dict model; exhaustive construction inputs; out-of-range leaves in forked children",
  "ref": "DESIGN.md section 4 C02",
  "text": "Every operation history up to depth 3 (quick) / 4 (thorough) over the listed alphabet from 5 initial lists, every construction array up to 3 rows, and every out-of-range index leaf at every reached state are executed on the real BondList and compared view by view with a dict model; no sampling. Bounded exhaustive coverage is the right level: the defects in this code are small-scope (index wrap-around, precedence on merge, stale per-atom maximum).",
  "note": "Trusts the dict model in props/c02.py and numpy's own indexing (np.arange(n)[idx]) as the meaning of an index; self-bonds and wrong-length masks are outside the alphabet; compiled behaviour is taken from the generated C next to bonds.pyx.",
 },
}
CHECKS["C20"] = {
  "engine": "E3-tlc-conformance",
  "technique": "TLC explicit-state model checking of tla/AppLifecycle.tla + conformance replay of every model-enabled core call sequence (simulation over the dumped state graph) on the real wrapper classes with a gated fake executable",
  "ref": "DESIGN.md section 4 C20",
  "text": "TLC explores the life-cycle model completely (all tool behaviours; invariants: clean-up exactly once at run end, nothing left behind, results only after a good run). Every sequence of core calls (start/join/join(timeout)/cancel/get_app_state/release) of length <= 4 (quick) / 5-6 (thorough) that the model enables is replayed on 6 wrapper classes x up to 7 tool behaviours; after each step the observation (outcome class, stored flag, clean-up count, temp files, child liveness, cwd) must match a model successor, and all 12 probe (getter/setter) transitions are checked at every visited state. Results of successful runs are compared with the fake tool's output for every small input set.",
  "note": "Trusts the TLA+ model as the reading of the documented life cycle, the deterministic fake tool, and /proc for child liveness; real tools and OS-level races are outside. Time enters only through join(timeout=0.05 s) against a child provably blocked on a gate file.",
}
CHECKS["C01"] = {
  "engine": "E1-history-explorer",
  "technique": "explicit-state BFS over operation histories on real AtomArray/AtomArrayStack objects vs. a list-of-atoms model, canonical-state deduplication, complete observation per state",
  "ref": "DESIGN.md section 4 C01",
  "text": "Every operation history up to depth 2 (quick) / 3 (thorough) over a ~150-300 operation alphabet (all int/slice/mask/index-array/ellipsis/2-D indices incl. negative and out-of-range values, concatenation, stacking, repeat, from_template, atom and model deletion, atom/model assignment, annotation edits, coord/box/bonds assignment, copy) from 9 initial containers is executed on the real objects and compared with a list-of-atoms model: annotations, coord, per-model box, bonds, __eq__ against a model-built twin and perturbed twins, leaf views, copy independence.",
  "note": "Trusts the list-of-atoms model in props/c01.py and numpy's indexing of np.arange(n) as the meaning of an index; indices numpy rejects only have to raise or yield a coherent container; failed in-place calls only have to leave a coherent container.",
}
