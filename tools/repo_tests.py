"""Run (part of) the repository's test suite and compare with the stable baseline.
usage: repo_tests.py [pytest paths...]   (no paths = full suite, ~14 min)"""
import json, subprocess, sys, tempfile, os, xml.etree.ElementTree as ET
base = json.load(open("/root/.vp/BASELINE.json"))
stable = set(base["stable_pass"])
out = tempfile.mktemp(suffix=".xml", dir="/tmp")
cmd = ["/venv/bin/python", "-m", "pytest", "-q", "-p", "no:cacheprovider", "--timeout=900",
       "--continue-on-collection-errors", "--junitxml=" + out] + sys.argv[1:]
subprocess.run(cmd, cwd="/repo", stdout=subprocess.DEVNULL, stderr=subprocess.DEVNULL)
res = {}
for tc in ET.parse(out).iter("testcase"):
    name = tc.get("classname") + "::" + tc.get("name")
    st = "pass"
    for ch in tc:
        if ch.tag in ("failure", "error"):
            st = "fail"
        elif ch.tag == "skipped":
            st = "skip"
    res[name] = st
os.unlink(out)
ran_stable = [n for n in res if n in stable]
bad = [n for n in ran_stable if res[n] != "pass"]
newpass = [n for n in res if n not in stable and res[n] == "pass"]
print("ran %d tests, %d of them in the stable baseline; stable tests NOT passing: %d; passing tests not in baseline: %d"
      % (len(res), len(ran_stable), len(bad), len(newpass)))
for n in bad[:20]:
    print("  BROKEN:", n)
if not sys.argv[1:]:
    missing = [n for n in stable if n not in res]
    print("stable tests not run at all:", len(missing))
sys.exit(1 if bad else 0)
