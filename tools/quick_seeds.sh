#!/bin/sh
# usage: quick_seeds.sh "<seeds>" "<props>" : runs the quick tier per property and seed sequentially; log build/quick_seeds.txt
cd /verif
LOG=/verif/build/quick_seeds.txt
for s in $1; do
  for p in $2; do
    t=$(date +%s)
    VERIF_SEED=$s VERIF_JOBS=${VERIF_JOBS:-8} ./check $p --tier quick > /verif/build/quick_${p}_s$s.txt 2>&1
    rc=$?
    echo "$p seed=$s rc=$rc wall=$(( $(date +%s) - t ))s viol=$(grep -c '^VIOLATION' /verif/build/quick_${p}_s$s.txt) $(grep 'done:' /verif/build/quick_${p}_s$s.txt | sed 's/.*new_violations/new_violations/' | cut -c1-60)" >> $LOG
  done
done
echo SEEDSDONE >> $LOG
