"""usage: mk_seed_prompt.py <PID> <name>  -> creates worktree /tmp/<name> and prompt /tmp/seedprompts/<name>.txt"""
import json, subprocess, sys, os
pid, name = sys.argv[1], sys.argv[2]
props = {json.loads(l)["id"]: json.loads(l) for l in open("/verif/properties.jsonl")}
p = props[pid]
wt = "/tmp/" + name
subprocess.check_call(["/verif/tools/mk_seed_worktree.sh", wt])
testdirs = {"C01": "structure/test_atoms.py", "C02": "structure/test_bonds.py", "C20": "application", }.get(pid, "")
files = p["anchors"]["files"]
dirs = sorted({("structure" if f.startswith("src/biotite/structure") else "sequence" if f.startswith("src/biotite/sequence") else "application") for f in files})
t = open("/verif/tools/seed_prompt.txt").read()
t = (t.replace("{WT}", wt).replace("{NAME}", name).replace("{PID}", pid).replace("{TITLE}", p["title"])
      .replace("{STATEMENT}", p["statement"]).replace("{QUANT}", p["quantifier"]["text"])
      .replace("{FILES}", ", ".join(files)).replace("{TESTDIRS}", testdirs or "/".join(dirs[:1])))
import glob
earlier = []
for f in sorted(glob.glob("/verif/seeded/%s-*/meta.json" % pid)):
    earlier.append("  - " + json.load(open(f)).get("change", ""))
if earlier:
    t = t.replace("Think about which inputs the existing tests use", "EARLIER changes other people already made for this property (do NOT repeat their code site or mechanism; pick a different function, a different input dimension, a different kind of slip):\n" + "\n".join(earlier) + "\nThink about which inputs the existing tests use")
os.makedirs("/tmp/seedprompts", exist_ok=True)
open("/tmp/seedprompts/%s.txt" % name, "w").write(t)
print("/tmp/seedprompts/%s.txt" % name)
