"""Regenerate MANIFEST.json from the table below (keeps it schema-valid)."""
import json, os, sys
HERE = os.path.dirname(os.path.dirname(os.path.abspath(__file__)))
sys.path.insert(0, HERE)
from tools.manifest_table import CHECKS, NOT_APPLICABLE, HOOK_COMMITS

props = [json.loads(l) for l in open(os.path.join(HERE, "properties.jsonl"))]
ids = [p["id"] for p in props]
DIMS = (" Besides these main spaces the check carries small complete 'dimension' families added after four rounds of "
        "independently seeded changes (DESIGN.md 9.10-9.13, section 'dimension audit' of notes/CNN.md): size switches, "
        "object reuse and resized reuse, input aliasing and result identity, array flavours, empty pieces, many items, "
        "order independence, parse state, error paths, seed-independent value palettes, combined awkward features, "
        "derived inputs, larger operands, ambient state, option precedence, selection boundaries - each where the "
        "anchored code makes it reachable; the counts actually covered are in the evidence file.")
checks = []
for pid in ids:
    if pid not in CHECKS:
        continue
    c = CHECKS[pid]
    if not os.path.exists(os.path.join(HERE, "props", pid.lower() + ".py")):
        continue
    checks.append({
        "property_id": pid,
        "quick_cmd": "./check %s --tier quick" % pid,
        "thorough_cmd": "./check %s --tier thorough" % pid,
        "evidence_file": "/verif/evidence/%s.json" % pid,
        "replay_cmd_template": "./check %s --replay {path}" % pid,
        "engine": c["engine"],
        "level_claimed": {"category": "model_checking", "text": c["text"] + DIMS, "design_ref": c["ref"]},
        "level_note": c["note"],
        "technique": c["technique"],
    })
claimed = {c["property_id"] for c in checks}
na = [{"property_id": pid, "reason": NOT_APPLICABLE.get(pid, "check not built yet in this round; see DESIGN.md section 4 for the planned bounded exhaustive check")}
      for pid in ids if pid not in claimed]
man = {
    "version": 1,
    "setup_cmd": "./setup.sh",
    "hooks": {
        "guard": "BIOTITE_VERIF",
        "enable": "no source hooks are needed: checks import /repo/src directly and rebuild the compiled modules from the generated C next to each .pyx into /verif/build/ext (mc/loader.py)",
        "baseline_off_cmd": "cd /repo && /venv/bin/python -m pytest -ra -q -p no:cacheprovider --timeout=900 --continue-on-collection-errors",
        "source_commits": HOOK_COMMITS,
        "add_only": True,
    },
    "engines": [
        {"name": "E1-history-explorer", "path": "mc/ (props/*.py run_history)", "serves_properties": [p for p in ["C01", "C02", "C06", "C12"] if p in claimed],
         "kind_free_text": "explicit-state BFS over operation histories executed on the real objects against a reference model, canonical-state deduplication"},
        {"name": "E2-input-enumerator", "path": "mc/runner.py + props/*.py", "serves_properties": sorted(claimed - {"C20"}),
         "kind_free_text": "complete enumeration of bounded input spaces in deviation order, sharded over crash-isolated workers"},
        {"name": "E3-tlc-conformance", "path": "tla/ + props/c20.py", "serves_properties": [p for p in ["C20"] if p in claimed],
         "kind_free_text": "TLC explores the life-cycle model; every path of the dumped state graph is replayed against the real wrapper classes"},
        {"name": "E4-quarantine", "path": "mc/ctx.py isolated()/isolated_batch()", "serves_properties": [p for p in ["C01", "C02", "C17"] if p in claimed],
         "kind_free_text": "dangerous calls run in forked children; crashes and hangs are observations"},
    ],
    "checks": checks,
    "not_applicable": na,
    "notes": "All checks are bounded exhaustive explorations (model checking family); see DESIGN.md. known_findings.json lists recorded and fixed defects.",
}
json.dump(man, open(os.path.join(HERE, "MANIFEST.json"), "w"), indent=1)
import jsonschema
jsonschema.validate(man, json.load(open("/root/.vp/MANIFEST.schema.json")))
print("MANIFEST.json: %d checks, %d not_applicable" % (len(checks), len(na)))
