SPECIFICATION Spec
INVARIANT TypeOK
INVARIANT EndedClean
INVARIANT CleanupAtMostOnce
INVARIANT CleanupOnlyAtEnd
INVARIANT ResultsOnlyAfterGoodRun
INVARIANT NeverMoved
