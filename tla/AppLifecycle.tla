--------------------------- MODULE AppLifecycle ---------------------------
(* Documented life cycle of biotite.application wrappers (Application /     *)
(* LocalApp / MSAApp) with the resources a run owns.  Every behaviour of    *)
(* this model is replayed against the real classes by props/c20.py.         *)
EXTENDS Naturals, TLC

VARIABLES flag,      \* stored application state
          tool,      \* behaviour of the external program (fixed per behaviour)
          child,     \* "NONE" | "ALIVE" | "EXITED"
          released,  \* the harness has let the program finish
          cleanups,  \* how often clean-up has run
          files,     \* temporary files: "PRESENT" | "REMOVED"
          cwdmoved,  \* working directory differs from the caller's
          dead,      \* launch failed while flag stayed CREATED: no further Start explored
          last       \* [op, out]: the call just made and its required outcome

vars == <<flag, tool, child, released, cleanups, files, cwdmoved, dead, last>>

Flags == {"CREATED", "RUNNING", "FINISHED", "JOINED", "CANCELLED"}
Tools == {"OK", "REORDER", "NONZERO", "GARBAGE", "EMPTY", "HANG", "MISSING"}

\* probes: calls that never change anything but the lazily refreshed flag
ResultGetters == {"get_alignment", "get_alignment_order"}
ExitGetters   == {"get_exit_code", "get_stdout", "get_stderr"}
Setters       == {"set_arguments", "add_additional_options", "set_exec_dir", "set_stdin", "app_option"}
Probes == ResultGetters \cup ExitGetters \cup Setters \cup {"get_command", "get_process"}

Init == /\ flag = "CREATED"
        /\ tool \in Tools
        /\ child = "NONE"
        /\ released = FALSE
        /\ cleanups = 0
        /\ files = "PRESENT"
        /\ cwdmoved = FALSE
        /\ dead = FALSE
        /\ last = [op |-> "init", out |-> "ok"]

Refused(op) == /\ last' = [op |-> op, out |-> "AppStateError"]
               /\ UNCHANGED <<tool, child, released, cleanups, files, cwdmoved, dead>>
               \* a refused call may refresh RUNNING -> FINISHED when the child has exited
               \* (the error message queries the state); nothing else may change
               /\ \/ flag' = flag
                  \/ flag = "RUNNING" /\ child = "EXITED" /\ flag' = "FINISHED"

\* the run ends: clean-up exactly once, nothing left behind
EndRun(newflag) == /\ flag' = newflag
                   /\ cleanups' = cleanups + 1
                   /\ files' = "REMOVED"
                   /\ child' = IF child = "NONE" THEN "NONE" ELSE "EXITED"
                   /\ cwdmoved' = FALSE

Start ==
    \/ /\ flag # "CREATED"
       /\ Refused("start")
    \/ /\ flag = "CREATED" /\ ~dead /\ tool # "MISSING"
       /\ flag' = "RUNNING" /\ child' = "ALIVE"
       /\ last' = [op |-> "start", out |-> "ok"]
       /\ UNCHANGED <<tool, released, cleanups, files, cwdmoved, dead>>
    \/ /\ flag = "CREATED" /\ ~dead /\ tool = "MISSING"
       \* failure to launch ends the run; the flag afterwards is not documented
       /\ \E f \in {"CREATED", "CANCELLED"} : EndRun(f) /\ dead' = (f = "CREATED")
       /\ last' = [op |-> "start", out |-> "LaunchError"]
       /\ UNCHANGED <<tool, released>>

Evaluate(op) ==
    \* the child has exited and its output is evaluated
    \/ /\ tool \in {"OK", "REORDER"}
       /\ EndRun("JOINED")
       /\ last' = [op |-> op, out |-> "ok"]
    \/ /\ tool = "NONZERO"
       /\ EndRun("CANCELLED")
       /\ last' = [op |-> op, out |-> "SubprocessError"]
    \/ /\ tool \in {"GARBAGE", "EMPTY"}
       /\ EndRun("CANCELLED")
       /\ last' = [op |-> op, out |-> "EvalError"]

Join ==  \* join() without timeout; explored only when it cannot block forever
    \/ /\ flag \notin {"RUNNING", "FINISHED"}
       /\ Refused("join")
    \/ /\ flag \in {"RUNNING", "FINISHED"} /\ child = "EXITED"
       /\ Evaluate("join")
       /\ UNCHANGED <<tool, released, dead>>

JoinT == \* join(timeout = short)
    \/ /\ flag \notin {"RUNNING", "FINISHED"}
       /\ Refused("join_t")
    \/ /\ flag \in {"RUNNING", "FINISHED"} /\ child = "EXITED"
       /\ Evaluate("join_t")
       /\ UNCHANGED <<tool, released, dead>>
    \/ /\ flag \in {"RUNNING", "FINISHED"} /\ child = "ALIVE"
       /\ EndRun("CANCELLED")
       /\ last' = [op |-> "join_t", out |-> "TimeoutError"]
       /\ UNCHANGED <<tool, released, dead>>

Cancel ==
    \/ /\ flag \notin {"RUNNING", "FINISHED"}
       /\ Refused("cancel")
    \/ /\ flag \in {"RUNNING", "FINISHED"}
       /\ EndRun("CANCELLED")
       /\ last' = [op |-> "cancel", out |-> "ok"]
       /\ UNCHANGED <<tool, released, dead>>

Query == \* get_app_state(): never refused; makes a finished child visible
    /\ flag' = IF flag = "RUNNING" /\ child = "EXITED" THEN "FINISHED" ELSE flag
    /\ last' = [op |-> "get_app_state", out |-> flag']
    /\ UNCHANGED <<tool, child, released, cleanups, files, cwdmoved, dead>>

Release == \* environment: the external program is allowed to finish and does
    /\ child = "ALIVE" /\ ~released /\ tool # "HANG"
    /\ child' = "EXITED" /\ released' = TRUE
    /\ last' = [op |-> "release", out |-> "ok"]
    /\ UNCHANGED <<flag, tool, cleanups, files, cwdmoved, dead>>

Allowed(p) ==
    CASE p \in ResultGetters -> flag = "JOINED"
      [] p \in ExitGetters   -> flag \in {"FINISHED", "JOINED"}
      [] p \in Setters       -> flag = "CREATED"
      [] p = "get_command"   -> flag # "CREATED"
      [] p = "get_process"   -> flag \in {"RUNNING", "FINISHED"}

Probe == \E p \in Probes :
    \/ /\ Allowed(p)
       /\ last' = [op |-> p, out |-> "ok"]
       /\ UNCHANGED <<flag, tool, child, released, cleanups, files, cwdmoved, dead>>
    \/ /\ ~Allowed(p)
       /\ Refused(p)

Next == Start \/ Join \/ JoinT \/ Cancel \/ Query \/ Release \/ Probe

Spec == Init /\ [][Next]_vars

-----------------------------------------------------------------------------
TypeOK == /\ flag \in Flags /\ tool \in Tools
          /\ child \in {"NONE", "ALIVE", "EXITED"}
          /\ cleanups \in 0..2 /\ files \in {"PRESENT", "REMOVED"}

RunEnded == flag \in {"JOINED", "CANCELLED"} \/ dead

\* whenever a run has ended: clean-up exactly once, nothing left behind
EndedClean == RunEnded => /\ cleanups = 1 /\ files = "REMOVED"
                          /\ child # "ALIVE" /\ ~cwdmoved
CleanupAtMostOnce == cleanups <= 1
CleanupOnlyAtEnd == (cleanups = 1) => RunEnded
ResultsOnlyAfterGoodRun == (flag = "JOINED") => tool \in {"OK", "REORDER"}
NeverMoved == ~cwdmoved
=============================================================================
