"""C03 - symbol encoding is a bijection; sequences behave like their strings.

E2: bounded exhaustive input enumeration on the real biotite.sequence code
against the plain-Python models of mc/models/seqmodel.py.

Shard kinds: letter (LetterAlphabet, all byte values / all codes), generic
(Alphabet over hashables), mapper (AlphabetMapper, all ordered pairs), kmer
(KmerAlphabet fuse/split/create_kmers), seqapi (Sequence objects vs. strings),
codon (CodonTable views), translate (every short nucleotide sequence x table x mode).
"""

import itertools
import json
import sys

import numpy as np

from mc.models import seqmodel as sm

ID = "C03"
LEVEL = "model_checking"
EXHAUSTIVE = True
SHARD_TIMEOUT = {"quick": 600, "thorough": 2400}

RULE = (
    "Every case of each listed finite space is executed once on the real code and compared with a "
    "plain-Python model. letter: per LetterAlphabet all 256 byte values as bytes and as str (single, and "
    "in both positions of a length-2 input) through encode / `in` / every container form of "
    "encode_multiple, every code in [-300,600] (+extremes) through decode and through 1-2 element arrays "
    "of 5 dtypes in decode_multiple and Sequence.code=. generic: all symbol sequences of length <=3 over "
    "hashable alphabets of size 1..5, foreign symbols in every position, codes [-2,n+2). mapper: all "
    "ordered pairs of 8 alphabets x all codes x 6 container forms. kmer: every k-mer code, every code "
    "tuple over [-1,n+1]^k, every sequence up to the stated length plus one out-of-range code in every "
    "position for 4 code widths and every spacing model. seqapi: every string up to the stated length x "
    "every listed operation (all int indices, all masks, listed slices/index arrays, item and slice "
    "assignment, +, reverse, complement, ==, copy). translate: every nucleotide string up to the stated "
    "length x table x {complete, ORF, ORF+met_start}. A case counts as non-trivial when the model "
    "classifies it REFUSE, or when it is ACCEPT with a non-empty compared result that uses at least one "
    "deviation from the plain default (non-default container form/dtype, length >= 2, negative or "
    "non-unit-step index, state-changing operation, non-default table, >= 1 reported ORF). audit families: the "
    "same logical code / symbol array in every listed memory flavour (read-only, strided, negative stride, column of a "
    "2-d array, ndarray subclass, byte-swapped, 7 integer widths, object / wide / 0-d / generator / subclass symbol "
    "containers) through every array-taking entry point with an argument-unchanged check; alphabets of 255..257 and "
    "65535..65537 symbols and mappers between them (every width pair of the compiled mapping routine); k-mer alphabets "
    "straddling the int64 limit; every 1- and 2-step history over a 25..27-operation menu (valid, refused and invalid-code "
    "operations, symbols=, code=) on one sequence object against the string model; translation results scribbled over "
    "and repeated, tables built from permuted arguments, sequences of 255..257, 999..1001 and 65535..65537 symbols. "
    "second audit: identity_derived = every listed way a sequence is handed out (21-23 derivations incl. degenerate "
    "full-range / empty / one-operand ones) x {result is a new object and re-binding it leaves the operand alone} x "
    "19-23 second operations on the derived object, for every ACGT string of length <= 3 and listed longer / IUPAC / "
    "protein / general strings; two_features = every ordered pair of invalid-code classes in one array, pairs of awkward "
    "item kinds in one symbol container, two out-of-range codes in every pair of positions for create_kmers, every "
    "single missing codon; seqhist3 = every triple of 9 content-replacing operations of other sizes with a read in between. "
    "third audit (family third): + / == / whole-sequence assignment for every ordered pair of operand lengths from "
    "{0,1,2,3,7,300} and items over larger / smaller alphabets; every ordered pair of 7 ambient-state events (cwd, numpy "
    "error and print state, locale environment, recursion limit) between repeated calls of a 15-view probe; every value "
    "that can come from two places (ambiguous flag x each IUPAC letter, explicit class / alphabet x source sequence of "
    "another alphabet, copy(new code), dtype argument, explicit table x module default); common_alphabet over all "
    "ordered selections of <= 3 of 6 alphabets; ORFs of all strings up to length 7 for 4 boundary tables (all stop, no stop, all start). "
    "family widths: every ordered pair of prefix alphabets of 2, 255, 256, 257, 300, 65536, 65537 symbols (code widths 1/2/4 bytes) x "
    "sequences with the boundary codes 0, 1, 254..257, 65535, 65536, k-1 alone and in first / inner / last position through +, "
    "Sequence-item assignment, ==, construction from the other sequence, copy(code) / code= with the other's code array, as_type, mapper."
)
ASSUMPTIONS = [
    "alphabets are built from pairwise different symbols (a bijection needs them); 1/True/1.0 are never mixed",
    "error class: AlphabetError is demanded where biotite's own docstrings promise it (encode, decode, "
    "str/bytes/ndarray forms of *_multiple, fuse/split/create_kmers); for Python-list inputs that numpy "
    "converts before biotite sees them any exception counts as refusal",
    "EITHER (unspecified) classes: non-ASCII / empty / multi-character str given to a LetterAlphabet (must be "
    "an error, never a value); `in` for anything but a single ASCII letter (False or error); out-of-range codes "
    "handed to an AlphabetMapper (anything but a crash); create_kmers on a sequence shorter than the k-mer "
    "span (error or empty array) and out-of-range codes at positions no k-mer reads (error or model value); "
    "translate() of an ambiguous-alphabet sequence (error or model value); == across classes/alphabets; "
    "codon tables without start codons (constructor error or no ORFs)",
    "view-versus-copy behaviour of indexing results is not examined (only copy() and reverse() independence)",
    "aliasing the statement does not forbid is counted, not judged: Sequence.code= keeps a uint8 array handed in, "
    "an AlphabetMapper that needs no mapping returns its argument (counters alias:*)",
    "NCBI table contents are read by an independent parser from the data file shipped in the working tree; "
    "table 1 is additionally compared with the textbook standard code",
]

AE = "AlphabetError"
NOVALUE = "<no value>"

# seed-selectable orders of the 94 printable characters (every one is required to be clean)
def _perm(mult, off):
    return [sm.PRINTABLE94[(i * mult + off) % 94] for i in range(94)]


PERMS = [_perm(1, 0), _perm(93, 93), _perm(37, 5), _perm(53, 11), _perm(15, 40)]
NATURAL = [sm.NUC4, sm.NUC15, sm.PROT24]


def bounds(tier):
    q = tier == "quick"
    return {
        "letter_alphabets": "sizes 1..94 (one per size, seed-chosen order of the 94 printables) + ACGT, IUPAC-15, protein-24",
        "letter_bytes": 256, "letter_codes": "[-300,600] + {+-2^31, 2^32+1, 2^63-1, 2^64-1}",
        "generic_sizes": "1..5 over 5 palettes (+ 256/257-symbol alphabets)", "generic_seq_len": 3,
        "mapper_alphabets": 8,
        "kmer_base": "2..4", "kmer_k": "2..4" if q else "2..5", "kmer_span": "<= k+2",
        "kmer_seq_len": "<= span+2 (n^len <= 2048)" if q else "<= span+3 (n^len <= 16384)",
        "seqapi_len": {"nuc": 4, "iupac": 3 if not q else "3 (2 + seed-chosen third letter block at quick)", "protein": 3 if not q else "2 + seed block", "general": 3},
        "audit": "flavour_letter, flavour_generic (+ alphabets of 255..257 / 65535..65537 symbols, mapper width pairs), flavour_kmer "
                 "(+ n^k around 2^63), seqhist (histories of depth 2), translate_extra (aliasing, argument order, lengths to 65537), "
                 "identity_derived, two_features, seqhist3 (size-changing histories of depth 3 + reads), third (operand sizes, ambient events, "
                 "option precedence, selection boundaries), widths (binary operations across code widths)",
        "translate_len": "<=8 (default, 1, syn1, syn2, 2 seed-chosen NCBI), <=6 all 25 NCBI + 4 synthetic, 9 over {A,T,G} (default, 1, syn1, syn2)" if q else
                         "<=8 all 25 NCBI + default + 4 synthetic tables; 9 (all of ACGT) for default, 1, syn1, syn2; 10-11 over {A,T,G} for default, syn1",
    }


# ---------------------------------------------------------------------------
# helpers
# ---------------------------------------------------------------------------
def call(f, *a, **k):
    try:
        return ("ok", f(*a, **k))
    except Exception as e:  # noqa: BLE001
        return ("exc", type(e).__name__, str(e)[:200])


OBJECTS = [None, 0, 1, 65, 1.5, ("A",), frozenset(), True]


def enc_arg(x):
    """python value -> JSON-able description"""
    if isinstance(x, np.ndarray):
        if x.dtype.kind in "US":
            return {"a": [enc_arg(v) for v in x.tolist()], "dt": x.dtype.str}
        return {"a": [int(v) for v in x.tolist()], "dt": x.dtype.name}
    if isinstance(x, np.generic):
        return {"np": int(x), "dt": x.dtype.name}
    if isinstance(x, bytes):
        return {"b": list(x)}
    if isinstance(x, str):
        return {"s": x}
    if isinstance(x, list):
        return {"l": [enc_arg(v) for v in x]}
    if isinstance(x, tuple):
        return {"t": [enc_arg(v) for v in x]}
    if isinstance(x, bool) or x is None or isinstance(x, (float, frozenset)):
        return {"o": OBJECTS.index(x) if x is not True else 7}
    if isinstance(x, int):
        return {"i": x}
    raise TypeError(x)


def dec_arg(e):
    if "a" in e:
        if e["dt"][1:2] in ("U", "S") or e["dt"][:1] in ("U", "S"):
            return np.array([dec_arg(v) for v in e["a"]], dtype=e["dt"])
        return np.array(e["a"], dtype=e["dt"])
    if "np" in e:
        return np.dtype(e["dt"]).type(e["np"])
    if "b" in e:
        return bytes(e["b"])
    if "s" in e:
        return e["s"]
    if "l" in e:
        return [dec_arg(v) for v in e["l"]]
    if "t" in e:
        return tuple(dec_arg(v) for v in e["t"])
    if "o" in e:
        return OBJECTS[e["o"]]
    if "i" in e:
        return e["i"]
    raise ValueError(e)


def plain(v):
    """result -> comparable plain python"""
    if isinstance(v, np.ndarray):
        return plain(v.tolist())
    if isinstance(v, np.generic):
        return plain(v.item())
    if isinstance(v, (list, tuple)):
        return [plain(x) for x in v]
    if isinstance(v, bytes):
        return v.decode("latin-1")
    return v


def judge(ctx, site, cls, mkcase, res, want, nontrivial=0):
    """want = ('accept', value) | ('refuse', strict) | ('either', value or NOVALUE) | ('free',)
    res  = call(...) with the value already made plain.  Returns True if fine."""
    ctx.ev(1, nontrivial)
    kind = want[0]
    if kind == "accept":
        ctx.count("accepted")
        if res[0] == "ok" and res[1] == want[1]:
            return True
        if res[0] == "ok":
            ctx.violation("%s|wrong_value|%s" % (site, cls), "result differs from the reference model", mkcase(),
                          want[1], res[1])
        else:
            ctx.violation("%s|unexpected_%s|%s" % (site, res[1], cls), "legal input raised %s: %s" % (res[1], res[2]),
                          mkcase(), want[1], list(res))
        return False
    if kind == "refuse":
        ctx.count("refused")
        if res[0] == "exc" and (res[1] == AE or not want[1]):
            return True
        if res[0] == "ok":
            ctx.violation("%s|no_error|%s" % (site, cls), "input outside the alphabet/range produced a value instead of an error",
                          mkcase(), AE if want[1] else "an error", res[1])
        else:
            ctx.violation("%s|wrong_error_%s|%s" % (site, res[1], cls), "refused with %s instead of AlphabetError" % res[1],
                          mkcase(), AE, list(res))
        return False
    if kind == "either":
        ctx.count("unspecified")
        if res[0] == "exc":
            return True
        if want[1] is not NOVALUE and res[1] == want[1]:
            return True
        ctx.violation("%s|value_for_unspecified|%s" % (site, cls),
                      "input the statement does not cover produced a value that is neither an error nor the model value",
                      mkcase(), "error" if want[1] is NOVALUE else ["error or", want[1]], res[1])
        return False
    ctx.count("unspecified")
    return True


def _sel(seq_, k, seed):
    """k seed-chosen elements of a list (rotation; listed tables only)"""
    n = len(seq_)
    return [seq_[(seed * 7 + i * (n // k if k else 1)) % n] for i in range(k)]


# ---------------------------------------------------------------------------
# letter alphabets
# ---------------------------------------------------------------------------
EXTREME_CODES = [2**31 - 1, -(2**31), 2**31, 2**32 + 1, 2**63 - 1, -(2**63) + 3, 2**64 - 1, 2**64 - 255]
DTYPES = {
    "int8": (-128, 127), "uint8": (0, 255), "int16": (-32768, 32767), "int64": (-(2**63), 2**63 - 1),
    "uint64": (0, 2**64 - 1),
}


def elem_class(x):
    """classify one element handed to a LetterAlphabet: ('char', ch) single ASCII letter/byte,
    ('byte', None) single non-ASCII byte, ('odd', why) everything the statement is silent about,
    ('object', None) hashable non-string"""
    if isinstance(x, bytes):
        if len(x) == 1:
            return ("char", chr(x[0])) if x[0] < 128 else ("byte", None)
        return ("odd", "empty" if not x else "multichar")
    if isinstance(x, str):
        if len(x) == 1:
            return ("char", x) if ord(x) < 128 else ("odd", "nonascii")
        return ("odd", "empty" if not x else "multichar")
    return ("object", None)


def sym_class(ch, M):
    if M.has(ch):
        return "in_alphabet"
    o = ord(ch)
    if o < 33 or o == 127:
        return "control_or_space"
    return "printable_not_in_alphabet"


def letter_objects(syms):
    from biotite.sequence import LetterAlphabet

    return LetterAlphabet(syms), sm.AlphaModel(list(syms))


def check_l_encode(ctx, A, M, syms, x):
    mk = lambda: {"kind": "letter", "alph": syms, "unit": "encode", "arg": enc_arg(x)}  # noqa: E731
    kind, ch = elem_class(x)
    form = type(x).__name__
    if kind == "char":
        code = M.encode(ch)
        cls = "%s_%s" % (form, sym_class(ch, M))
        want = ("accept", code) if code is not None else ("refuse", True)
        want_in = ("accept", code is not None)
    elif kind == "byte":
        cls, want, want_in = "bytes_non_ascii", ("refuse", True), ("accept", False)
    elif kind == "object":
        cls, want, want_in = "non_string_object", ("refuse", True), ("either", False)
    else:
        cls, want, want_in = "%s_%s" % (form, ch), ("either", NOVALUE), ("either", False)
    r = call(A.encode, x)
    if r[0] == "ok":
        r = ("ok", plain(r[1]))
    judge(ctx, "LetterAlphabet.encode", cls, mk, r, want, 1 if want[0] != "accept" or form == "bytes" else 0)
    ctx.outcome(("enc", cls, r[:2]))
    r = call(lambda: x in A)
    judge(ctx, "LetterAlphabet.__contains__", cls, lambda: {**mk(), "unit": "contains"}, r, want_in,
          1 if want_in != ("accept", True) else 0)


def container_elems(x):
    if isinstance(x, str):
        return list(x), "str"
    if isinstance(x, bytes):
        return [bytes([b]) for b in x], "bytes"
    if isinstance(x, np.ndarray):
        return x.tolist(), "ndarray_" + x.dtype.kind + str(x.dtype.itemsize // (4 if x.dtype.kind == "U" else 1))
    return list(x), type(x).__name__


def check_l_encode_multiple(ctx, A, M, syms, x):
    mk = lambda: {"kind": "letter", "alph": syms, "unit": "encode_multiple", "arg": enc_arg(x)}  # noqa: E731
    elems, form = container_elems(x)
    if isinstance(x, np.ndarray) and x.dtype.kind == "S":
        # numpy strips trailing NULs from S-items; a NUL byte is then an empty item
        elems = [e if e else b"\0" for e in elems]
    codes, worst = [], None
    for e in elems:
        kind, ch = elem_class(e)
        if kind == "char":
            c = M.encode(ch)
            if c is None:
                worst = worst or ("refuse", sym_class(ch, M))
            codes.append(c)
        elif kind == "byte":
            worst = worst or ("refuse", "non_ascii_byte")
        elif kind == "object":
            worst = ("odd", "elem_nonstring")
        else:
            worst = ("odd", "elem_" + ch)
    if worst is None:
        want, cls = ("accept", codes), "valid_len%s" % min(len(elems), 3)
    elif worst[0] == "refuse":
        # strict where biotite itself tests the symbol (str/bytes/ndarray forms), lenient for list/tuple
        want, cls = ("refuse", form in ("str", "bytes") or form.startswith("ndarray")), worst[1]
    else:
        want, cls = ("either", NOVALUE), worst[1]
    r = call(A.encode_multiple, x)
    if r[0] == "ok":
        v = r[1]
        if not isinstance(v, np.ndarray) or v.dtype.kind not in "ui" or v.ndim != 1:
            r = ("ok", ["not an integer ndarray", repr(v)[:80]])
        else:
            r = ("ok", plain(v))
    judge(ctx, "LetterAlphabet.encode_multiple", cls if want[0] == "either" else form + "|" + cls, mk, r, want,
          1 if want[0] != "accept" or (elems and form != "str") or len(elems) > 1 else 0)
    ctx.outcome(("encm", form, cls, r[:2] if r[0] == "ok" else r[1]))


def code_class(c, n):
    if 0 <= c < n:
        return "valid"
    if c < 0:
        return "code_negative"
    if c >= 65536:
        return "code_above_65535"
    if c >= 256:
        return "code_above_255"
    if c == n:
        return "code_eq_len"
    return "code_above_len"


def worst_code_class(codes, n):
    order = ["valid", "code_eq_len", "code_above_len", "code_negative", "code_above_255", "code_above_65535"]
    return max((code_class(c, n) for c in codes), key=order.index, default="valid")


def check_l_decode(ctx, A, M, syms, c):
    mk = lambda: {"kind": "letter", "alph": syms, "unit": "decode", "arg": enc_arg(c)}  # noqa: E731
    s = M.decode(int(c))
    want = ("accept", s) if s is not None else ("refuse", True)
    r = call(A.decode, c)
    judge(ctx, "LetterAlphabet.decode", type(c).__name__ + "|" + code_class(int(c), M.n), mk, r, want,
          1 if s is None or not isinstance(c, int) else 0)
    ctx.outcome(("dec", r[:2]))


def check_l_decode_multiple(ctx, A, M, syms, arr, as_bytes):
    mk = lambda: {"kind": "letter", "alph": syms, "unit": "decode_multiple", "arg": enc_arg(arr),  # noqa: E731
                  "as_bytes": as_bytes}
    codes = [int(v) for v in (arr.tolist() if isinstance(arr, np.ndarray) else arr)]
    form = arr.dtype.name if isinstance(arr, np.ndarray) else "list"
    cls = worst_code_class(codes, M.n)
    if cls == "valid":
        want = ("accept", [M.decode(c) for c in codes])
    else:
        want = ("refuse", form != "list")
    r = call(A.decode_multiple, arr, as_bytes) if as_bytes else call(A.decode_multiple, arr)
    if r[0] == "ok":
        v = r[1]
        exp_kind = "S" if as_bytes else "U"
        if not isinstance(v, np.ndarray) or v.dtype.kind != exp_kind:
            r = ("ok", ["wrong container", repr(v)[:80]])
        else:
            r = ("ok", plain(v))
    judge(ctx, "LetterAlphabet.decode_multiple", cls, mk, r, want,
          1 if cls != "valid" or form != "uint8" or len(codes) > 1 else 0)
    ctx.outcome(("decm", form, cls, r[:2] if r[0] == "ok" else r[1]))


def observe_seq(q, alph_syms, symbols, letter=True):
    """compare every string-like view of sequence q with the model symbol list; first mismatch or None"""
    exp_code = [alph_syms.index(s) for s in symbols]
    if letter:
        got = str(q)
        if got != "".join(symbols):
            return ("str", "".join(symbols), got)
    if len(q) != len(symbols):
        return ("len", len(symbols), len(q))
    got = plain(q.symbols)
    if got != plain(list(symbols)):
        return ("symbols", plain(list(symbols)), got)
    got = plain(q.code)
    if got != exp_code:
        return ("code", exp_code, got)
    got = plain(list(q))
    if got != plain(list(symbols)):
        return ("iter", plain(list(symbols)), got)
    a = q.alphabet
    hit = _ALPH_CACHE.get(id(a))
    if hit is None or hit[0] is not a:
        hit = (a, plain(list(a.get_symbols())))
        if len(_ALPH_CACHE) < 1000:
            _ALPH_CACHE[id(a)] = hit
    if hit[1] != plain(list(alph_syms)):
        return ("alphabet", plain(list(alph_syms)), hit[1])
    return None


_ALPH_CACHE = {}


def check_seq_code(ctx, alph, M, mk, arr, letter=True):
    """GeneralSequence(alph).code = arr, then every view must be the model symbols or raise."""
    from biotite.sequence import GeneralSequence

    codes = [int(v) for v in arr.tolist()]
    cls = worst_code_class(codes, M.n)
    q = GeneralSequence(alph)
    r = call(setattr, q, "code", arr)
    if r[0] == "exc":
        if cls == "valid":
            judge(ctx, "Sequence.code=", cls, mk, r, ("accept", "stored"))
        else:
            judge(ctx, "Sequence.code=", cls, mk, r, ("refuse", False), 1)
        return
    if cls == "valid":
        bad = call(observe_seq, q, M.symbols, [M.decode(c) for c in codes], letter)
        if bad[0] == "ok":
            judge(ctx, "Sequence.code=", cls + "|" + arr.dtype.name, mk, ("ok", bad[1]), ("accept", None),
                  1 if len(codes) > 1 or arr.dtype.name != "uint8" else 0)
        else:
            judge(ctx, "Sequence.code=", cls, mk, bad, ("accept", None))
        return
    views = [("str", lambda: str(q))] if letter else []
    views += [("symbols", lambda: plain(q.symbols)), ("iter", lambda: plain(list(q))),
              ("getitem", lambda: [plain(q[i]) for i in range(len(q))])]
    for name, f in views:
        r = call(f)
        ctx.outcome(("seqcode", name, cls, r[0]))
        if r[0] == "ok":
            r = ("ok", [name, r[1]])
        if not judge(ctx, "Sequence.code=", cls, mk, r, ("refuse", False), 1):
            break


def code_values(n):
    return list(range(-300, 601))


def code_arrays(n, dt, full):
    lo, hi = DTYPES[dt]
    vals = [c for c in code_values(n) if lo <= c <= hi]
    vals += [c for c in EXTREME_CODES if lo <= c <= hi and c not in vals]
    for c in vals:
        yield np.array([c], dtype=dt)
    if full:
        for c in vals:
            yield np.array([0, c], dtype=dt)
            yield np.array([c, n - 1], dtype=dt)


def _dedupe(items):
    seen, out = set(), []
    for x in items:
        key = json.dumps(enc_arg(x), sort_keys=True)
        if key not in seen:
            seen.add(key)
            out.append(x)
    return out


def run_letter(shard, ctx):
    syms, full = shard["alph"], shard["mode"] == "full"
    if not ctx.journal({"kind": "letter", "alph": syms, "unit": "shard", "mode": shard["mode"]}):
        return
    letter_battery(ctx, syms, full)


def letter_battery(ctx, syms, full):
    from biotite.sequence import GeneralSequence, LetterAlphabet

    A, M = letter_objects(syms)
    n = M.n
    # construction forms / views
    for form, arg in (("str", syms), ("list", list(syms)), ("list_bytes", [s.encode() for s in syms])):
        r = call(lambda: [list(LetterAlphabet(arg).get_symbols()), len(LetterAlphabet(arg)), list(LetterAlphabet(arg))])
        judge(ctx, "LetterAlphabet()", form, lambda: {"kind": "letter", "alph": syms, "unit": "construct", "form": form},
              r, ("accept", [list(syms), n, list(syms)]), 1 if form != "str" else 0)
    # encode / in : all 256 byte values as bytes and as str
    singles = [bytes([b]) for b in range(256)] + [chr(b) for b in range(256)]
    extras = ["", b"", syms[0] * 2, syms[0] + "x", "x" + syms[0], (syms[0] * 2).encode(), "Ā", "€",
              chr(ord(syms[0]) + 256)] + OBJECTS
    for x in _dedupe(singles + extras):
        check_l_encode(ctx, A, M, syms, x)
    # encode_multiple
    v0, vl = syms[0], syms[-1]
    inputs = ["", b"", [], (), np.array([], dtype="U1"), np.array([], dtype="S1")]
    for b in range(256):
        bb, ch = bytes([b]), chr(b)
        inputs += [bb, np.array([bb], dtype="S1"), [bb], ch, [ch]]
        if b < 128 or not full:
            inputs += [np.array([ch], dtype="U1")]
        if full:
            inputs += [v0.encode() + bb, bb + vl.encode(), v0 + ch, ch + vl,
                       np.array([v0.encode(), bb], dtype="S1"), np.array([bb, vl.encode()], dtype="S1"),
                       [v0, ch], [ch, vl], (ch, vl), np.array([v0, ch], dtype="U1"), [v0.encode(), bb]]
    inputs += [syms, syms[::-1], syms.encode(), list(syms), tuple(syms[::-1]), np.array(list(syms), dtype="U1"),
               np.array(list(syms), dtype="S1"), np.array(list(syms))[::-1], np.array(list(syms * 2))[::2]]
    # elements that are not single characters
    inputs += [[v0, vl * 2], [vl + "x"], (v0 + v0,), np.array([v0 + vl, v0]), np.array([(v0 + vl).encode()]),
               [(vl + vl).encode()], [v0, ""], [None], [v0, 1], [v0, None], [65], [1.5]]
    for x in _dedupe(inputs):
        check_l_encode_multiple(ctx, A, M, syms, x)
    # round trip of whole sequences
    if n <= 4:
        strings = ["".join(p) for L in range(0, 4) for p in itertools.product(syms, repeat=L)]
    elif full:
        strings = [a + b for a in syms for b in syms]
    else:
        strings = [syms, syms[::-1]]
    for s in strings:
        mk = lambda: {"kind": "letter", "alph": syms, "unit": "roundtrip", "s": s}  # noqa: E731
        r = call(lambda: [plain(A.decode_multiple(A.encode_multiple(s))),
                          plain(A.decode_multiple(A.encode_multiple(s.encode()), as_bytes=True)),
                          observe_seq(GeneralSequence(A, s), M.symbols, list(s)),
                          observe_seq(GeneralSequence(A, list(s)), M.symbols, list(s))])
        judge(ctx, "LetterAlphabet.roundtrip", "len%d" % min(len(s), 3), mk, r,
              ("accept", [list(s), list(s), None, None]), 1 if len(s) >= 2 else 0)
    ctx.outcome(("rt", syms, len(strings)))
    # decode
    for c in code_values(n) + EXTREME_CODES[:4]:
        check_l_decode(ctx, A, M, syms, c)
        if full and -128 <= c <= 127:
            check_l_decode(ctx, A, M, syms, np.int8(c))
        if full and 0 <= c <= 255:
            check_l_decode(ctx, A, M, syms, np.uint8(c))
        if full:
            check_l_decode(ctx, A, M, syms, np.int64(c))
    # decode_multiple / Sequence.code=
    for dt in DTYPES:
        for arr in code_arrays(n, dt, full):
            check_l_decode_multiple(ctx, A, M, syms, arr, False)
            if len(arr) == 1 and full:
                check_l_decode_multiple(ctx, A, M, syms, arr, True)
            if len(arr) == 1 or dt in ("int64", "uint8"):
                check_seq_code(ctx, A, M, lambda: {"kind": "letter", "alph": syms, "unit": "seq_code",
                                                   "arg": enc_arg(arr)}, arr)
    for c in [0, n - 1, n, -1, 255, 256, 258, -255]:
        check_l_decode_multiple(ctx, A, M, syms, [c], False)
        check_l_decode_multiple(ctx, A, M, syms, [0, c], False)
    check_l_decode_multiple(ctx, A, M, syms, [], False)
    check_l_decode_multiple(ctx, A, M, syms, np.array([], dtype="uint8"), False)
    ctx.sample({"kind": "letter", "alph": syms, "unit": "decode_multiple", "arg": {"a": [0, n], "dt": "int64"}})


def replay_letter(case, ctx):
    syms, u = case["alph"], case["unit"]
    if u == "shard":
        return letter_battery(ctx, syms, case["mode"] == "full")
    from biotite.sequence import GeneralSequence, LetterAlphabet

    A, M = letter_objects(syms)
    if u in ("encode", "contains"):
        check_l_encode(ctx, A, M, syms, dec_arg(case["arg"]))
    elif u == "encode_multiple":
        check_l_encode_multiple(ctx, A, M, syms, dec_arg(case["arg"]))
    elif u == "decode":
        check_l_decode(ctx, A, M, syms, dec_arg(case["arg"]))
    elif u == "decode_multiple":
        check_l_decode_multiple(ctx, A, M, syms, dec_arg(case["arg"]), case.get("as_bytes", False))
    elif u == "seq_code":
        check_seq_code(ctx, A, M, lambda: case, dec_arg(case["arg"]))
    else:
        letter_battery(ctx, syms, True)


# ---------------------------------------------------------------------------
# generic alphabets over hashable symbols
# ---------------------------------------------------------------------------
GEN_PALETTES = {
    "ints": [3, -1, 0, 10**12, 7],
    "tuples": [(1, 2, 3), (), (0,), ("a", 1), (None,)],
    "strings": ["foo", "", "A", "AB", "é"],
    "mixed": ["foo", 42, (1, 2, 3), None, 3.141],
    "mixed2": [b"x", frozenset([1]), "x", -5, ((),)],
}
FOREIGN = ["bar", 99, (9,), b"foo", 2.5, frozenset(), "a", (1, 2), 4, "fo"]


def gen_symbols(pal, n, seed):
    p = GEN_PALETTES[pal]
    r = seed % len(p)
    return (p[r:] + p[:r])[:n]


def enc_sym(x):
    if isinstance(x, frozenset):
        return {"fs": sorted(x)}
    if isinstance(x, tuple):
        return {"t": [enc_sym(v) for v in x]}
    if isinstance(x, bytes):
        return {"b": list(x)}
    if isinstance(x, float):
        return {"f": x}
    return {"v": x}


def dec_sym(e):
    if "fs" in e:
        return frozenset(e["fs"])
    if "t" in e:
        return tuple(dec_sym(v) for v in e["t"])
    if "b" in e:
        return bytes(e["b"])
    if "f" in e:
        return float(e["f"])
    return e["v"]


def pl(v):
    """plain but type-preserving enough for comparing symbol lists"""
    if isinstance(v, np.ndarray):
        v = v.tolist()
    if isinstance(v, np.generic):
        return v.item()
    if isinstance(v, list):
        return [pl(x) for x in v]
    return v


def same_syms(a, b):
    return len(a) == len(b) and all(type(x) is type(y) and x == y for x, y in zip(a, b))


def check_g_seq(ctx, A, M, case, symbols):
    """one symbol sequence (list) through encode_multiple / decode_multiple / GeneralSequence"""
    from biotite.sequence import GeneralSequence

    mk = lambda: {**case, "unit": "seq", "symbols": [enc_sym(s) for s in symbols]}  # noqa: E731
    codes = [M.encode(s) for s in symbols]
    bad_at = [i for i, c in enumerate(codes) if c is None]
    if bad_at:
        for name, f in (("encode_multiple", lambda: pl(A.encode_multiple(symbols))),
                        ("GeneralSequence()", lambda: pl(GeneralSequence(A, symbols).code)),
                        ("encode", lambda: pl(A.encode(symbols[bad_at[0]])))):
            r = call(f)
            hashable = call(hash, symbols[bad_at[0]])[0] == "ok"
            judge(ctx, "Alphabet." + name, "foreign_symbol" if hashable else "unhashable", mk, r,
                  ("refuse", True) if hashable else ("either", NOVALUE), 1)
        r = call(lambda: symbols[bad_at[0]] in A)
        judge(ctx, "Alphabet.__contains__", "foreign_symbol", mk, r,
              ("accept", False) if hashable else ("either", False), 1)
        return

    def go():
        out = []
        enc = A.encode_multiple(symbols)
        out.append(pl(enc))
        out.append(pl(A.encode_multiple(tuple(symbols), dtype=np.uint16)))
        out.append([A.encode(s) for s in symbols])
        dec = A.decode_multiple(enc)
        out.append(same_syms(list(dec), symbols))
        out.append(same_syms([A.decode(c) for c in codes], symbols))
        out.append(same_syms([A.decode(np.int64(c)) for c in codes], symbols))
        out.append(all(s in A for s in symbols))
        q = GeneralSequence(A, symbols)
        out.append(pl(q.code))
        out.append(same_syms(list(q.symbols), symbols) and same_syms(list(q), symbols) and len(q) == len(symbols))
        out.append(same_syms([q[i] for i in range(len(symbols))], symbols))
        out.append(str(q) == ", ".join(str(s) for s in symbols))
        return out

    r = call(go)
    judge(ctx, "Alphabet.roundtrip", "len%d" % len(symbols), mk, r,
          ("accept", [codes, codes, codes, True, True, True, True, codes, True, True, True]), 1 if len(symbols) >= 2 else 0)
    ctx.outcome(("g", codes))


def check_g_code(ctx, A, M, case, form, codes, seen=None):
    if seen is not None:
        if (form, tuple(codes)) in seen:
            return
        seen.add((form, tuple(codes)))
    mk = lambda: {**case, "unit": "code", "form": form, "codes": codes}  # noqa: E731
    cls = worst_code_class(codes, M.n)
    exp = [M.decode(c) for c in codes]
    if form == "int":
        f = lambda: [A.decode(codes[0])]  # noqa: E731
    elif form == "npint":
        f = lambda: [A.decode(np.int64(codes[0]))]  # noqa: E731
    elif form == "list":
        f = lambda: list(A.decode_multiple(codes))  # noqa: E731
    else:
        f = lambda: list(A.decode_multiple(np.array(codes, dtype=form)))  # noqa: E731
    r = call(f)
    if cls == "valid":
        if r[0] == "ok":
            r = ("ok", same_syms(r[1], exp))
        judge(ctx, "Alphabet.decode", form + "|valid", mk, r, ("accept", True), 1 if form != "int" else 0)
    else:
        if r[0] == "ok":
            r = ("ok", repr(r[1])[:100])
        judge(ctx, "Alphabet.decode", cls, mk, r, ("refuse", True), 1)
    if form in ("int64", "int16", "uint8", "uint16"):
        arr = np.array(codes, dtype=form)
        check_seq_code(ctx, A, M, lambda: {**mk(), "unit": "seq_code"}, arr, letter=False)


def gen_alphabet(case):
    from biotite.sequence import Alphabet

    if case.get("big"):
        syms = [1000 - i for i in range(case["big"])]
    else:
        syms = gen_symbols(case["pal"], case["n"], case["rot"])
    return Alphabet(syms), sm.AlphaModel(syms)


def run_generic(shard, ctx):
    case = {k: shard[k] for k in ("kind", "pal", "n", "rot", "big") if k in shard}
    if not ctx.journal({**case, "unit": "shard"}):
        return
    generic_battery(ctx, case)


def generic_battery(ctx, case):
    A, M = gen_alphabet(case)
    n = M.n
    seen = set()
    r = call(lambda: [same_syms(list(A.get_symbols()), M.symbols), len(A), same_syms(list(A), M.symbols)])
    judge(ctx, "Alphabet()", "views", lambda: {**case, "unit": "construct"}, r, ("accept", [True, n, True]))
    if case.get("big"):
        for c in [0, 1, 127, 128, 254, 255, 256, n - 1]:
            if c < n:
                check_g_seq(ctx, A, M, case, [M.symbols[c]])
                check_g_seq(ctx, A, M, case, [M.symbols[c], M.symbols[n - 1 - c]])
        for c in [-1, 0, 255, 256, n - 1, n, n + 1, 511, 512, 65535, 65536, 65536 + 5, -65536, -65531, 2**32 + 5]:
            for form in ("int", "npint", "list", "int64"):
                check_g_code(ctx, A, M, case, form, [c], seen)
            check_g_code(ctx, A, M, case, "int64", [0, c], seen)
        return
    foreign = [f for f in FOREIGN + [[1]] if not (call(hash, f)[0] == "ok" and M.has(f))]
    for L in range(0, 4):
        for symbols in itertools.product(M.symbols, repeat=L):
            check_g_seq(ctx, A, M, case, list(symbols))
    for f in foreign:
        check_g_seq(ctx, A, M, case, [f])
        for s in M.symbols:
            check_g_seq(ctx, A, M, case, [s, f])
            check_g_seq(ctx, A, M, case, [f, s])
    for c in list(range(-2, n + 2)) + [255, 256, 256 + n - 1, -256, -255, 65536]:
        for form in ("int", "npint", "list", "int64", "int16" if abs(c) < 32768 else "int64"):
            check_g_code(ctx, A, M, case, form, [c], seen)
        if 0 <= c < 256:
            check_g_code(ctx, A, M, case, "uint8", [c], seen)
        for form in ("list", "int64"):
            check_g_code(ctx, A, M, case, form, [0, c], seen)
            check_g_code(ctx, A, M, case, form, [c, n - 1], seen)
    check_g_code(ctx, A, M, case, "list", [], seen)
    check_g_code(ctx, A, M, case, "int64", [], seen)
    ctx.sample({**case, "unit": "seq", "symbols": [enc_sym(s) for s in M.symbols[:2]]})


def replay_generic(case, ctx):
    base = {k: case[k] for k in ("kind", "pal", "n", "rot", "big") if k in case}
    u = case.get("unit")
    A, M = gen_alphabet(base)
    if u == "seq":
        check_g_seq(ctx, A, M, base, [dec_sym(s) for s in case["symbols"]])
    elif u in ("code", "seq_code"):
        check_g_code(ctx, A, M, base, case["form"], case["codes"])
    else:
        generic_battery(ctx, base)


# ---------------------------------------------------------------------------
# AlphabetMapper
# ---------------------------------------------------------------------------
MAP_ALPHS = [
    ("g", ["A", "C"]), ("g", ["A", "C", "G"]), ("g", ["C", "A"]), ("g", ["G", "C", "A", "T"]), ("g", ["X", "Y"]),
    ("l", ["A", "C"]), ("l", ["T", "G", "C", "A"]), ("g", [(1,), "A", 42]),
]


def map_alph(i):
    from biotite.sequence import Alphabet, LetterAlphabet

    kind, syms = MAP_ALPHS[i]
    return (LetterAlphabet(syms) if kind == "l" else Alphabet(syms)), sm.AlphaModel(syms)


def check_mapper(ctx, i, j, form, codes):
    from biotite.sequence import AlphabetMapper, GeneralSequence

    mk = lambda: {"kind": "mapper", "src": i, "dst": j, "form": form, "codes": codes}  # noqa: E731
    (S, MS), (T, MT) = map_alph(i), map_alph(j)
    mappable = all(MT.has(s) for s in MS.symbols)
    r = call(AlphabetMapper, S, T)
    if not mappable:
        if r[0] == "ok":
            r = ("ok", "mapper object")
        judge(ctx, "AlphabetMapper()", "target_lacks_symbol", mk, r, ("refuse", True), 1)
        return
    if r[0] == "exc":
        judge(ctx, "AlphabetMapper()", "mappable", mk, r, ("accept", "mapper object"))
        return
    mp = r[1]
    if form == "int":
        arg = codes[0]
    elif form == "npint":
        arg = np.int64(codes[0])
    elif form == "list":
        arg = list(codes)
    elif form == "seq":
        arg = None
    else:
        arg = np.array(codes, dtype=form)
    valid = all(0 <= c < MS.n for c in codes)
    if not valid:
        if (form not in ("int", "npint", "list", "int64")) or all(c >= 0 for c in codes) or form in ("int", "npint"):
            r = call(lambda: pl(mp[arg]))
            judge(ctx, "AlphabetMapper[]", "code_out_of_range", mk, r, ("free",))
            ctx.outcome(("map_oor", form, r[0], r[1] if r[0] == "exc" else None))
        return
    exp = [MT.encode(MS.symbols[c]) for c in codes]
    if form == "seq":
        def go():
            src = GeneralSequence(S, [MS.symbols[c] for c in codes])
            out = GeneralSequence(T)
            out.code = mp[src.code]
            return pl(out.code), same_syms(pl(out.symbols), [MS.symbols[c] for c in codes])
        r = call(go)
        if r[0] == "ok":
            r = ("ok", list(r[1]))
        judge(ctx, "AlphabetMapper[]", "sequence_code", mk, r, ("accept", [exp, True]), 1)
        return
    r = call(lambda: mp[arg])
    if r[0] == "ok":
        v = r[1]
        if form in ("int", "npint"):
            r = ("ok", [int(v)] if isinstance(v, (int, np.integer)) else ["not an int", repr(v)])
        else:
            r = ("ok", pl(v) if isinstance(v, np.ndarray) else ["not an ndarray", repr(v)])
    judge(ctx, "AlphabetMapper[]", form, mk, r, ("accept", exp), 1 if exp != codes or form != "int" else 0)
    ctx.outcome(("map", i, j, exp))


MAP_FORMS = ["int", "npint", "list", "uint8", "uint16", "uint32", "uint64", "int64", "seq"]


def run_mapper(shard, ctx):
    i = shard["src"]
    if not ctx.journal({"kind": "mapper", "src": i, "unit": "shard"}):
        return
    MS = sm.AlphaModel(MAP_ALPHS[i][1])
    n = MS.n
    for j in range(len(MAP_ALPHS)):
        seqs = [[c] for c in range(n)] + [[a, b] for a in range(n) for b in range(n)]
        seqs += [list(p) for p in itertools.product(range(n), repeat=3)]
        for form in MAP_FORMS:
            for codes in seqs:
                if form in ("int", "npint") and len(codes) != 1:
                    continue
                check_mapper(ctx, i, j, form, codes)
            if form not in ("int", "npint"):
                check_mapper(ctx, i, j, form, [])
            for c in (-2, -1, n, n + 1, 255, 256):
                if form == "seq" or (c < 0 and form.startswith("u")) or (c > 255 and form == "uint8"):
                    continue
                check_mapper(ctx, i, j, form, [c])
                if form not in ("int", "npint"):
                    check_mapper(ctx, i, j, form, [0, c])
    ctx.sample({"kind": "mapper", "src": i, "dst": (i + 1) % 8, "form": "uint8", "codes": [0, n - 1]})


# ---------------------------------------------------------------------------
# KmerAlphabet
# ---------------------------------------------------------------------------
KMER_BASES = {"l": "ACGT", "g": [(0,), "xy", 7, None]}
UDTYPES = ["uint8", "uint16", "uint32", "uint64"]


def kmer_objects(case):
    from biotite.sequence import Alphabet, LetterAlphabet
    from biotite.sequence.align import KmerAlphabet

    n, k, sp = case["n"], case["k"], case.get("sp")
    if case["base"] == "l":
        syms = list(KMER_BASES["l"][:n])
        base = LetterAlphabet(syms)
    else:
        syms = KMER_BASES["g"][:n]
        base = Alphabet(syms)
    if sp is None:
        K = KmerAlphabet(base, k)
    elif case.get("spform") == "str":
        K = KmerAlphabet(base, k, spacing="".join("1" if i in sp else "0" for i in range(sp[-1] + 1)))
    elif case.get("spform") == "rlist":
        K = KmerAlphabet(base, k, spacing=list(reversed(sp)))
    else:
        K = KmerAlphabet(base, k, spacing=list(sp))
    return K, sm.AlphaModel(syms)


def tuple_class(t, n):
    neg = any(c < 0 for c in t)
    eq = any(c == n for c in t)
    above = any(c > n for c in t)
    if not (neg or eq or above):
        return "valid"
    return "code_" + "+".join(x for x, f in (("negative", neg), ("eq_len", eq), ("above_len", above)) if f)


def check_k_fuse(ctx, K, M, case, t, dt):
    n = M.n
    mk = lambda: {**case, "unit": "fuse", "codes": list(t), "dt": dt}  # noqa: E731
    cls = tuple_class(t, n)
    r = call(lambda: pl(K.fuse(np.array(t, dtype=dt))))
    if cls == "valid":
        judge(ctx, "KmerAlphabet.fuse", dt, mk, r, ("accept", sm.kmer_fuse(t, n)), 1)
    else:
        judge(ctx, "KmerAlphabet.fuse", cls, mk, r, ("refuse", True), 1)
    ctx.outcome(("fuse", r[:2]))


def check_k_code(ctx, K, M, case, c, form):
    """one k-mer code through split / decode (and back)"""
    n, k = M.n, case["k"]
    N = n**k
    mk = lambda: {**case, "unit": "code", "code": c, "form": form}  # noqa: E731
    arg = {"int": c, "npint": np.int64(c), "arr": np.array([0, c], dtype=np.int64)}[form]
    if 0 <= c < N:
        dig = sm.kmer_digits(c, n, k)
        syms = [M.symbols[d] for d in dig]

        def go():
            sp = K.split(arg)
            sp_l = pl(sp)
            if form == "arr":
                sp_l = sp_l[1]
                back = pl(K.fuse(sp))[1]
            else:
                back = pl(K.fuse(sp))
            dec = K.decode(c)
            return [sp_l, back, same_syms(pl(list(dec)) if not isinstance(dec, np.ndarray) else pl(dec), syms),
                    pl(K.encode(syms if case["base"] == "g" else "".join(syms))),
                    (syms if case["base"] == "g" else "".join(syms)) in K]
        r = call(go)
        judge(ctx, "KmerAlphabet.split", form + "|valid", mk, r, ("accept", [dig, c, True, c, True]), 1)
    else:
        cls = "kmer_code_negative" if c < 0 else ("kmer_code_eq_len" if c == N else "kmer_code_above_len")
        r = call(lambda: pl(K.split(arg)))
        judge(ctx, "KmerAlphabet.split", cls, mk, r, ("refuse", True), 1)
        if form == "int":
            r = call(lambda: pl(K.decode(c)))
            judge(ctx, "KmerAlphabet.decode", cls, mk, r, ("refuse", True), 1)
            r = call(lambda: pl(K.decode_multiple([0, c])))
            judge(ctx, "KmerAlphabet.decode_multiple", cls, mk, r, ("refuse", True), 1)


def check_k_kmers(ctx, K, M, case, seq_, dt):
    n, k, sp = M.n, case["k"], case.get("sp")
    mk = lambda: {**case, "unit": "kmers", "seq": list(seq_), "dt": dt}  # noqa: E731
    exp, read, cnt = sm.kmers_of(seq_, n, k, sp)
    bad = [i for i, c in enumerate(seq_) if not 0 <= c < n]
    r = call(lambda: K.create_kmers(np.array(seq_, dtype=dt)))
    if r[0] == "ok":
        v = r[1]
        r = ("ok", pl(v) if isinstance(v, np.ndarray) and v.ndim == 1 else ["not a 1-d ndarray", repr(v)[:60]])
    if cnt >= 0 and dt == "uint8" and not bad:
        r2 = call(lambda: K.kmer_array_length(len(seq_)))
        judge(ctx, "KmerAlphabet.kmer_array_length", "len", mk, r2, ("accept", cnt))
    if cnt <= 0:
        judge(ctx, "KmerAlphabet.create_kmers", "shorter_than_span", mk, r, ("either", []), 1)
    elif not bad:
        judge(ctx, "KmerAlphabet.create_kmers", dt + ("|spaced" if sp else "|contiguous"), mk, r, ("accept", exp), 1)
    elif any(i in read for i in bad):
        where = "first_kmer" if any(i in bad for i in (sp or range(k))) else "later_kmer"
        judge(ctx, "KmerAlphabet.create_kmers", "code_out_of_range|" + where, mk, r, ("refuse", True), 1)
    else:
        # never read by any k-mer (gaps of a spaced model): the model value ignores it
        judge(ctx, "KmerAlphabet.create_kmers", "code_out_of_range|unread_position", mk, r, ("either", exp), 1)
    ctx.outcome(("kmers", r[:2] if r[0] == "ok" else r[1]))


def kmer_maxlen(n, span, tier):
    cap = 2048 if tier == "quick" else 16384
    L = span + (2 if tier == "quick" else 3)
    while n**L > cap and L > span:
        L -= 1
    return L


def run_kmer(shard, ctx):
    case = {k_: shard[k_] for k_ in ("kind", "base", "n", "k", "sp", "spform") if k_ in shard}
    if not ctx.journal({**case, "unit": "shard", "part": shard["part"]}):
        return
    kmer_battery(ctx, case, shard["part"], ctx.tier, ctx.seed)


def kmer_battery(ctx, case, part, tier, seed):
    K, M = kmer_objects(case)
    n, k, sp = M.n, case["k"], case.get("sp")
    N = n**k
    if part == "codes":
        r = call(lambda: [len(K), K.k, pl(K.spacing) if K.spacing is not None else None])
        judge(ctx, "KmerAlphabet()", "views", lambda: {**case, "unit": "views"}, r,
              ("accept", [N, k, list(sp) if sp else None]))
        for c in range(N):
            for form in ("int", "npint", "arr"):
                check_k_code(ctx, K, M, case, c, form)
        for c in (-2, -1, N, N + 1, 2 * N, -N, 2**31, 2**62):
            for form in ("int", "npint", "arr"):
                check_k_code(ctx, K, M, case, c, form)
        # vectorised forms
        alld = [sm.kmer_digits(c, n, k) for c in range(N)]
        r = call(lambda: [pl(K.split(np.arange(N))), pl(K.fuse(np.array(alld, dtype=np.int64))),
                          pl(K.fuse(np.array(alld, dtype=np.uint8)))])
        judge(ctx, "KmerAlphabet.split", "vectorised", lambda: {**case, "unit": "vector"}, r,
              ("accept", [alld, list(range(N)), list(range(N))]), 1)
        if N <= 256:
            r = call(lambda: [pl(list(s)) if not isinstance(s, str) else s for s in K.get_symbols()])
            exp = [[M.symbols[d] for d in dg] for dg in alld]
            if case["base"] == "l":
                exp = ["".join(e) for e in exp]
            judge(ctx, "KmerAlphabet.get_symbols", "all", lambda: {**case, "unit": "vector"}, r, ("accept", exp), 1)
        for t in itertools.product(range(-1, n + 2), repeat=k):
            check_k_fuse(ctx, K, M, case, t, "int64")
            if min(t) >= 0:
                check_k_fuse(ctx, K, M, case, t, "uint8")
                check_k_fuse(ctx, K, M, case, t, "uint64")
        # encode with a foreign symbol / wrong length
        good = [M.symbols[0]] * k
        for name, symlist, cls in (("foreign", good[:-1] + ["Z"], "foreign_symbol"), ("short", good[:-1], "wrong_length"),
                                   ("long", good + [M.symbols[0]], "wrong_length")):
            arg = symlist if case["base"] == "g" else "".join(symlist)
            r = call(lambda: pl(K.encode(arg)))
            judge(ctx, "KmerAlphabet.encode", cls, lambda: {**case, "unit": "encode_bad", "which": name}, r,
                  ("refuse", True), 1)
            r = call(lambda: arg in K)
            judge(ctx, "KmerAlphabet.__contains__", cls, lambda: {**case, "unit": "encode_bad", "which": name}, r,
                  ("either", False), 1)
        ctx.sample({**case, "unit": "fuse", "codes": [0] * (k - 1) + [n], "dt": "int64"})
        return
    # create_kmers
    span = (sp[-1] + 1) if sp else k
    Lmax = kmer_maxlen(n, span, tier)
    other = UDTYPES[1 + seed % 3]
    for L in range(0, Lmax + 1):
        for s in itertools.product(range(n), repeat=L):
            for dt in UDTYPES:
                check_k_kmers(ctx, K, M, case, s, dt)
            for pos in range(L):
                for dt, v in (("uint8", n), (other, int(np.iinfo(other).max)), ("uint8", 255)):
                    if dt == "uint8" and v == 255 and (pos + sum(s)) % 3:
                        continue
                    t = list(s)
                    t[pos] = v
                    check_k_kmers(ctx, K, M, case, t, dt)
    ctx.sample({**case, "unit": "kmers", "seq": [0] * (span - 1) + [n - 1, 1 % n], "dt": "uint8"})


def replay_kmer(case, ctx):
    base = {k_: case[k_] for k_ in ("kind", "base", "n", "k", "sp", "spform") if k_ in case}
    if base.get("sp") is not None:
        base["sp"] = list(base["sp"])
    K, M = kmer_objects(base)
    u = case.get("unit")
    if u == "fuse":
        check_k_fuse(ctx, K, M, base, tuple(case["codes"]), case["dt"])
    elif u == "code":
        check_k_code(ctx, K, M, base, case["code"], case["form"])
    elif u == "kmers":
        check_k_kmers(ctx, K, M, base, case["seq"], case["dt"])
    elif u == "shard":
        kmer_battery(ctx, base, case["part"], ctx.tier, ctx.seed)
    else:
        kmer_battery(ctx, base, "codes", ctx.tier, ctx.seed)


# ---------------------------------------------------------------------------
# Sequence objects versus their symbol strings
# ---------------------------------------------------------------------------
THREE = {"A": "ALA", "C": "CYS", "D": "ASP", "E": "GLU", "F": "PHE", "G": "GLY", "H": "HIS", "I": "ILE", "K": "LYS",
         "L": "LEU", "M": "MET", "N": "ASN", "P": "PRO", "Q": "GLN", "R": "ARG", "S": "SER", "T": "THR", "V": "VAL",
         "W": "TRP", "Y": "TYR", "B": "ASX", "Z": "GLX", "X": "UNK"}


def seq_alphabet(cls, pal):
    return {"nuc": sm.NUC4, "nuca": sm.NUC15, "prot": sm.PROT24, "gen": pal}[cls]


def make_seq(cls, pal, s, form="str"):
    import biotite.sequence as bs

    if form in ("lower", "lower_list"):
        s = s.lower()
    if form == "three":
        arg = [THREE[c] if i % 2 == 0 else THREE[c].lower() for i, c in enumerate(s)]
    elif form in ("list", "lower_list"):
        arg = list(s)
    elif form == "tuple":
        arg = tuple(s)
    elif form == "U1":
        arg = np.array(list(s), dtype="U1")
    else:
        arg = s
    if cls == "nuc":
        return bs.NucleotideSequence(arg)
    if cls == "nuca":
        if all(c in "ACGTacgt" for c in s):
            return bs.NucleotideSequence(arg, ambiguous=True)
        return bs.NucleotideSequence(arg)
    if cls == "prot":
        return bs.ProteinSequence(arg)
    return bs.GeneralSequence(bs.LetterAlphabet(pal), arg)


def others_for(cls, pal):
    """(name, cls, pal, string) operands of +"""
    o = [("same_empty", cls, pal, ""), ("same_1", cls, pal, seq_alphabet(cls, pal)[-1]),
         ("same_2", cls, pal, seq_alphabet(cls, pal)[1] + seq_alphabet(cls, pal)[0])]
    o += [("nuc", "nuc", None, "GA"), ("nuca", "nuca", None, "NR"), ("nuca_acgt", "nuca", None, "TC"),
          ("prot", "prot", None, "M*"), ("gen_acgt", "gen", "ACGT", "TA"), ("gen_acgtr", "gen", "ACGTR", "RA"),
          ("gen_other", "gen", "xyz", "zx"), ("gen_ac", "gen", "AC", "CA")]
    return o


def idx_decode(e):
    k = e[0]
    if k == "slice":
        return slice(*e[1])
    if k == "mask":
        return np.array(e[1], dtype=bool)
    if k == "lmask":
        return list(e[1])
    if k == "arr":
        return np.array(e[1], dtype=e[2])
    if k == "list":
        return list(e[1])
    raise ValueError(e)


def idx_class(e, L):
    k = e[0]
    if k == "slice":
        a, b, c = e[1]
        neg = any(x is not None and x < 0 for x in (a, b))
        return "slice%s%s" % ("_negstep" if (c or 1) < 0 else ("_step" if (c or 1) > 1 else ""), "_negbound" if neg else "")
    if k in ("mask", "lmask"):
        return k if len(e[1]) == L else k + "_wrong_length"
    oor = any(not -L <= x < L for x in e[1])
    return "%s%s%s" % (k, "_neg" if any(x < 0 for x in e[1]) else "", "_out_of_range" if oor else "")


def model_index(symbols, e):
    """expected symbol list or None (numpy refuses)"""
    L = len(symbols)
    k = e[0]
    if k == "slice":
        return list(symbols[slice(*e[1])])
    if k in ("mask", "lmask"):
        if len(e[1]) != L:
            return None
        return [s for s, m in zip(symbols, e[1]) if m]
    if any(not -L <= x < L for x in e[1]):
        return None
    return [symbols[x] for x in e[1]]


def model_positions(L, e):
    k = e[0]
    if k == "slice":
        return list(range(L))[slice(*e[1])]
    if k in ("mask", "lmask"):
        return None if len(e[1]) != L else [i for i, m in enumerate(e[1]) if m]
    if any(not -L <= x < L for x in e[1]):
        return None
    return [x % L for x in e[1]]


def check_seq_op(ctx, cls, pal, s, op):
    import biotite.sequence as bs

    alph = seq_alphabet(cls, pal)
    sym = list(s)
    L = len(s)
    mk = lambda: {"kind": "seqapi", "cls": cls, "pal": pal, "s": s, "op": op}  # noqa: E731
    k = op[0]
    site = "Sequence." + {"int": "__getitem__", "index": "__getitem__", "setint": "__setitem__", "setitems": "__setitem__",
                          "add": "__add__"}.get(k, k)

    def unchanged(q):
        b = call(observe_seq, q, alph, sym)
        return None if b == ("ok", None) else b

    if k == "construct":
        form = op[1]
        r = call(lambda: observe_seq(make_seq(cls, pal, s, form), alph, sym))
        judge(ctx, site, form, mk, r, ("accept", None), 1 if form != "str" and L else 0)
        return
    q = make_seq(cls, pal, s)
    if k == "int":
        i = op[1]
        r = call(lambda: plain(q[i]))
        if -L <= i < L:
            judge(ctx, site, "neg" if i < 0 else "nonneg", mk, r, ("accept", s[i]), 1 if i < 0 else 0)
        else:
            judge(ctx, site, "out_of_range", mk, r, ("refuse", False), 1)
        return
    if k == "index":
        e = op[1]
        exp = model_index(sym, e)
        cl = idx_class(e, L)

        def go():
            sub = q[idx_decode(e)]
            if type(sub) is not type(q):
                return "result type %s" % type(sub).__name__
            return observe_seq(sub, alph, exp if exp is not None else [])
        r = call(go)
        if exp is None:
            judge(ctx, site, cl, mk, r, ("refuse", False), 1)
        else:
            judge(ctx, site, cl, mk, r, ("accept", None), 1 if exp and cl != "slice" else 0)
        ctx.outcome(("idx", cls, "".join(exp) if exp is not None else None))
        return
    if k == "setint":
        i, x = op[1], dec_arg(op[2])
        kind, ch = elem_class(x)
        ok_sym = kind == "char" and ch in alph
        r = call(q.__setitem__, i, x)
        cl = ("neg" if i < 0 else "nonneg") if -L <= i < L else "index_out_of_range"
        if ok_sym and -L <= i < L:
            new = list(sym)
            new[i] = ch
            if r[0] == "ok":
                r = call(observe_seq, q, alph, new)
            judge(ctx, site, cl, mk, r, ("accept", None), 1)
            ctx.outcome(("set", cls, "".join(new)))
            return
        if not -L <= i < L and ok_sym:
            want, cl2 = ("refuse", False), cl
        elif kind in ("char", "byte", "object"):
            want, cl2 = ("refuse", not (not -L <= i < L)), "symbol_not_in_alphabet" if kind == "char" else "symbol_" + kind
        else:
            want, cl2 = ("either", NOVALUE), "symbol_" + ch
        if r[0] == "ok":
            r = ("ok", str(call(str, q)))
        if judge(ctx, site, cl2, mk, r, want, 1):
            b = unchanged(q)
            if b:
                ctx.violation("%s|state_changed|%s" % (site, cl2), "refused assignment changed the sequence", mk(), s, list(b))
        return
    if k == "setitems":
        e, vform, val = op[1], op[2], op[3]
        pos = model_positions(L, e)
        cl = idx_class(e, L) + "|" + vform
        if vform in ("str", "list"):
            item = val if vform == "str" else list(val)
            vsyms = list(val)
        elif vform in ("seq", "seq_other"):
            ocls, opal, ostr = val
            item = make_seq(ocls, opal, ostr)
            vsyms = list(ostr)
        else:  # code arrays
            codes, dt = val
            item = np.array(codes, dtype=dt)
            vsyms = [alph[c] if 0 <= c < len(alph) else None for c in codes]
        r = call(q.__setitem__, idx_decode(e), item)
        fits = pos is not None and (len(vsyms) == len(pos) or len(vsyms) == 1)
        allin = all(v is not None and len(v) == 1 and v in alph for v in vsyms)
        if fits and allin:
            new = list(sym)
            for j, p in enumerate(pos):
                new[p] = vsyms[j if len(vsyms) > 1 else 0]
            same_alph = vform != "seq_other" or (lambda oa: oa == alph[:len(oa)] or alph == oa[:len(alph)])(seq_alphabet(val[0], val[1]))
            if r[0] == "ok":
                r = call(observe_seq, q, alph, new)
                if r[0] == "exc":
                    r = ("ok", ["corrupt state", r[1]])
            if vform == "seq_other" and not same_alph:
                judge(ctx, site, "sequence_of_other_alphabet", mk, r, ("either", None), 1)
            else:
                judge(ctx, site, cl, mk, r, ("accept", None), 1)
            ctx.outcome(("setitems", cls, "".join(new)))
            return
        # something is wrong with the request: wrong length, symbol / code outside the alphabet
        if not fits:
            cl2, want = "length_mismatch|" + vform, ("refuse", False)
        elif vform in ("str", "list"):
            cl2, want = "symbol_not_in_alphabet|" + vform, ("refuse", vform == "str")
        elif vform in ("seq", "seq_other"):
            cl2, want = "sequence_of_other_alphabet", ("either", NOVALUE)
        else:
            cl2, want = worst_code_class(val[0], len(alph)), ("either", NOVALUE)
        if r[0] == "ok":
            # accepted: acceptable only if every later view refuses to produce symbols (invalid code stored)
            v = call(lambda: [str(q), plain(q.symbols)])
            if v[0] == "exc" and vform == "code" and fits:
                ctx.ev(1, 1)
                ctx.count("unspecified")
                return
            r = ("ok", v[1] if v[0] == "ok" else ["corrupt state", v[1]])
        if judge(ctx, site, cl2, mk, r, want, 1):
            b = unchanged(q)
            if b:
                ctx.violation("%s|state_changed|%s" % (site, cl2), "refused assignment changed the sequence", mk(), s, list(b))
        return
    if k == "add":
        name, ocls, opal, ostr = op[1]
        oalph = seq_alphabet(ocls, opal)
        o = make_seq(ocls, opal, ostr)
        for side in ("left", "right"):
            a, b = (q, o) if side == "left" else (o, q)
            sa, sb = (s, ostr) if side == "left" else (ostr, s)
            A1, B1 = (alph, oalph) if side == "left" else (oalph, alph)
            if A1[:len(B1)] == B1:
                ralph, rtype = A1, type(a)
            elif B1[:len(A1)] == A1:
                ralph, rtype = B1, type(b)
            else:
                ralph = None
            mk2 = lambda: {**mk(), "side": side}  # noqa: E731

            def go():
                res = a + b
                if type(res) is not rtype:
                    return "result type %s" % type(res).__name__
                return observe_seq(res, ralph, list(sa + sb))
            r = call(go) if ralph is not None else call(lambda: str(a + b))
            if ralph is None:
                judge(ctx, site, "incompatible_alphabets", mk2, r, ("refuse", False), 1)
            else:
                judge(ctx, site, "same" if A1 == B1 else "extending", mk2, r, ("accept", None), 1)
                bad = unchanged(q)
                if bad:
                    ctx.violation("%s|operand_changed|%s" % (site, name), "+ changed its operand", mk2(), s, list(bad))
        return
    if k == "reverse":
        def go():
            rv = q.reverse()
            out = [observe_seq(rv, alph, sym[::-1]), type(rv) is type(q), observe_seq(rv.reverse(), alph, sym),
                   observe_seq(q.reverse(copy=False), alph, sym[::-1])]
            if L:
                rv[0] = alph[(alph.index(sym[-1]) + 1) % len(alph)]
            out.append(observe_seq(q, alph, sym))
            return out
        r = call(go)
        judge(ctx, site, "len%d" % min(L, 2), mk, r, ("accept", [None, True, None, None, None]), 1 if L >= 2 else 0)
        return
    if k == "complement":
        comp = [sm.IUPAC_COMPLEMENT[c] for c in sym]

        def go():
            c1 = q.complement()
            return [observe_seq(c1, alph, comp), type(c1) is type(q), observe_seq(c1.complement(), alph, sym),
                    observe_seq(q.reverse().complement(), alph, comp[::-1]), observe_seq(q, alph, sym)]
        r = call(go)
        judge(ctx, "NucleotideSequence.complement", cls, mk, r, ("accept", [None, True, None, None, None]), 1 if L else 0)
        ctx.outcome(("compl", "".join(comp)))
        return
    if k == "eq":
        def go():
            out = [q == make_seq(cls, pal, s, "list"), q != make_seq(cls, pal, s), q == q.copy()]
            for i in range(L):
                t = list(sym)
                t[i] = alph[(alph.index(t[i]) + 1 + op[1]) % len(alph)]
                if t[i] == sym[i]:
                    continue
                o = make_seq(cls, pal, "".join(t))
                out.append((q == o) is False or bool(q == o) is False)
                out.append(bool(q != o))
            out.append(bool(q == make_seq(cls, pal, s + alph[0])) is False)
            if L:
                out.append(bool(q == make_seq(cls, pal, s[:-1])) is False)
            return [bool(x) for x in out]
        r = call(go)
        if r[0] == "ok":
            exp = [True, False, True] + [True] * (len(r[1]) - 3)
        else:
            exp = "no exception"
        judge(ctx, "Sequence.__eq__", "len%d" % min(L, 2), mk, r, ("accept", exp), 1 if L else 0)
        r = call(lambda: [bool(q == s), bool(q == list(s))])
        judge(ctx, "Sequence.__eq__", "versus_str_or_list", mk, r, ("free",))
        return
    if k == "copy":
        def go():
            c = q.copy()
            out = [observe_seq(c, alph, sym), type(c) is type(q), bool(c == q)]
            if L:
                nw = alph[(alph.index(sym[0]) + 1) % len(alph)]
                c[0] = nw
                out.append(observe_seq(q, alph, sym))
                q[-1] = nw
                out.append(observe_seq(c, alph, [nw] + sym[1:]))
                c2 = q.copy()
                c2.code[:] = 0
                out.append(observe_seq(q, alph, sym[:-1] + [nw]))
            return out
        r = call(go)
        judge(ctx, site, "len%d" % min(L, 2), mk, r, ("accept", [None, True, True] + ([None] * 3 if L else [])), 1 if L else 0)
        return
    raise ValueError(op)


SLICE_MENU = [[None, None, None], [1, None, None], [None, -1, None], [None, None, 2], [None, None, -1], [1, 3, None],
              [-2, None, None], [None, None, -2], [5, None, None], [-1, 0, -1], [0, 0, None], [2, 1, None]]


def seq_ops(cls, pal, s, full, seed):
    alph = seq_alphabet(cls, pal)
    L = len(s)
    ops = [["construct", f] for f in ("str", "list", "tuple", "U1")]
    if cls != "gen":
        ops += [["construct", "lower"], ["construct", "lower_list"]]
    if cls == "prot" and "*" not in s:
        ops.append(["construct", "three"])
    ops += [["int", i] for i in range(-L - 1, L + 1)]
    if full:
        rng = [None] + list(range(-L - 1, L + 2))
        slices = [[a, b, c] for a in rng for b in rng for c in (None, 1, 2, -1, -2)]
    else:
        slices = SLICE_MENU
    ops += [["index", ["slice", sl]] for sl in slices]
    masks = [list(m) for m in itertools.product([False, True], repeat=L)]
    ops += [["index", ["mask", m]] for m in masks]
    ops += [["index", ["lmask", masks[-1]]], ["index", ["mask", [True] * (L + 1)]]]
    arrs = [[]] + [[i] for i in range(-L, L)] + [[i, j] for i in range(-L, L) for j in range(-L, L)]
    ops += [["index", ["arr", a, "int64"]] for a in arrs]
    ops += [["index", ["list", [L - 1, 0]]], ["index", ["arr", [0, L - 1], "uint8"]]] if L else []
    ops += [["index", ["arr", [L], "int64"]], ["index", ["arr", [-L - 1], "int64"]], ["index", ["list", [0, L]]]]
    # item assignment
    if full or len(alph) <= 4:
        xs = list(alph)
    else:
        xs = _sel(list(alph), 3, seed) + [alph[-1]]
    bad = [alph[0].lower() if alph[0].lower() not in alph else "?", "?", alph[0] * 2, "", 1, None, b"\xff", alph[0].encode()]
    for i in range(-L - 1, L + 1):
        for x in xs + (bad if (full or i in (0, -1)) else bad[:1]):
            ops.append(["setint", i, enc_arg(x)])
    # multi-item assignment
    targets = [["slice", sl] for sl in (SLICE_MENU[:8] if full else SLICE_MENU[:5])]
    targets += [["mask", m] for m in (masks if full else masks[:4])]
    targets += [["arr", a, "int64"] for a in ([[0], [L - 1, 0], [-1]] if L else [[]])]
    for e in targets:
        pos = model_positions(L, e)
        if pos is None or (e[0] == "arr" and len(set(p % max(L, 1) for p in pos)) < len(pos)):
            continue
        m = len(pos)
        fill = "".join(alph[(j * 3 + 1 + seed) % len(alph)] for j in range(m))
        codes = [alph.index(c) for c in fill]
        ops.append(["setitems", e, "str", fill])
        ops.append(["setitems", e, "list", fill])
        ops.append(["setitems", e, "seq", [cls, pal, fill]])
        ops.append(["setitems", e, "code", [codes, "uint8"]])
        if full or m == 1:
            ops.append(["setitems", e, "code", [codes, "int64"]])
            ops.append(["setitems", e, "str", alph[-1]])          # broadcast of one symbol
            ops.append(["setitems", e, "str", fill + alph[0]])    # one too many
            if m:
                ops.append(["setitems", e, "str", fill[:-1] + "?"])
                ops.append(["setitems", e, "list", "?" + fill[1:]])
                ops.append(["setitems", e, "code", [codes[:-1] + [len(alph)], "int64"]])
                ops.append(["setitems", e, "code", [[256 + codes[0]] + codes[1:], "int64"]])
                ops.append(["setitems", e, "code", [[codes[0] - 256] + codes[1:], "int64"]])
                for ocls, opal in (("prot", None), ("nuca", None), ("nuc", None), ("gen", "TGCA")):
                    if ocls == cls:
                        continue
                    oa = seq_alphabet(ocls, opal)
                    ostr = "".join(oa[(j * 5 + 2) % len(oa)] for j in range(m))
                    ops.append(["setitems", e, "seq_other", [ocls, opal, ostr]])
                    ostr = "".join(oa[(j + 1) % 4] for j in range(m))
                    ops.append(["setitems", e, "seq_other", [ocls, opal, ostr]])
    ops += [["add", list(o)] for o in others_for(cls, pal)]
    ops += [["reverse"], ["eq", 0], ["eq", 1], ["copy"]]
    if cls in ("nuc", "nuca"):
        ops.append(["complement"])
    seen, out = set(), []
    for op in ops:
        key = json.dumps(op)
        if key not in seen:
            seen.add(key)
            out.append(op)
    return out


def seq_strings(shard, tier, seed):
    cls, pal = shard["cls"], shard.get("pal")
    alph = seq_alphabet(cls, pal)
    maxlen = shard["maxlen"]
    for L in range(0, maxlen + 1):
        for p in itertools.product(alph, repeat=L):
            s = "".join(p)
            f1 = p[0] if L else alph[0]
            f2 = p[1] if L >= 2 else alph[0]
            if shard.get("first") is not None and f1 not in shard["first"]:
                continue
            if shard.get("second") is not None and f2 not in shard["second"]:
                continue
            if L >= 3 and shard.get("third") is not None and p[2] not in shard["third"]:
                continue
            yield s


def run_seqapi(shard, ctx):
    cls, pal = shard["cls"], shard.get("pal")
    full = shard["full"]
    if not ctx.journal({"kind": "seqapi", "unit": "shard", "shard": shard}):
        return
    for s in seq_strings(shard, ctx.tier, ctx.seed):
        for op in seq_ops(cls, pal, s, full, ctx.seed):
            check_seq_op(ctx, cls, pal, s, op)
        if len(s) == 2:
            ctx.sample({"kind": "seqapi", "cls": cls, "pal": pal, "s": s, "op": ["index", ["slice", [None, None, -1]]]})


def replay_seqapi(case, ctx):
    if case.get("unit") == "shard":
        sh = case["shard"]
        for s in seq_strings(sh, ctx.tier, ctx.seed):
            for op in seq_ops(sh["cls"], sh.get("pal"), s, sh["full"], ctx.seed):
                check_seq_op(ctx, sh["cls"], sh.get("pal"), s, op)
        return
    check_seq_op(ctx, case["cls"], case.get("pal"), case["s"], case["op"])


# ---------------------------------------------------------------------------
# codon tables and translation
# ---------------------------------------------------------------------------
_TABLES = {}
_NCBI = {}


def ncbi_model():
    if not _NCBI:
        from mc import loader

        _NCBI.update(sm.parse_ncbi_tables((loader.SRC / "biotite" / "sequence" / "codon_tables.txt").read_text()))
    return _NCBI


def synthetic(name):
    """(aa dict, start list) of the synthetic tables"""
    if name == "syn1":   # scrambled code, several unusual start codons
        aa = {c: sm.PROT24[(7 * i + 3) % 24] for i, c in enumerate(sm.ALL_CODONS)}
        starts = ["AAA", "GTG", "TTG", "CTG", "ATG", "TAC", "GGG"]
    elif name == "syn2":  # standard code read backwards, other starts
        aa = {c: sm.STANDARD_CODE[c[::-1]] for c in sm.ALL_CODONS}
        starts = ["GTA", "AAA", "CCC", "TGT"]
    elif name == "syn3":  # every sense codon is a start codon; only TTT is a stop
        aa = {c: ("*" if c == "TTT" else sm.PROT24[i % 23]) for i, c in enumerate(sm.ALL_CODONS)}
        starts = list(sm.ALL_CODONS)
    elif name == "syn4":  # no stop codon at all, one start
        aa = {c: sm.PROT24[i % 23] for i, c in enumerate(sm.ALL_CODONS)}
        starts = ["TGA"]
    else:
        raise ValueError(name)
    starts = [c for c in starts if aa[c] != "*"]
    return aa, starts


def get_table(tid):
    """-> (biotite CodonTable, model aa dict, model start set)"""
    if tid in _TABLES:
        return _TABLES[tid]
    from biotite.sequence import CodonTable

    if tid == "default":
        t = CodonTable.default_table()
        aa, starts = dict(ncbi_model()[1]["aa"]), {"ATG"}
    elif isinstance(tid, int):
        t = CodonTable.load(tid)
        m = ncbi_model()[tid]
        aa, starts = dict(m["aa"]), set(m["starts"])
    else:
        aa, st = synthetic(tid)
        t = CodonTable(dict(aa), list(st))
        starts = set(st)
    _TABLES[tid] = (t, aa, starts)
    return _TABLES[tid]


def ambiguous_start_stop(aa, starts):
    """start codons that are also stop codons: the statement does not say what an ORF is then"""
    return {c for c in starts if aa[c] == "*"}


def check_translate(ctx, tid, s, mode, q=None):
    import biotite.sequence as bs

    mk = lambda: {"kind": "translate", "table": tid, "s": s, "mode": mode}  # noqa: E731
    t, aa, starts = get_table(tid)
    if q is None:
        q = bs.NucleotideSequence(s)
    dflt = tid == "default"
    if mode == "complete":
        if len(s) % 3:
            r = call(lambda: str(q.translate(complete=True) if dflt else q.translate(complete=True, codon_table=t)))
            judge(ctx, "NucleotideSequence.translate", "complete|length_not_multiple_of_3", mk, r, ("refuse", False), 1)
            return
        exp = sm.translate_complete(s, aa)

        def go():
            p = q.translate(complete=True) if dflt else q.translate(complete=True, codon_table=t, met_start=True)
            return [type(p).__name__, str(p)]
        r = call(go)
        judge(ctx, "NucleotideSequence.translate", "complete", mk, r, ("accept", ["ProteinSequence", exp]),
              1 if s and not dflt else 0)
        ctx.outcome(exp)
        return
    met = mode == "orf_met"
    exp = sm.orfs(s, aa, starts, met)

    def go():
        if dflt and not met:
            ps, pos = q.translate()
        else:
            ps, pos = q.translate(complete=False, codon_table=t, met_start=met)
        return [[str(p) for p in ps], [[int(a), int(b)] for a, b in pos], all(type(p).__name__ == "ProteinSequence" for p in ps)]
    r = call(go)
    amb = ambiguous_start_stop(aa, starts)
    want = [[p for p, _ in exp], [list(x) for _, x in exp], True]
    if amb and any(s[i:i + 3] in amb for i in range(len(s) - 2)):
        judge(ctx, "NucleotideSequence.translate", "orf|start_codon_is_stop", mk, r, ("free",))
        return
    judge(ctx, "NucleotideSequence.translate", "orf_met_start" if met else "orf", mk, r, ("accept", want),
          1 if exp else 0)
    ctx.outcome(want[:2])


def run_translate(shard, ctx):
    import biotite.sequence as bs

    tables, L, letters = shard["tables"], shard["len"], shard["letters"]
    prefix = shard.get("prefix", "")
    if not ctx.journal({"kind": "translate", "unit": "shard", "shard": shard}):
        return
    for tid in tables:
        get_table(tid)
    first = True
    for p in itertools.product(letters, repeat=L - len(prefix)):
        s = prefix + "".join(p)
        q = bs.NucleotideSequence(s)
        for tid in tables:
            for mode in ("complete", "orf", "orf_met"):
                if mode == "complete" and L % 3 and not (first and tid == tables[0]) and L > 4:
                    continue   # refusal of lengths not divisible by 3: once per shard and for all short strings
                check_translate(ctx, tid, s, mode, q)
        first = False
    ctx.sample({"kind": "translate", "table": tables[-1], "s": (prefix + "ATGTAA" * 2)[:L], "mode": "orf"})
    if shard.get("extras"):
        translate_extras(ctx)


def translate_extras(ctx):
    """inputs the statement is silent about"""
    import biotite.sequence as bs

    for s in ("ATGNNN", "ATGA", "ATGTAA"):
        for amb in (True,):
            q = bs.NucleotideSequence(s, ambiguous=amb)
            pure = all(c in "ACGT" for c in s)
            for mode in ("complete", "orf"):
                mk = lambda: {"kind": "translate", "unit": "ambiguous", "s": s, "mode": mode}  # noqa: E731
                if mode == "complete":
                    r = call(lambda: str(q.translate(complete=True)))
                    exp = sm.translate_complete(s, sm.STANDARD_CODE) if pure and len(s) % 3 == 0 else NOVALUE
                else:
                    r = call(lambda: (lambda ps, pos: [[str(p) for p in ps], [list(map(int, x)) for x in pos]])(*q.translate()))
                    o = sm.orfs(s, sm.STANDARD_CODE, {"ATG"}, False) if pure else None
                    exp = [[p for p, _ in o], [list(x) for _, x in o]] if pure else NOVALUE
                judge(ctx, "NucleotideSequence.translate", "ambiguous_alphabet", mk, r, ("either", exp), 1)
    # a table without start codons
    mk = lambda: {"kind": "translate", "unit": "nostart"}  # noqa: E731
    r = call(lambda: (lambda ps, pos: [len(ps), len(pos)])(*bs.NucleotideSequence("ATGAAATAA").translate(
        codon_table=bs.CodonTable(dict(sm.STANDARD_CODE), []))))
    judge(ctx, "CodonTable()", "no_start_codons", mk, r, ("either", [0, 0]), 1)


def check_codon_table(ctx, tid):
    from biotite.sequence import CodonTable

    mk = lambda: {"kind": "codon", "table": tid}  # noqa: E731
    t, aa, starts = get_table(tid)
    code = {c: [sm.NUC4.index(x) for x in c] for c in sm.ALL_CODONS}
    P = sm.PROT24

    def J(site, cls, f, exp, nt=1):
        r = call(f)
        if r[0] == "ok":
            r = ("ok", pl(r[1]))
        judge(ctx, site, cls, lambda: {**mk(), "view": site + "/" + cls}, r, ("accept", exp), nt)
        ctx.outcome((site, cls, str(r[1])[:200]))

    J("CodonTable.codon_dict", "symbols", lambda: dict(sorted(t.codon_dict().items())), dict(sorted(aa.items())))
    J("CodonTable.codon_dict", "code", lambda: sorted([list(map(int, k)), int(v)] for k, v in t.codon_dict(code=True).items()),
      sorted([code[c], P.index(a)] for c, a in aa.items()))
    J("CodonTable.start_codons", "symbols", lambda: sorted(t.start_codons()), sorted(starts))
    J("CodonTable.start_codons", "code", lambda: sorted(list(map(int, c)) for c in t.start_codons(code=True)),
      sorted(code[c] for c in starts))
    for c in sm.ALL_CODONS:
        J("CodonTable.__getitem__", "codon_str", lambda: t[c], aa[c])
        J("CodonTable.__getitem__", "codon_code_tuple", lambda: int(t[tuple(code[c])]), P.index(aa[c]))
        J("CodonTable.__getitem__", "codon_code_list", lambda: int(t[list(code[c])]), P.index(aa[c]))
        J("CodonTable.__getitem__", "codon_code_ndarray", lambda: int(t[np.array(code[c], dtype=np.uint8)]), P.index(aa[c]))
        J("CodonTable._to_number", "single", lambda: [int(CodonTable._to_number(code[c])),
                                                      pl(CodonTable._to_codon(16 * code[c][0] + 4 * code[c][1] + code[c][2]))],
          [16 * code[c][0] + 4 * code[c][1] + code[c][2], code[c]])
    for i, a in enumerate(P):
        cods = sorted(c for c in sm.ALL_CODONS if aa[c] == a)
        J("CodonTable.__getitem__", "amino_acid_str", lambda: sorted(t[a]), cods)
        J("CodonTable.__getitem__", "amino_acid_code", lambda: sorted(list(x) for x in t[i]), sorted(code[c] for c in cods))
        if len(t[a]) != len(cods):
            ctx.violation("CodonTable.__getitem__|duplicates|amino_acid_str", "codon listed twice", mk(), cods, list(t[a]))
    allc = np.array([code[c] for c in sm.ALL_CODONS], dtype=np.uint8)
    J("CodonTable.map_codon_codes", "all64", lambda: t.map_codon_codes(allc), [P.index(aa[c]) for c in sm.ALL_CODONS])
    J("CodonTable.is_start_codon", "all64", lambda: [bool(x) for x in t.is_start_codon(allc)], [c in starts for c in sm.ALL_CODONS])
    J("CodonTable._to_number", "vector", lambda: [pl(CodonTable._to_number(allc)), pl(CodonTable._to_codon(np.arange(64)))],
      [list(range(64)), [code[c] for c in sm.ALL_CODONS]])
    # refusals
    for bad, cls in (("AAX", "codon_with_foreign_letter"), ("?", "foreign_amino_acid"), ("aaa", "codon_lower_case")):
        r = call(lambda: t[bad])
        judge(ctx, "CodonTable.__getitem__", cls, lambda: {**mk(), "view": "bad/" + bad}, r, ("refuse", True), 1)
    # derived tables leave the original alone
    J("CodonTable.with_start_codons", "new_and_old",
      lambda: [sorted(t.with_start_codons(["CCC", "ATG"]).start_codons()), sorted(t.start_codons()),
               dict(sorted(t.with_start_codons(["CCC"]).codon_dict().items())) == dict(sorted(aa.items()))],
      [["ATG", "CCC"], sorted(starts), True])
    newaa = dict(aa)
    newaa["CCC"] = "W" if aa["CCC"] != "W" else "Y"
    J("CodonTable.with_codon_mappings", "new_and_old",
      lambda: [dict(sorted(t.with_codon_mappings({"CCC": newaa["CCC"]}).codon_dict().items())) == dict(sorted(newaa.items())),
               t["CCC"], sorted(t.with_codon_mappings({"CCC": newaa["CCC"]}).start_codons())],
      [True, aa["CCC"], sorted(starts)])
    J("CodonTable.__eq__", "rebuilt", lambda: [t == t.with_codon_mappings({"CCC": aa["CCC"]}),
                                               t == t.with_codon_mappings({"CCC": newaa["CCC"]}),
                                               t != t.with_codon_mappings({"CCC": newaa["CCC"]})], [True, False, True])
    if isinstance(tid, int):
        m = ncbi_model()[tid]
        for name in m["names"]:
            J("CodonTable.load", "by_name", lambda: [dict(sorted(CodonTable.load(name).codon_dict().items())) == dict(sorted(aa.items())),
                                                   sorted(CodonTable.load(name).start_codons())], [True, sorted(starts)])
        if tid == 1:
            J("CodonTable.load", "textbook_standard_code", lambda: dict(sorted(t.codon_dict().items())),
              dict(sorted(sm.STANDARD_CODE.items())))
        J("CodonTable.table_names", "contains", lambda: all(n in CodonTable.table_names() for n in m["names"]), True)


def run_codon(shard, ctx):
    for tid in shard["tables"]:
        if not ctx.journal({"kind": "codon", "table": tid}):
            continue
        check_codon_table(ctx, tid)
    ctx.sample({"kind": "codon", "table": shard["tables"][0]})
    if shard.get("extras"):
        r = call(lambda: sorted(ncbi_model()))
        ctx.note("NCBI tables read from the data file: %s" % (r[1],))


def replay_translate(case, ctx):
    if case.get("unit") == "shard":
        sh = dict(case["shard"])
        ctx2 = ctx
        return run_translate_body(sh, ctx2)
    if case.get("unit") in ("ambiguous", "nostart"):
        return translate_extras(ctx)
    check_translate(ctx, case["table"], case["s"], case["mode"])


def run_translate_body(shard, ctx):
    j = ctx.journal
    ctx.journal = lambda c: True
    try:
        run_translate(shard, ctx)
    finally:
        ctx.journal = j


RUNNERS = {"letter": run_letter, "generic": run_generic, "mapper": run_mapper, "kmer": run_kmer, "seqapi": run_seqapi,
           "codon": run_codon, "translate": run_translate}


def run_shard(shard, ctx):
    RUNNERS[shard["kind"]](shard, ctx)


# ---------------------------------------------------------------------------
# shards / replay
# ---------------------------------------------------------------------------
NCBI_IDS = [1, 2, 3, 4, 5, 6, 9, 10, 11, 12, 13, 14, 15, 16, 21, 22, 23, 24, 25, 26, 27, 28, 29, 30, 31]
SYN = ["syn1", "syn2", "syn3", "syn4"]


def shards(tier, seed):
    quick = tier == "quick"
    out = []
    perm = PERMS[seed % len(PERMS)]
    # letter alphabets
    for a in NATURAL:
        out.append({"kind": "letter", "alph": a, "mode": "full", "w": 3})
    for n in range(1, 95):
        full = n in (1, 2, 4, 24, 94) or not quick
        out.append({"kind": "letter", "alph": "".join(perm[:n]), "mode": "full" if full else "reduced", "w": 3 if full else 1})
    # generic alphabets
    for pal in GEN_PALETTES:
        for n in range(1, 6):
            out.append({"kind": "generic", "pal": pal, "n": n, "rot": seed % 5, "w": 1})
    out += [{"kind": "generic", "big": 256, "w": 1}, {"kind": "generic", "big": 257, "w": 1}]
    # mapper
    out += [{"kind": "mapper", "src": i, "w": 1} for i in range(len(MAP_ALPHS))]
    # k-mers
    for base in ("l", "g"):
        for n in (2, 3, 4):
            for k in (2, 3, 4) if quick else (2, 3, 4, 5):
                if (k == 5 and (base == "g" or n == 3)) or (quick and base == "g" and n != 3):
                    continue
                out.append({"kind": "kmer", "base": base, "n": n, "k": k, "sp": None, "part": "codes", "w": 2})
                out.append({"kind": "kmer", "base": base, "n": n, "k": k, "sp": None, "part": "kmers", "w": 2})
                for j, sp in enumerate(sm.spacing_models(k, k + 2)):
                    out.append({"kind": "kmer", "base": base, "n": n, "k": k, "sp": list(sp),
                                "spform": ("str", "list", "rlist")[j % 3], "part": "kmers", "w": 2})
    # sequence API
    for f in sm.NUC4:
        for g in sm.NUC4:
            out.append({"kind": "seqapi", "cls": "nuc", "pal": None, "maxlen": 4, "full": True, "first": f, "second": g, "w": 6})
    third15 = "".join(_sel(list(sm.NUC15), 5, seed)) if quick else None
    third24 = "".join(_sel(list(sm.PROT24), 3, seed)) if quick else None
    for f in sm.NUC15:
        out.append({"kind": "seqapi", "cls": "nuca", "pal": None, "maxlen": 3, "full": False, "first": f, "third": third15, "w": 4})
    for f in sm.PROT24:
        out.append({"kind": "seqapi", "cls": "prot", "pal": None, "maxlen": 3, "full": False, "first": f, "third": third24, "w": 4})
    gp = "".join(perm[10:13])
    out.append({"kind": "seqapi", "cls": "gen", "pal": gp, "maxlen": 2, "full": True, "w": 2})
    for f in gp:
        out.append({"kind": "seqapi", "cls": "gen", "pal": gp, "maxlen": 3, "full": False, "first": f, "w": 2})
    # codon tables
    alltabs = ["default"] + NCBI_IDS + SYN
    for i in range(0, len(alltabs), 4):
        out.append({"kind": "codon", "tables": alltabs[i:i + 4], "extras": i == 0, "w": 1})
    # translation
    if quick:
        rest = [t for t in NCBI_IDS if t != 1]
        main = ["default", 1, "syn1", "syn2"] + sorted(_sel(rest, 2, seed))
        out.append({"kind": "translate", "tables": alltabs, "len": 0, "letters": "ACGT", "extras": True, "w": 1})
        for L in range(1, 5):
            out.append({"kind": "translate", "tables": alltabs, "len": L, "letters": "ACGT", "w": 3})
        for p in "ACGT":
            out.append({"kind": "translate", "tables": alltabs, "len": 5, "letters": "ACGT", "prefix": p, "w": 5})
        for p in itertools.product("ACGT", repeat=2):
            out.append({"kind": "translate", "tables": alltabs, "len": 6, "letters": "ACGT", "prefix": "".join(p), "w": 5})
            out.append({"kind": "translate", "tables": main, "len": 7, "letters": "ACGT", "prefix": "".join(p), "w": 4})
        for p in itertools.product("ACGT", repeat=3):
            out.append({"kind": "translate", "tables": main, "len": 8, "letters": "ACGT", "prefix": "".join(p), "w": 5})
        for p in itertools.product("ATG", repeat=2):
            out.append({"kind": "translate", "tables": main[:4], "len": 9, "letters": "ATG", "prefix": "".join(p), "w": 5})
    else:
        out.append({"kind": "translate", "tables": alltabs, "len": 0, "letters": "ACGT", "extras": True, "w": 1})
        for L in range(1, 6):
            out.append({"kind": "translate", "tables": alltabs, "len": L, "letters": "ACGT", "w": 3})
        for L, pl_ in ((6, 1), (7, 2), (8, 3)):
            for i in range(0, len(alltabs), 8):
                for p in itertools.product("ACGT", repeat=pl_):
                    out.append({"kind": "translate", "tables": alltabs[i:i + 8], "len": L, "letters": "ACGT",
                                "prefix": "".join(p), "w": 3 + L})
        four = ["default", 1, "syn1", "syn2"]
        for p in itertools.product("ACGT", repeat=3):
            out.append({"kind": "translate", "tables": four, "len": 9, "letters": "ACGT", "prefix": "".join(p), "w": 12})
        for L in (10, 11):
            for p in itertools.product("ATG", repeat=L - 7):
                out.append({"kind": "translate", "tables": four[::2], "len": L, "letters": "ATG", "prefix": "".join(p), "w": 3 + L})
    # dimension-audit families (array flavours, aliasing, reuse / error paths, size switches, order, long inputs)
    for fam in AUDIT_FAMS:
        out.append({"kind": "audit", "fam": fam, "w": 4 if fam == "translate_extra" else 2})
    for part in ("nuc", "nuca", "prot", "gen"):
        out.append({"kind": "audit", "fam": "seqhist", "part": part, "w": 2})
        out.append({"kind": "audit", "fam": "identity_derived", "part": part, "w": 4 if part == "nuc" else 2})
    out.sort(key=lambda s: -s["w"])
    r = seed % 7
    return out[r:] + out[:r] if out else out


def replay(case, ctx):
    if isinstance(case, str):
        case = json.loads(case)
    k = case["kind"]
    if k == "letter":
        return replay_letter(case, ctx)
    if k == "generic":
        return replay_generic(case, ctx)
    if k == "mapper":
        if case.get("unit") == "shard":
            return run_mapper({"src": case["src"]}, _nojournal(ctx))
        return check_mapper(ctx, case["src"], case["dst"], case["form"], case["codes"])
    if k == "kmer":
        return replay_kmer(case, ctx)
    if k == "seqapi":
        return replay_seqapi(case, ctx)
    if k == "codon":
        return check_codon_table(ctx, case["table"])
    if k == "translate":
        return replay_translate(case, ctx)
    if k == "audit":
        return replay_audit(case, ctx)
    raise ValueError(case)


def _nojournal(ctx):
    ctx.journal = lambda c: True
    return ctx


def crash_class(case):
    if isinstance(case, dict):
        return "%s|%s" % (case.get("kind"), case.get("unit", "case"))
    return "unclassified"


# ---------------------------------------------------------------------------
# dimension audit families (array flavours, aliasing, reuse, size switches, order, long inputs)
# ---------------------------------------------------------------------------
class _SubArr(np.ndarray):
    pass


class _SubStr(str):
    pass


def int_flavours(values, dt, fill):
    """(name, array, keepalive) : the same logical 1-D integer array in several memory layouts"""
    base = np.array(values, dtype=dt)
    n = len(values)
    out = [("plain", base, None)]
    ro = base.copy()
    ro.setflags(write=False)
    out.append(("readonly", ro, None))
    big = np.full(2 * n + 1, fill, dtype=dt)
    big[0:2 * n:2] = base
    out.append(("strided", big[0:2 * n:2], big))
    rev = np.array(values[::-1], dtype=dt)
    out.append(("negstride", rev[::-1], rev))
    two = np.full((max(n, 1), 3), fill, dtype=dt)
    two[:n, 1] = base
    out.append(("column", two[:n, 1], two))
    out.append(("subclass", base.copy().view(_SubArr), None))
    if base.dtype.itemsize > 1:
        out.append(("byteswapped", base.astype(base.dtype.newbyteorder()), None))
    return out


def _snap(a, keep):
    return (a.tobytes(), None if keep is None else keep.tobytes(), a.flags.writeable)


def aud_case(fam, **kw):
    return {"kind": "audit", "fam": fam, **kw}


def check_flavoured(ctx, site, fam, label, flav, arr, keep, f, want, strict_flavours=True):
    """run f(arr); judge against `want`; the argument must come back unchanged"""
    before = _snap(arr, keep)
    r = call(f, arr)
    if r[0] == "ok":
        r = ("ok", plain(r[1]))
    cls_label = label.split("@")[0]
    mk = lambda: aud_case(fam, label=label, flavour=flav)  # noqa: E731
    w = want
    if flav == "byteswapped" and not strict_flavours and want[0] == "accept":
        w = ("either", want[1])
    judge(ctx, site, "%s|%s" % (cls_label, flav), mk, r, w, 1)
    ctx.outcome((site, label, flav, r[:2] if r[0] == "ok" else r[1]))
    if _snap(arr, keep) != before:
        ctx.violation("%s|argument_modified|%s|%s" % (site, cls_label, flav), "the call changed its array argument", mk(),
                      "unchanged", "changed")
    return r


def fam_flavour_letter(ctx):
    """LetterAlphabet / Sequence fed with the same codes and symbols in every array flavour"""
    import biotite.sequence as bs

    fam = "flavour_letter"
    for syms in (sm.NUC4, sm.PROT24, "".join(PERMS[ctx.seed % 5])):
        A, M = letter_objects(syms)
        n = M.n
        good = [0, n - 1, 1 % n, 0]
        exp = [M.symbols[c] for c in good]
        for dt in ("uint8", "int8", "uint16", "int32", "uint32", "int64", "uint64"):
            for flav, arr, keep in int_flavours(good, dt, 0 if n > 200 else n):
                check_flavoured(ctx, "LetterAlphabet.decode_multiple", fam, "valid@" + dt, flav, arr, keep,
                                A.decode_multiple, ("accept", exp))
                check_flavoured(ctx, "LetterAlphabet.decode_multiple", fam, "valid_bytes@" + dt, flav, arr, keep,
                                lambda a: A.decode_multiple(a, as_bytes=True), ("accept", exp))

                def via_seq(a):
                    q = bs.GeneralSequence(A)
                    q.code = a
                    bad = observe_seq(q, M.symbols, exp)
                    if bad:
                        return list(bad)
                    # the sequence as a whole keeps working on such a code array
                    out = [str(q.reverse()), str(q.copy()), str(q + q), str(q[1:3]), bool(q == bs.GeneralSequence(A, exp)),
                           observe_seq(q, M.symbols, exp)]
                    return out
                e = "".join(exp)
                check_flavoured(ctx, "Sequence.code=", fam, "valid@" + dt, flav, arr, keep, via_seq,
                                ("accept", [e[::-1], e, e + e, e[1:3], True, None]))

                def via_setitem(a):
                    q = bs.GeneralSequence(A, [M.symbols[0]] * 6)
                    q[1:5] = a
                    return str(q)
                check_flavoured(ctx, "Sequence.__setitem__", fam, "valid@" + dt, flav, arr, keep, via_setitem,
                                ("accept", M.symbols[0] + e + M.symbols[0]))
            badv = [0, n, 1 % n]
            for flav, arr, keep in int_flavours(badv, dt, 0):
                check_flavoured(ctx, "LetterAlphabet.decode_multiple", fam, "code_eq_len@" + dt, flav, arr, keep,
                                A.decode_multiple, ("refuse", True))

                def refused_code(a):
                    q = bs.GeneralSequence(A, exp)
                    try:
                        q.code = a
                    except Exception:  # noqa: BLE001
                        # refused: the sequence must be what it was and work like a fresh one afterwards
                        bad = observe_seq(q, M.symbols, exp)
                        q.code = np.array(good, dtype=np.uint8)
                        return ["refused", bad, observe_seq(q, M.symbols, exp)]
                    r2 = call(str, q)
                    return ["stored", r2[0]]
                r = check_flavoured(ctx, "Sequence.code=", fam, "code_eq_len@" + dt, flav, arr, keep, refused_code, ("free",))
                if r[0] == "ok" and r[1] not in (["refused", None, None], ["stored", "exc"]):
                    ctx.violation("Sequence.code=|bad_state_after_invalid_code|%s" % flav, "invalid code: neither refused cleanly nor stored-and-refused-on-read",
                                  aud_case(fam, label="code_eq_len@" + dt, flavour=flav), "refused/unchanged or unreadable", r[1])
        # index arrays and masks in flavours
        q0 = list(exp) + [M.symbols[0], M.symbols[-1]]
        for dt in ("int64", "int8", "uint8", "int32"):
            idx = [5, 0, 2]
            for flav, arr, keep in int_flavours(idx, dt, 1):
                check_flavoured(ctx, "Sequence.__getitem__", fam, "index@" + dt, flav, arr, keep,
                                lambda a: str(bs.GeneralSequence(A, q0)[a]), ("accept", "".join(q0[i] for i in idx)))
        mask = [True, False, True, True, False, True]
        for flav, arr, keep in int_flavours(mask, "bool", False):
            check_flavoured(ctx, "Sequence.__getitem__", fam, "mask", flav, arr, keep,
                            lambda a: str(bs.GeneralSequence(A, q0)[a]), ("accept", "".join(s for s, m in zip(q0, mask) if m)))
        # symbol containers in flavours
        word = [M.symbols[c] for c in good]
        codes = list(good)
        sym_inputs = [
            ("object_array", np.array(word, dtype=object), ("accept", codes)),
            ("object_array@bytes", np.array([w.encode() for w in word], dtype=object), ("accept", codes)),
            ("wide_U", np.array(word, dtype="U3"), ("accept", codes)),
            ("wide_S", np.array([w.encode() for w in word], dtype="S2"), ("accept", codes)),
            ("byteswapped_U", np.array(word, dtype=">U1" if sys.byteorder == "little" else "<U1"), ("accept", codes)),
            ("readonly_U", (lambda a: (a.setflags(write=False), a)[1])(np.array(word, dtype="U1")), ("accept", codes)),
            ("strided_U", np.array([x for w in word for x in (w, "\x7f")], dtype="U1")[::2], ("accept", codes)),
            ("strided_S", np.array([x for w in word for x in (w.encode(), b"\x7f")], dtype="S1")[::2], ("accept", codes)),
            ("subclass_array", np.array(word, dtype="U1").view(_SubArr), ("accept", codes)),
            ("str_subclass", _SubStr("".join(word)), ("accept", codes)),
            ("list_of_str_subclass", [_SubStr(w) for w in word], ("accept", codes)),
            ("list_of_np_str", [np.str_(w) for w in word], ("accept", codes)),
            ("list_of_np_bytes", [np.bytes_(w.encode()) for w in word], ("accept", codes)),
            ("bytearray", bytearray("".join(word).encode()), ("either", codes)),
            ("memoryview", memoryview("".join(word).encode()), ("either", codes)),
            ("zero_dim", np.array(word[0]), ("either", codes[:1])),
            ("two_dim", np.array([word, word]), ("either", codes + codes)),
            ("object_array_multichar", np.array([word[0], word[1] * 2], dtype=object), ("either", NOVALUE)),
            ("object_array_none", np.array([word[0], None], dtype=object), ("either", NOVALUE)),
            ("object_array_int", np.array([word[0], 1], dtype=object), ("either", NOVALUE)),
            ("wide_U_multichar", np.array([word[0], word[1] + word[0]], dtype="U3"), ("either", NOVALUE)),
        ]
        for label, x, want in sym_inputs:
            snap = x.tobytes() if isinstance(x, np.ndarray) and x.dtype.kind != "O" else None
            r = call(A.encode_multiple, x)
            if r[0] == "ok":
                r = ("ok", pl(r[1]))
            judge(ctx, "LetterAlphabet.encode_multiple", label.split("@")[0], lambda: aud_case(fam, alph=syms, label=label), r, want, 1)
            ctx.outcome(("encm_flav", label, r[:2] if r[0] == "ok" else r[1]))
            if snap is not None and x.tobytes() != snap:
                ctx.violation("LetterAlphabet.encode_multiple|argument_modified|" + label, "argument changed", aud_case(fam, label=label), None, None)
        for label, make in (("generator", lambda: (w for w in word)), ("iterator", lambda: iter(word)),
                            ("dict_keys", lambda: dict.fromkeys(dict.fromkeys(word)).keys()), ("reversed", lambda: reversed(word[::-1]))):
            exp_codes = codes if label != "dict_keys" else [M.encode(w) for w in dict.fromkeys(word)]
            r = call(lambda: pl(A.encode_multiple(make())))
            judge(ctx, "LetterAlphabet.encode_multiple", label, lambda: aud_case(fam, alph=syms, label=label), r, ("accept", exp_codes), 1)
            r = call(lambda: str(bs.GeneralSequence(A, make())))
            judge(ctx, "Sequence()", label, lambda: aud_case(fam, alph=syms, label=label), r,
                  ("accept", "".join(M.symbols[c] for c in exp_codes)), 1)
        # single symbols: subclass / numpy scalar forms
        for label, x in (("str_subclass", _SubStr(word[1])), ("np_str", np.str_(word[1])), ("np_bytes", np.bytes_(word[1].encode()))):
            r = call(lambda: [plain(A.encode(x)), x in A])
            judge(ctx, "LetterAlphabet.encode", label, lambda: aud_case(fam, alph=syms, label=label), r, ("accept", [codes[1], True]), 1)
        # numpy integer / 0-d indices on a sequence
        for label, i, want in (("np_uint8", np.uint8(1), ("accept", q0[1])), ("np_int8_neg", np.int8(-1), ("accept", q0[-1])),
                               ("np_int64", np.int64(2), ("accept", q0[2])), ("zero_dim", np.array(2), ("either", q0[2])),
                               ("bool_true", True, ("free",))):
            r = call(lambda: plain(bs.GeneralSequence(A, q0)[i]))
            judge(ctx, "Sequence.__getitem__", "scalar_" + label, lambda: aud_case(fam, alph=syms, label=label), r, want, 1)

            def setit():
                q = bs.GeneralSequence(A, q0)
                q[i] = M.symbols[-1]
                return str(q)
            t = list(q0)
            if label != "bool_true":
                t[int(i)] = M.symbols[-1]
            r = call(setit)
            judge(ctx, "Sequence.__setitem__", "scalar_" + label, lambda: aud_case(fam, alph=syms, label=label), r,
                  (want[0], "".join(t)) if want[0] != "free" else want, 1)
        # aliasing: what is handed in is not tied to the object unless biotite keeps the very array (counted, not judged)
        lst = list(word)
        q = bs.GeneralSequence(A, lst)
        lst[0] = M.symbols[-1]
        lst.append(M.symbols[0])
        r = call(str, q)
        judge(ctx, "Sequence()", "list_mutated_afterwards", lambda: aud_case(fam, alph=syms, label="alias_list"), r, ("accept", "".join(word)), 1)
        symlist = list(syms)
        A2 = bs.LetterAlphabet(symlist)
        symlist[0], symlist[-1] = symlist[-1], symlist[0]
        symlist.append("x")
        r = call(lambda: [list(A2.get_symbols()), len(A2), A2.encode(syms[0]), A2.decode(0)])
        judge(ctx, "LetterAlphabet()", "list_mutated_afterwards", lambda: aud_case(fam, alph=syms, label="alias_alphabet"), r,
              ("accept", [list(syms), n, 0, syms[0]]), 1)
        for dt in ("uint8", "int64"):
            arr = np.array(good, dtype=dt)
            q = bs.GeneralSequence(A)
            q.code = arr
            arr[0] = good[1]
            shared = str(q) != "".join(exp)
            ctx.count("unspecified")
            ctx.count("alias:Sequence.code=%s:%s" % (dt, "shares" if shared else "copies"))
            ctx.ev(1, 1)
        res = A.decode_multiple(np.array(good, dtype=np.uint8))
        res[0] = "~"
        r = call(lambda: pl(A.decode_multiple(np.array(good, dtype=np.uint8))))
        judge(ctx, "LetterAlphabet.decode_multiple", "result_mutated", lambda: aud_case(fam, alph=syms, label="alias_result"), r, ("accept", exp), 1)
        res = A.encode_multiple("".join(word))
        res[:] = 0
        r = call(lambda: pl(A.encode_multiple("".join(word))))
        judge(ctx, "LetterAlphabet.encode_multiple", "result_mutated", lambda: aud_case(fam, alph=syms, label="alias_result"), r, ("accept", codes), 1)
    ctx.sample(aud_case(fam, label="valid_int64", flavour="strided"))


def fam_flavour_generic(ctx):
    """generic Alphabet / AlphabetMapper: array flavours, big alphabets around the 256 / 65536 code-width switches,
    one mapper object reused for everything"""
    import biotite.sequence as bs

    fam = "flavour_generic"
    syms = gen_symbols("mixed", 5, ctx.seed)
    A, M = bs.Alphabet(syms), sm.AlphaModel(syms)
    good = [0, 4, 2, 0]
    for dt in ("uint8", "int8", "int32", "int64", "uint64"):
        for flav, arr, keep in int_flavours(good, dt, 5):
            check_flavoured(ctx, "Alphabet.decode_multiple", fam, "valid@" + dt, flav, arr, keep,
                            lambda a: same_syms(list(A.decode_multiple(a)), [syms[c] for c in good]), ("accept", True))
        for flav, arr, keep in int_flavours([0, 5], dt, 0):
            check_flavoured(ctx, "Alphabet.decode_multiple", fam, "code_eq_len@" + dt, flav, arr, keep,
                            lambda a: repr(A.decode_multiple(a)), ("refuse", True))
    strs = gen_symbols("strings", 4, ctx.seed)
    AS, MS = bs.Alphabet(strs), sm.AlphaModel(strs)
    for label, x in (("U_array", np.array(strs[::-1])), ("object_array", np.array(strs[::-1], dtype=object)),
                     ("generator", (s for s in strs[::-1])), ("np_str_list", [np.str_(s) for s in strs[::-1]])):
        r = call(lambda: pl(AS.encode_multiple(x)))
        judge(ctx, "Alphabet.encode_multiple", label, lambda: aud_case(fam, label=label), r, ("accept", list(range(len(strs)))[::-1]), 1)
    obj = np.empty(3, dtype=object)
    obj[:] = [syms[2], syms[0], syms[4]]
    r = call(lambda: pl(A.encode_multiple(obj)))
    judge(ctx, "Alphabet.encode_multiple", "object_array", lambda: aud_case(fam, label="object_array_mixed"), r, ("accept", [2, 0, 4]), 1)
    # the symbol list handed to the constructor is not tied to the alphabet
    lst = list(syms)
    A2 = bs.Alphabet(lst)
    lst[0], lst[1] = lst[1], lst[0]
    lst.append("new")
    r = call(lambda: [same_syms(list(A2.get_symbols()), syms), len(A2), A2.encode(syms[0]), "new" in A2])
    judge(ctx, "Alphabet()", "list_mutated_afterwards", lambda: aud_case(fam, label="alias_alphabet"), r, ("accept", [True, 5, 0, False]), 1)
    for empty, cls in (([], bs.Alphabet), ("", bs.LetterAlphabet), ((), bs.Alphabet)):
        r = call(lambda: repr(cls(empty)))
        judge(ctx, "Alphabet()", "empty_symbol_list", lambda: aud_case(fam, label="empty"), r, ("refuse", False), 1)
    # size switches of the code width: 256 | 257 and 65536 | 65537 symbols
    for n in (255, 256, 257, 65535, 65536, 65537):
        big = [("s", n - i) for i in range(n)]
        B, MB = bs.Alphabet(big), None
        edge = sorted({0, 1, 254, 255, 256, 257, 65534, 65535, 65536, n - 2, n - 1} & set(range(n)))
        want_syms = [big[c] for c in edge]

        def through(dt):
            q = bs.GeneralSequence(B, want_syms)
            code = pl(q.code)
            q2 = bs.GeneralSequence(B)
            q2.code = np.array(edge, dtype=dt)
            return [code, same_syms(list(q.symbols), want_syms), same_syms(list(q2.symbols), want_syms),
                    same_syms([q2[i] for i in range(len(edge))], want_syms), pl(B.encode_multiple(want_syms)),
                    same_syms(B.decode_multiple(np.array(edge, dtype=dt)), want_syms), bool(q == q2), len(q + q2)]
        for dt in ("int64", "uint32", "uint16") if n <= 65536 else ("int64", "uint32"):
            r = call(through, dt)
            judge(ctx, "Sequence()", "alphabet_size_%d" % n, lambda: aud_case(fam, label="big", n=n, dt=dt), r,
                  ("accept", [edge, True, True, True, edge, True, True, 2 * len(edge)]), 1)
        width = 256 if n <= 256 else (65536 if n <= 65536 else 2**32)
        for c in (n, n + 1, width, width + 1, width + n - 1, -1, -width, -width + 1, 2 * width + 2, 2**32 + 3, 2**63 - 1):
            mk = lambda: aud_case(fam, label="big_oor", n=n, code=c)  # noqa: E731
            check_seq_code(ctx, B, sm.AlphaModel(big), mk, np.array([1, c], dtype=np.int64), letter=False)
            r = call(lambda: repr(B.decode(c)))
            judge(ctx, "Alphabet.decode", code_class(c, n), mk, r, ("refuse", True), 1)
    # mappers between big alphabets: every width combination of the compiled mapping routine
    sizes = (3, 256, 257, 65537)
    for ns in sizes:
        for nt in sizes:
            if nt < ns or (ns == 65537 and ctx.tier == "quick" and nt == 65537 and False):
                continue
            src = [("s", i) for i in range(ns)]
            dst = [("s", i) for i in range(nt)][::-1]
            S, T = bs.Alphabet(src), bs.Alphabet(dst)
            r = call(bs.AlphabetMapper, S, T)
            if r[0] == "exc":
                judge(ctx, "AlphabetMapper()", "big_%d_%d" % (ns, nt), lambda: aud_case(fam, label="bigmap", ns=ns, nt=nt), r, ("accept", "mapper"), 1)
                continue
            mp = r[1]
            codes = sorted({0, 1, 2, 254, 255, 256, ns - 2, ns - 1} & set(range(ns)))
            exp = [nt - 1 - c for c in codes]
            for dt in ("uint8", "uint16", "uint32", "uint64", "int64", "list", "int"):
                cs = [c for c in codes if dt in ("int", "list") or c <= np.iinfo(dt).max]
                ex = [nt - 1 - c for c in cs]
                if dt == "int":
                    f = lambda a: [int(mp[c]) for c in cs]  # noqa: E731
                    arr = np.array(cs)
                elif dt == "list":
                    f = lambda a: pl(mp[list(cs)])  # noqa: E731
                    arr = np.array(cs)
                else:
                    f = lambda a: pl(mp[a])  # noqa: E731
                    arr = np.array(cs, dtype=dt)
                for flav, a, keep in (int_flavours(cs, dt, 0) if dt not in ("int", "list") else [("plain", arr, None)]):
                    if flav == "subclass" or (flav == "byteswapped" and dt != "uint16"):
                        continue
                    check_flavoured(ctx, "AlphabetMapper[]", fam, "codes@big_%d_%d@%s" % (ns, nt, dt), flav, a, keep, f,
                                    ("accept", ex), strict_flavours=False)
    # one small mapper object used for everything, refusals in between
    S, T = bs.Alphabet(["A", "C", "G"]), bs.LetterAlphabet("TGCA")
    mp = bs.AlphabetMapper(S, T)
    expm = {0: 3, 1: 2, 2: 1}
    for rnd in range(2):
        for dt in ("uint8", "uint16", "uint32", "uint64", "int64", "int8", "int32"):
            for cs in ([2, 0, 1, 2], [], [1]):
                for flav, a, keep in int_flavours(cs, dt, 0):
                    r = check_flavoured(ctx, "AlphabetMapper[]", fam, "codes@reused@%s" % dt, flav, a, keep, lambda x: pl(mp[x]),
                                        ("accept", [expm[c] for c in cs]), strict_flavours=False)
                    if r[0] == "ok" and cs:
                        out = mp[a]
                        if isinstance(out, np.ndarray) and np.shares_memory(out, a):
                            ctx.violation("AlphabetMapper[]|result_aliases_argument|%s" % flav, "mapped code shares memory with its input",
                                          aud_case(fam, label="codes@reused@" + dt, flavour=flav), "independent", "shared")
            call(lambda: mp[np.array([3], dtype=dt)])     # refused (out of range) in between
            call(lambda: mp[7])
        # earlier results stay what they were when the same mapper is used again
        first = mp[np.array([2, 0, 1], dtype=np.uint8)]
        second = mp[np.array([0, 0, 2], dtype=np.uint8)]
        third = mp[[1, 1, 1]]
        r = call(lambda: [pl(first), pl(second), pl(third)])
        judge(ctx, "AlphabetMapper[]", "earlier_results_after_reuse", lambda: aud_case(fam, label="reused_results"), r,
              ("accept", [[1, 3, 2], [3, 3, 1], [2, 2, 2]]), 1)
        r = call(lambda: [int(mp[c]) for c in (0, 1, 2)] + [int(mp[np.int64(1)]), int(mp[np.uint8(2)])])
        judge(ctx, "AlphabetMapper[]", "reused_int", lambda: aud_case(fam, label="reused_int"), r, ("accept", [3, 2, 1, 2, 1]), 1)
    ident = bs.AlphabetMapper(S, bs.Alphabet(["A", "C", "G", "T"]))
    a = np.array([2, 0], dtype=np.uint8)
    out = ident[a]
    ctx.count("unspecified")
    ctx.count("alias:AlphabetMapper(identity)[]:%s" % ("returns_argument" if out is a or np.shares_memory(out, a) else "copies"))
    ctx.ev(1, 1)
    ctx.sample(aud_case(fam, label="big_257_65537@uint16", flavour="strided"))


def fam_flavour_kmer(ctx):
    """KmerAlphabet: array flavours, spacing argument aliasing, int64 overflow switch, refusals, empties"""
    import biotite.sequence as bs
    from biotite.sequence.align import KmerAlphabet

    fam = "flavour_kmer"
    base = bs.LetterAlphabet("ACGT")
    n = 4
    for sp, spname in ((None, "contiguous"), ([0, 2, 3], "spaced")):
        k = 3
        K = KmerAlphabet(base, k, spacing=sp)
        seq_ = [3, 0, 2, 1, 1, 3, 0]
        exp = sm.kmers_of(seq_, n, k, sp)[0]
        for dt in UDTYPES:
            for flav, a, keep in int_flavours(seq_, dt, 255):
                check_flavoured(ctx, "KmerAlphabet.create_kmers", fam, spname + "@" + dt, flav, a, keep, K.create_kmers,
                                ("accept", exp), strict_flavours=False)
            bad = list(seq_)
            bad[4] = n
            for flav, a, keep in int_flavours(bad, dt, 0):
                check_flavoured(ctx, "KmerAlphabet.create_kmers", fam, spname + "_code_eq_len@" + dt, flav, a, keep,
                                lambda x: pl(K.create_kmers(x)), ("refuse", flav not in ("byteswapped", "readonly")))
        for dt in ("int64", "int32", "int8", "uint8", "uint16", "uint64"):
            t = [2, 0, 3]
            for flav, a, keep in int_flavours(t, dt, n):
                check_flavoured(ctx, "KmerAlphabet.fuse", fam, "tuple@" + dt, flav, a, keep, K.fuse, ("accept", sm.kmer_fuse(t, n)))
            t2 = [[2, 0, 3], [0, 0, 1], [3, 3, 3], [1, 2, 0]]
            e2 = [sm.kmer_fuse(x, n) for x in t2]
            two = np.array(t2, dtype=dt)
            wide = np.full((4, 6), n, dtype=dt)
            wide[:, ::2] = two
            for flav, a in (("c_order", two), ("f_order", np.asfortranarray(two)), ("transposed_view", np.array(t2, dtype=dt).T.copy().T),
                            ("strided_2d", wide[:, ::2]), ("readonly_2d", (lambda x: (x.setflags(write=False), x)[1])(two.copy())),
                            ("three_dim", two.reshape(2, 2, 3))):
                ex = e2 if flav != "three_dim" else [e2[:2], e2[2:]]
                check_flavoured(ctx, "KmerAlphabet.fuse", fam, "matrix@" + dt, flav, a, None, K.fuse,
                                ("accept", ex) if flav != "three_dim" else ("either", ex))
            codes = [sm.kmer_fuse(x, n) for x in t2]
            for flav, a, keep in int_flavours(codes, dt if dt != "int8" else "int16", 64):
                check_flavoured(ctx, "KmerAlphabet.split", fam, "codes@" + dt, flav, a, keep, K.split, ("accept", t2))
        for label, x, want in (("fuse_list", [2, 0, 3], ("either", sm.kmer_fuse([2, 0, 3], n))),
                               ("fuse_tuple", (2, 0, 3), ("either", sm.kmer_fuse([2, 0, 3], n)))):
            r = call(lambda: pl(K.fuse(x)))
            judge(ctx, "KmerAlphabet.fuse", label, lambda: aud_case(fam, label=label), r, want, 1)
        r = call(lambda: pl(K.create_kmers(list(seq_))))
        judge(ctx, "KmerAlphabet.create_kmers", "list", lambda: aud_case(fam, label="kmers_list"), r, ("either", exp), 1)
        for label, f, want in (("split_empty", lambda: [pl(K.split(np.array([], dtype=np.int64))), K.split(np.array([], dtype=np.int64)).shape[-1]], [[], 3]),
                               ("fuse_empty", lambda: pl(K.fuse(np.empty((0, 3), dtype=np.int64))), []),
                               ("kmers_exact_span", lambda: pl(K.create_kmers(np.array(seq_[:(sp[-1] + 1 if sp else k)], dtype=np.uint8))),
                                sm.kmers_of(seq_[:(sp[-1] + 1 if sp else k)], n, k, sp)[0]),
                               ("decode_multiple_empty", lambda: pl(K.decode_multiple(np.array([], dtype=np.int64))), []),
                               ("encode_multiple_empty", lambda: pl(K.encode_multiple([])), [])):
            r = call(f)
            judge(ctx, "KmerAlphabet", label, lambda: aud_case(fam, label=label, sp=spname), r, ("accept", want), 1)
        # a sequence object whose own code array is one of the flavours keeps working
        for flav, a, keep in int_flavours([0, 3, 2, 2, 3, 1], "uint8", 9):
            def whole(x):
                q = bs.NucleotideSequence()
                q.code = x
                return [str(q), str(q.complement()), str(q.reverse().complement()), str(q.translate(complete=True)),
                        pl(K.create_kmers(q.code)), str(q.copy()), str(q + q), pl(q.get_alphabet().encode_multiple(str(q)))]
            s = "ATGGTC"
            check_flavoured(ctx, "Sequence(code flavour)", fam, "whole_sequence", flav, a, keep, whole,
                            ("accept", [s, "TACCAG", "GACCAT", "MV", sm.kmers_of([0, 3, 2, 2, 3, 1], n, k, sp)[0], s, s + s, [0, 3, 2, 2, 3, 1]]))
    # spacing argument: not modified, not tied to the alphabet; the spacing getter hands out a copy
    sparr = np.array([3, 0, 2], dtype=np.int64)
    K = KmerAlphabet(base, 3, spacing=sparr)
    ref = pl(K.create_kmers(np.array([3, 0, 2, 1, 1, 3, 0], dtype=np.uint8)))
    r1 = sparr.tolist()
    sparr[:] = [0, 1, 2]
    got = K.spacing
    got[:] = [0, 1, 5]
    r = call(lambda: [r1, pl(K.spacing), pl(K.create_kmers(np.array([3, 0, 2, 1, 1, 3, 0], dtype=np.uint8))) == ref,
                      ref == sm.kmers_of([3, 0, 2, 1, 1, 3, 0], 4, 3, [0, 2, 3])[0], K == KmerAlphabet(base, 3, spacing="1011")])
    judge(ctx, "KmerAlphabet()", "spacing_array_aliasing", lambda: aud_case(fam, label="spacing_alias"), r,
          ("accept", [[3, 0, 2], [0, 2, 3], True, True, True]), 1)
    for label, f in (("k_1", lambda: KmerAlphabet(base, 1)), ("k_0", lambda: KmerAlphabet(base, 0)),
                     ("spacing_count", lambda: KmerAlphabet(base, 2, spacing="111")), ("spacing_negative", lambda: KmerAlphabet(base, 2, spacing=[-1, 1])),
                     ("spacing_duplicate", lambda: KmerAlphabet(base, 2, spacing=[1, 1])), ("base_not_alphabet", lambda: KmerAlphabet("ACGT", 2))):
        r = call(lambda: repr(f()))
        judge(ctx, "KmerAlphabet()", label, lambda: aud_case(fam, label=label), r, ("refuse", False), 1)
    # size switch: k-mer codes around the int64 limit
    for nb, kk in ((2, 61), (2, 62), (2, 63), (2, 64), (4, 30), (4, 31), (4, 32), (94, 9), (94, 10), (3, 39), (3, 40)):
        bsyms = "".join(sm.PRINTABLE94[:nb])
        fits = nb**kk <= 2**63 - 1
        tuples = [[nb - 1] * kk, [0] * (kk - 1) + [1], [nb - 1] + [0] * (kk - 1), [(i * 7 + 1) % nb for i in range(kk)]]

        def go():
            Kb = KmerAlphabet(bs.LetterAlphabet(bsyms), kk)
            out = [len(Kb)]
            for t in tuples:
                c = Kb.fuse(np.array(t, dtype=np.int64))
                out.append([int(c), pl(Kb.split(int(c))), pl(Kb.create_kmers(np.array(t + t[:1], dtype=np.uint8)))[0],
                            "".join(Kb.decode(int(c))) == "".join(bsyms[x] for x in t), int(Kb.encode("".join(bsyms[x] for x in t)))])
            return out
        exp = [nb**kk] + [[sm.kmer_fuse(t, nb), t, sm.kmer_fuse(t, nb), True, sm.kmer_fuse(t, nb)] for t in tuples]
        r = call(go)
        judge(ctx, "KmerAlphabet", "fits_int64" if fits else "exceeds_int64", lambda: aud_case(fam, label="kmer_big", n=nb, k=kk), r,
              ("accept", exp) if fits else ("either", exp), 1)
        ctx.outcome(("kmer_big", nb, kk, r[0], r[1] if r[0] == "exc" else None))
    ctx.sample(aud_case(fam, label="contiguous@uint8", flavour="readonly"))


# ---- object reuse / error paths: every 2-step history of a sequence object --------------------------
def hist_ops(cls, alph, L):
    """operation menu (JSON-able); model semantics in hist_model"""
    a0, a1, al = alph[0], alph[1 % len(alph)], alph[-1]
    ops = [["setint", 0, al], ["setint", -1, a1], ["setint", 0, "?"], ["setint", L, a0],
           ["setslice", [0, 2, None], "str", al + a1], ["setslice", [None, None, -1], "seq", None],
           ["setslice", [0, 2, None], "str", al], ["setslice", [0, 2, None], "str", al + "?"],
           ["setslice", [0, 2, None], "str", al + a1 + a0], ["setslice", [0, 2, None], "code", [len(alph), 0]],
           ["setslice", [0, 2, None], "code", [256, 0]], ["setslice", [1, None, None], "code", [len(alph) - 1] * max(L - 1, 0)],
           ["symbols=", a1 + al + a1], ["symbols=", ""], ["symbols=", a1 + "?"], ["symbols=", [al, a0]],
           ["code=", [len(alph) - 1, 0, 1 % len(alph)], "uint8"], ["code=", [1 % len(alph)], "int64"], ["code=", [0, 256], "int64"],
           ["code=", [-1], "int64"], ["reverse"], ["copy"], ["add_self"], ["index", [None, None, 2]], ["noop_views"]]
    if cls in ("nuc", "nuca"):
        ops += [["complement"]]
    if cls == "nuc":
        ops += [["translate"]]
    return ops


def hist_model(alph, sym, op):
    """-> ('ok', new symbol list) | ('refuse', strict) | ('either',)   (state unchanged unless 'ok')"""
    L = len(sym)
    k = op[0]
    if k == "setint":
        i, x = op[1], op[2]
        if not -L <= i < L:
            return ("refuse", False)
        if x not in alph:
            return ("refuse", True)
        new = list(sym)
        new[i] = x
        return ("ok", new)
    if k == "setslice":
        pos = list(range(L))[slice(*op[1])]
        if op[2] == "seq":
            vs = list(sym)[:len(pos)]
            if len(vs) != len(pos):
                return ("refuse", False)
        elif op[2] == "str":
            vs = list(op[3])
        else:
            if any(not 0 <= c < len(alph) for c in op[3]):
                return ("either",)
            vs = [alph[c] for c in op[3]]
        if any(v not in alph for v in vs):
            return ("refuse", True)
        if len(vs) != len(pos) and len(vs) != 1:
            return ("refuse", False)
        new = list(sym)
        for j, p in enumerate(pos):
            new[p] = vs[j if len(vs) > 1 else 0]
        return ("ok", new)
    if k == "symbols=":
        vs = list(op[1])
        if any(v not in alph for v in vs):
            return ("refuse", True)
        return ("ok", vs)
    if k == "code=":
        if any(not 0 <= c < len(alph) for c in op[1]):
            return ("either",)
        return ("ok", [alph[c] for c in op[1]])
    return ("ok", list(sym))   # pure operations leave the object alone


def hist_apply(cls, pal, q, sym, op):
    """apply op to the live object; returns value of pure operations for comparison (or None)"""
    k = op[0]
    if k == "setint":
        q[op[1]] = op[2]
    elif k == "setslice":
        if op[2] == "seq":
            item = make_seq(cls, pal, "".join(sym))[:len(range(len(sym))[slice(*op[1])])]
        elif op[2] == "str":
            item = op[3]
        else:
            item = np.array(op[3], dtype=np.int64)
        q[slice(*op[1])] = item
    elif k == "symbols=":
        q.symbols = op[1]
    elif k == "code=":
        q.code = np.array(op[1], dtype=op[2])
    elif k == "reverse":
        return str(q.reverse())
    elif k == "copy":
        return str(q.copy())
    elif k == "add_self":
        return str(q + q)
    elif k == "index":
        return str(q[slice(*op[1])])
    elif k == "complement":
        return str(q.complement())
    elif k == "translate":
        ps, pos = q.translate()
        return [[str(p) for p in ps], [list(map(int, x)) for x in pos]]
    elif k == "noop_views":
        return [str(q), len(q), plain(q.symbols)]
    return None


def hist_pure_value(alph, sym, op):
    s = "".join(sym)
    k = op[0]
    if k == "reverse":
        return s[::-1]
    if k == "copy":
        return s
    if k == "add_self":
        return s + s
    if k == "index":
        return s[slice(*op[1])]
    if k == "complement":
        return "".join(sm.IUPAC_COMPLEMENT[c] for c in s)
    if k == "translate":
        o = sm.orfs(s, sm.STANDARD_CODE, {"ATG"}, False)
        return [[p for p, _ in o], [list(x) for _, x in o]]
    if k == "noop_views":
        return [s, len(s), list(s)]
    return None


def check_history(ctx, cls, pal, s, ops, fam="seqhist"):
    alph = seq_alphabet(cls, pal)
    mk = lambda: aud_case(fam, cls=cls, pal=pal, s=s, ops=ops)  # noqa: E731
    q = make_seq(cls, pal, s)
    sym = list(s)
    for step, op in enumerate(ops):
        m = hist_model(alph, sym, op)
        r = call(hist_apply, cls, pal, q, sym, op)
        site = "Sequence.history|" + op[0]
        cl = "first_call" if step == 0 else ("after_refused_call" if prev_refused else "after_accepted_call")
        if m[0] == "either":
            # invalid codes: refused (unchanged) or stored-and-unreadable; stop the history when stored
            ctx.ev(1, 1)
            ctx.count("unspecified")
            if r[0] == "exc":
                bad = call(observe_seq, q, alph, sym)
                if bad != ("ok", None):
                    ctx.violation("%s|state_changed_by_refusal|%s" % (site, cl), "refused call changed the sequence", mk(), "".join(sym), list(bad))
                    return
                prev_refused = True
                continue
            v = call(lambda: str(q))
            if v[0] == "ok":
                ctx.violation("%s|value_for_invalid_code|%s" % (site, cl), "invalid code accepted and readable", mk(), "error", v[1])
            return
        if m[0] == "refuse":
            if r[0] == "ok":
                r = ("ok", str(call(str, q)))
            if not judge(ctx, site, cl, mk, r, m, 1):
                return
            bad = call(observe_seq, q, alph, sym)
            if bad != ("ok", None):
                ctx.violation("%s|state_changed_by_refusal|%s" % (site, cl), "refused call changed the sequence", mk(), "".join(sym), list(bad))
                return
            prev_refused = True
            continue
        prev_refused = False
        pure = hist_pure_value(alph, sym, op)
        if r[0] == "ok":
            bad = call(observe_seq, q, alph, m[1])
            r = ("ok", [r[1], bad[1] if bad[0] == "ok" else list(bad)])
        if not judge(ctx, site, cl, mk, r, ("accept", [pure, None]), 1):
            return
        sym = m[1]
    ctx.outcome(("hist", cls, "".join(sym)))


def fam_seqhist(ctx, part=None):
    starts = {"nuc": ["ATGA", "ACG", ""], "nuca": ["ARNT", "NN"], "prot": ["MK*", "ACD"], "gen": ["xyx"]}
    for cls, strs in starts.items():
        if part is not None and cls != part:
            continue
        pal = "xyz" if cls == "gen" else None
        alph = seq_alphabet(cls, pal)
        for s in strs:
            ops = hist_ops(cls, alph, len(s))
            for a in ops:
                check_history(ctx, cls, pal, s, [a])
                for b in ops:
                    check_history(ctx, cls, pal, s, [a, b])
    ctx.sample(aud_case("seqhist", cls="nuc", pal=None, s="ATGA", ops=[["setint", 0, "?"], ["symbols=", "CTC"]]))


# ---- translation / codon tables: aliasing, order independence, long inputs, item-length switch --------
def fam_translate_extra(ctx):
    import biotite.sequence as bs

    fam = "translate_extra"
    # (a) results are independent objects; the sequence and the table are left alone; same answer the second time
    tabs = ["default", 11, "syn1", "syn3"]
    for L in range(0, 7):
        for p in itertools.product("ATG" if L > 4 else "ACGT", repeat=L):
            s = "".join(p)
            for tid in tabs:
                t, aa, starts = get_table(tid)
                for met in (False, True):
                    exp = sm.orfs(s, aa, starts, met)
                    if not exp and L:
                        continue

                    def go():
                        q = bs.NucleotideSequence(s)
                        ps, pos = q.translate(codon_table=t, met_start=met)
                        first = [str(x) for x in ps]
                        if ps:                             # scribble over one result: the others must not notice
                            ps[0].code[:] = 22
                            if [str(x) for x in ps[1:]] != first[1:]:
                                return ["results share memory", first, [str(x) for x in ps]]
                        for x in ps:                       # scribble over every result
                            x.code[:] = 22
                        again, pos2 = q.translate(codon_table=t, met_start=met)
                        c = q.translate(complete=True, codon_table=t) if L % 3 == 0 else None
                        if c is not None:
                            c.code[:] = 22
                        return [first, [str(x) for x in again], [list(map(int, x)) for x in pos2], str(q),
                                t[s[:3]] if L >= 3 else None,
                                str(q.translate(complete=True, codon_table=t)) if L % 3 == 0 else None]
                    r = call(go)
                    want = [[x for x, _ in exp], [x for x, _ in exp], [list(x) for _, x in exp], s, aa[s[:3]] if L >= 3 else None,
                            sm.translate_complete(s, aa) if L % 3 == 0 else None]
                    ctx.outcome(("alias", want[0]))
                    judge(ctx, "NucleotideSequence.translate", "results_scribbled_then_repeated",
                          lambda: aud_case(fam, label="alias", table=tid, s=s, met=met), r, ("accept", want), 1)
    # (b) order independence: the same table built from differently ordered arguments
    for name in SYN[:3]:
        aa, st = synthetic(name)
        variants = {
            "reversed_dict": (dict(reversed(list(aa.items()))), list(st)),
            "reversed_starts": (dict(aa), list(reversed(st))),
            "sorted_by_aa": (dict(sorted(aa.items(), key=lambda kv: (kv[1], kv[0]))), sorted(st)),
            "tuple_starts": (dict(aa), tuple(st)),
            "duplicate_start": (dict(aa), list(st) + list(st[:1])),
        }
        for vname, (d, stv) in variants.items():
            d0, st0 = dict(d), list(stv)
            r = call(bs.CodonTable, d, stv)
            mk = lambda: aud_case(fam, label="order", table=name, variant=vname)  # noqa: E731
            if r[0] == "exc":
                judge(ctx, "CodonTable()", vname, mk, r, ("accept", "table") if vname != "duplicate_start" else ("either", "table"), 1)
                continue
            t = r[1]
            if d != d0 or list(stv) != st0:
                ctx.violation("CodonTable()|argument_modified|" + vname, "constructor changed its argument", mk(), None, None)
            d["AAA"] = "*" if aa["AAA"] != "*" else "A"        # mutate the arguments afterwards
            if isinstance(stv, list):
                stv.append("TTT")
            got = call(lambda: [dict(sorted(t.codon_dict().items())) == dict(sorted(aa.items())), sorted(set(t.start_codons())),
                                [t[c] for c in ("AAA", "TTT", "ATG")]])
            judge(ctx, "CodonTable()", vname, mk, got, ("accept", [True, sorted(set(st)), [aa[c] for c in ("AAA", "TTT", "ATG")]]), 1)
            # handed-out containers are not internal state
            cd = t.codon_dict()
            cd["CCC"] = "?"
            cdc = t.codon_dict(code=True)
            cdc[(0, 0, 0)] = 99
            r2 = call(lambda: [t["CCC"], int(t[(0, 0, 0)]), dict(sorted(t.codon_dict().items())) == dict(sorted(aa.items()))])
            judge(ctx, "CodonTable.codon_dict", "result_mutated", mk, r2, ("accept", [aa["CCC"], sm.PROT24.index(aa["AAA"]), True]), 1)
            for L in range(0, 5):
                for p in itertools.product("ACGT", repeat=L):
                    s = "".join(p)
                    exp = sm.orfs(s, aa, set(st), False)
                    rr = call(lambda: (lambda ps, pos: [[str(x) for x in ps], [list(map(int, x)) for x in pos]])(
                        *bs.NucleotideSequence(s).translate(codon_table=t)))
                    ok = judge(ctx, "NucleotideSequence.translate", "table_built_" + vname,
                               lambda: aud_case(fam, label="order_translate", table=name, variant=vname, s=s), rr,
                               ("accept", [[x for x, _ in exp], [list(x) for _, x in exp]]) if vname != "duplicate_start"
                               else ("either", [[x for x, _ in exp], [list(x) for _, x in exp]]), 1 if exp else 0)
                    if not ok:
                        break
    # map_codon_codes / is_start_codon on array flavours
    t, aa, starts = get_table(11)
    cod = [[0, 3, 2], [3, 3, 2], [3, 0, 0], [1, 3, 2]]
    names = ["".join(sm.NUC4[x] for x in c) for c in cod]
    for dt in ("uint8", "int64", "int8", "uint32"):
        two = np.array(cod, dtype=dt)
        wide = np.zeros((4, 6), dtype=dt)
        wide[:, ::2] = two
        ro = two.copy()
        ro.setflags(write=False)
        for flav, a in (("c_order", two), ("f_order", np.asfortranarray(two)), ("strided", wide[:, ::2]), ("readonly", ro),
                        ("reshaped_view", np.array(cod, dtype=dt).reshape(-1)[:].reshape(-1, 3)), ("list_of_lists", None)):
            if a is None:
                f = lambda x: [pl(t[c]) for c in cod]  # noqa: E731
                a = two
            else:
                f = lambda x: [pl(t.map_codon_codes(x)), [bool(b) for b in t.is_start_codon(x)]]  # noqa: E731
            want = [sm.PROT24.index(aa[c]) for c in names]
            check_flavoured(ctx, "CodonTable.map_codon_codes", fam, "codons@" + dt, flav, a, None, f,
                            ("accept", want if flav == "list_of_lists" else [want, [c in starts for c in names]]))
    # (c) long inputs: lengths around 255/256/257 and 65535..65537, de Bruijn-like content
    for Ln in (255, 256, 257, 999, 1000, 1001) + ((65535, 65536, 65537) if True else ()):
        s = "".join(sm.NUC4[(i * i + i // 7 + (i >> 3)) % 4] for i in range(Ln))
        short = Ln <= 1001

        def go():
            q = bs.NucleotideSequence(s)
            out = [str(q) == s, len(q), str(q.reverse()) == s[::-1], str(q.complement()) == "".join(sm.IUPAC_COMPLEMENT[c] for c in s),
                   str(q[::3]) == s[::3], bool(q == bs.NucleotideSequence(list(s)))]
            ps, pos = q.translate()
            out.append([[str(x) for x in ps], [list(map(int, x)) for x in pos]] if short else
                       [len(ps), hash(tuple(str(x) for x in ps)) == hash(tuple(p_ for p_, _ in exp_orf)), [list(map(int, x)) for x in pos] == [list(x) for _, x in exp_orf]])
            if Ln % 3 == 0:
                out.append(str(q.translate(complete=True)) == sm.translate_complete(s, sm.STANDARD_CODE))
            return out
        exp_orf = sm.orfs(s, sm.STANDARD_CODE, {"ATG"}, False)
        want = [True, Ln, True, True, True, True,
                [[p_ for p_, _ in exp_orf], [list(x) for _, x in exp_orf]] if short else [len(exp_orf), True, True]]
        if Ln % 3 == 0:
            want.append(True)
        r = call(go)
        judge(ctx, "NucleotideSequence", "long_%s" % ("1e3" if short else "65536"), lambda: aud_case(fam, label="long", n=Ln), r, ("accept", want), 1)
        from biotite.sequence.align import KmerAlphabet
        for sp in (None, [0, 2, 5]):
            K = KmerAlphabet(bs.NucleotideSequence.unambiguous_alphabet(), 3, spacing=sp)
            code = [sm.NUC4.index(c) for c in s]
            r = call(lambda: pl(K.create_kmers(bs.NucleotideSequence(s).code)) == sm.kmers_of(code, 4, 3, sp)[0])
            judge(ctx, "KmerAlphabet.create_kmers", "long_%s" % ("1e3" if short else "65536"), lambda: aud_case(fam, label="long_kmers", n=Ln), r, ("accept", True), 1)
    # (d) ProteinSequence: the `len(item) == 3` switch between 1-letter and 3-letter items
    for items, want in ((["ALA", "G"], ("accept", "AG")), (["ala", "gLy", "m"], ("accept", "AGM")), (["AL"], ("either", NOVALUE)),
                        (["ALAA"], ("either", NOVALUE)), (["A", "LA"], ("either", NOVALUE)), (["XXX"], ("either", NOVALUE)),
                        (["SEC", "MSE"], ("accept", "CM")), ([" * "], ("either", "*")), (["*"], ("accept", "*")), ([""], ("either", NOVALUE)),
                        (np.array(["ALA", "GLY"]), ("accept", "AG")), (("A", "GLY"), ("accept", "AG"))):
        r = call(lambda: str(bs.ProteinSequence(items)))
        judge(ctx, "ProteinSequence()", "item_len_%s" % "_".join(str(len(i)) for i in items),
              lambda: aud_case(fam, label="prot_items", items=[str(i) for i in items]), r, want, 1)
    for l3, l1 in THREE.items():
        r = call(lambda: [bs.ProteinSequence.convert_letter_1to3(l3), bs.ProteinSequence.convert_letter_3to1(l1),
                          str(bs.ProteinSequence([l1])), str(bs.ProteinSequence([l1.lower(), l3]))])
        judge(ctx, "ProteinSequence()", "three_letter_codes", lambda: aud_case(fam, label="three", aa=l3), r, ("accept", [l1, l3, l3, l3 + l3]), 1)
    # alphabet auto-selection of NucleotideSequence: each ambiguous letter alone and last
    for c in sm.NUC15:
        for s in (c, "A" + c, c + "T", "ACGT" + c):
            for form in ("str", "list", "lower"):
                exp_alph = sm.NUC4 if all(x in sm.NUC4 for x in s) else sm.NUC15
                r = call(lambda: observe_seq(make_seq("nuc", None, s, form), exp_alph, list(s)))
                judge(ctx, "NucleotideSequence()", "auto_alphabet", lambda: aud_case(fam, label="auto", s=s, form=form), r, ("accept", None), 1)
    ctx.sample(aud_case(fam, label="alias", table="syn1", s="AAAGTG", met=True))


AUDIT_FAMS = {"flavour_letter": fam_flavour_letter, "flavour_generic": fam_flavour_generic, "flavour_kmer": fam_flavour_kmer,
              "translate_extra": fam_translate_extra}


def run_audit(shard, ctx):
    if not ctx.journal({"kind": "audit", "fam": shard["fam"], "part": shard.get("part"), "unit": "shard"}):
        return
    if shard["fam"] == "seqhist":
        return fam_seqhist(ctx, shard.get("part"))
    if shard["fam"] == "identity_derived":
        return fam_identity_derived(ctx, shard.get("part"))
    AUDIT_FAMS[shard["fam"]](ctx)


def replay_audit(case, ctx):
    if case["fam"] in ("seqhist", "seqhist3") and "ops" in case:
        return check_history(ctx, case["cls"], case.get("pal"), case["s"], case["ops"], fam=case["fam"])
    if case["fam"] in ("identity", "derived"):
        return fam_identity_derived(ctx, case["cls"] if not str(case.get("op1", "")).startswith("translate_") else "nuc")
    run_audit({"fam": case["fam"], "part": case.get("part")}, _nojournal(ctx))


RUNNERS["audit"] = run_audit


# ---------------------------------------------------------------------------
# second dimension audit: result identity, two awkward features, other-size reuse, derived inputs
# ---------------------------------------------------------------------------
def _derivations(cls, alph, s):
    """(name, fn(q) -> new sequence, model string) : every way the library hands out a sequence"""
    L = len(s)
    alt = [i % 2 == 0 for i in range(L)]
    out = [
        ("full_slice", lambda q: q[:], s), ("slice_0_L", lambda q: q[0:L], s), ("slice_step1", lambda q: q[::1], s),
        ("mask_all", lambda q: q[np.ones(L, dtype=bool)], s), ("arange", lambda q: q[np.arange(L)], s),
        ("empty_slice", lambda q: q[0:0], ""), ("empty_index", lambda q: q[np.array([], dtype=np.int64)], ""),
        ("slice_step2", lambda q: q[::2], s[::2]), ("slice_neg", lambda q: q[::-1], s[::-1]), ("slice_1_3", lambda q: q[1:3], s[1:3]),
        ("slice_neg2", lambda q: q[::-2], s[::-2]),
        ("mask_alt", lambda q: q[np.array(alt, dtype=bool)], "".join(c for c, m in zip(s, alt) if m)),
        ("index_rev", lambda q: q[np.arange(L)[::-1]], s[::-1]),
        ("index_dup", lambda q: q[[0, 0, L - 1]] if L else q[[]], (s[0] * 2 + s[-1]) if L else ""),
        ("copy", lambda q: q.copy(), s), ("copy_of_code", lambda q: q.copy(q.code), s),
        ("reverse", lambda q: q.reverse(), s[::-1]), ("reverse_view", lambda q: q.reverse(copy=False), s[::-1]),
        ("add_empty_right", lambda q: q + make_seq(cls, "xyz" if cls == "gen" else None, ""), s),
        ("add_empty_left", lambda q: make_seq(cls, "xyz" if cls == "gen" else None, "") + q, s),
        ("add_self", lambda q: q + q, s + s),
    ]
    if cls in ("nuc", "nuca"):
        comp = "".join(sm.IUPAC_COMPLEMENT[c] for c in s)
        out += [("complement", lambda q: q.complement(), comp), ("revcomp_view", lambda q: q.reverse(copy=False).complement(), comp[::-1])]
    if cls == "prot":
        out += [("remove_stops", lambda q: q.remove_stops(), s.replace("*", ""))]
    return out


def check_identity(ctx, cls, pal, s, name, fn, exp):
    """A: the result is a new object; re-binding edits of the result leave the operand alone"""
    alph = seq_alphabet(cls, pal)
    mk = lambda: aud_case("identity", cls=cls, pal=pal, s=s, op=name)  # noqa: E731

    def go():
        q = make_seq(cls, pal, s)
        r = fn(q)
        out = [r is q, observe_seq(r, alph, list(exp))]
        other = alph[-1] + alph[0] + alph[-1]
        r.symbols = other                                   # re-binds the result's code
        out.append(observe_seq(q, alph, list(s)))
        r2 = fn(q)
        r2.code = np.array([0] * 5, dtype=np.uint8)          # re-binds again, other length
        out.append(observe_seq(q, alph, list(s)))
        out.append(observe_seq(r, alph, list(other)))
        return out
    r = call(go)
    judge(ctx, "Sequence.result_identity", name, mk, r, ("accept", [False, None, None, None, None]), 1)
    ctx.outcome(("ident", cls, name, exp))


def _second_ops(cls, alph, d):
    """(name, fn(derived object, fresh twin) -> value, model value) for a derived sequence with model string d"""
    Ld = len(d)
    a_last = alph[-1]
    ops = [
        ("views", lambda x, f: observe_seq(x, alph, list(d)), None),
        ("ints", lambda x, f: [plain(x[i]) for i in range(-Ld, Ld)], [d[i] for i in range(-Ld, Ld)]),
        ("slice_neg", lambda x, f: str(x[::-1]), d[::-1]), ("slice_1", lambda x, f: str(x[1:]), d[1:]),
        ("slice_step2", lambda x, f: str(x[1::2]), d[1::2]),
        ("mask", lambda x, f: str(x[np.array([i % 2 == 1 for i in range(Ld)], dtype=bool)]), d[1::2]),
        ("index", lambda x, f: str(x[[Ld - 1, 0]]) if Ld else "", (d[-1] + d[0]) if Ld else ""),
        ("reverse", lambda x, f: str(x.reverse()), d[::-1]), ("reverse_view", lambda x, f: str(x.reverse(copy=False)), d[::-1]),
        ("copy", lambda x, f: [str(x.copy()), bool(x.copy() == x)], [d, True]),
        ("eq", lambda x, f: [bool(x == f), bool(f == x), bool(x != f)], [True, True, False]),
        ("add", lambda x, f: [str(x + f), str(f + x), str(x + x)], [d + d] * 3),
        ("as_item", lambda x, f: (lambda t: (t.__setitem__(slice(0, Ld), x), str(t))[1])(f + f), d + d),
        ("setint", lambda x, f: (x.__setitem__(0, a_last), str(x))[1] if Ld else "", (a_last + d[1:]) if Ld else ""),
        ("setslice", lambda x, f: (x.__setitem__(slice(None), f[::-1]), str(x))[1], d[::-1]),
        ("decode_code", lambda x, f: "".join(plain(x.alphabet.decode_multiple(x.code))), d),
        ("code_into_fresh", lambda x, f: (setattr(f, "code", x.code), str(f))[1], d),
        ("symbols_into_fresh", lambda x, f: (setattr(f, "symbols", x.symbols), str(f))[1], d),
        ("iter_construct", lambda x, f: str(type(f)(x)) if cls != "gen" else d, d),
    ]
    if cls in ("nuc", "nuca"):
        comp = "".join(sm.IUPAC_COMPLEMENT[c] for c in d)
        ops += [("complement", lambda x, f: [str(x.complement()), str(x.complement().complement()), str(x.reverse(copy=False).complement())],
                 [comp, d, comp[::-1]])]
    if cls == "nuc":
        o = sm.orfs(d, sm.STANDARD_CODE, {"ATG"}, False)
        ops += [("translate", lambda x, f: (lambda ps, pos: [[str(p) for p in ps], [list(map(int, y)) for y in pos]])(*x.translate()),
                 [[p for p, _ in o], [list(y) for _, y in o]])]
        if Ld % 3 == 0:
            ops += [("translate_complete", lambda x, f: str(x.translate(complete=True)), sm.translate_complete(d, sm.STANDARD_CODE))]
    if cls in ("nuc", "prot") and Ld >= 2:
        n = len(alph)
        codes = [alph.index(c) for c in d]
        ops += [("create_kmers", lambda x, f: pl(_kmer2(alph).create_kmers(x.code)), sm.kmers_of(codes, n, 2, None)[0]),
                ("create_kmers_spaced", lambda x, f: pl(_kmer2(alph, "101").create_kmers(x.code)) if Ld >= 3 else [],
                 sm.kmers_of(codes, n, 2, [0, 2])[0] if Ld >= 3 else [])]
    return ops


_K2 = {}


def _kmer2(alph, spacing=None):
    key = (alph, spacing)
    if key not in _K2:
        from biotite.sequence import LetterAlphabet
        from biotite.sequence.align import KmerAlphabet

        _K2[key] = KmerAlphabet(LetterAlphabet(alph), 2, spacing=spacing)
    return _K2[key]


def check_derived(ctx, cls, pal, s, dname, dfn, d):
    """E: op2(op1(x)) for every second operation, on a freshly derived object each time"""
    alph = seq_alphabet(cls, pal)
    for oname, f2, want in _second_ops(cls, alph, d):
        mk = lambda: aud_case("derived", cls=cls, pal=pal, s=s, op1=dname, op2=oname)  # noqa: E731
        r = call(lambda: f2(dfn(make_seq(cls, pal, s)), make_seq(cls, pal, d)))
        if r[0] == "ok":
            r = ("ok", plain(r[1]) if not isinstance(r[1], (list, tuple)) or oname != "views" else list(r[1]))
        dcls = "".join(ch for ch in dname.split("_of_")[0] if not ch.isdigit())
        judge(ctx, "Sequence.derived|" + oname, "after_" + dcls, mk, r, ("accept", want), 1)
    ctx.outcome(("derived", cls, dname, d))


DERIVED_STRINGS = {
    "nuc": None,   # every ACGT string of length <= 3, plus the listed longer ones
    "nuc_long": ["ATGA", "ATGTAA", "CATGCAT", "TTATGGCTAG"],
    "nuca": ["", "N", "RY", "ANT", "MKWS", "HBVDN"],
    "prot": ["", "M", "M*", "AC*D", "*K*", "BZX*W"],
    "gen": ["", "x", "zy", "xyzx"],
}


def fam_identity_derived(ctx, part):
    for cls in ("nuc", "nuca", "prot", "gen"):
        if part != cls:
            continue
        pal = "xyz" if cls == "gen" else None
        alph = seq_alphabet(cls, pal)
        if cls == "nuc":
            strings = ["".join(p) for L in range(0, 4) for p in itertools.product(alph, repeat=L)] + DERIVED_STRINGS["nuc_long"]
        else:
            strings = DERIVED_STRINGS[cls]
        for s in strings:
            for name, fn, exp in _derivations(cls, alph, s):
                check_identity(ctx, cls, pal, s, name, fn, exp)
                check_derived(ctx, cls, pal, s, name, fn, exp)
    # protein sequences handed out by translate() as derived inputs
    if part == "nuc":
        import biotite.sequence as bs

        alphp = sm.PROT24
        for s in ("ATGAAATAAATGCC", "TTGATGTGA", "ATG"):
            for met in (True, False):
                o = sm.orfs(s, sm.STANDARD_CODE, {"ATG"}, met)
                for j, (p, _) in enumerate(o):
                    check_derived(ctx, "prot", None, p, "translate_orf%d%s_of_%s" % (j, "_met" if met else "", s),
                                  lambda q, s=s, j=j, met=met: bs.NucleotideSequence(s).translate(met_start=met)[0][j], p)
            if len(s) % 3 == 0:
                pc = sm.translate_complete(s, sm.STANDARD_CODE)
                check_derived(ctx, "prot", None, pc, "translate_complete_of_" + s,
                              lambda q, s=s: bs.NucleotideSequence(s).translate(complete=True), pc)
    ctx.sample(aud_case("derived", cls=part, s=DERIVED_STRINGS.get(part, ["ATGA"])[-1] if part != "nuc" else "ATGA", op1="slice_step2", op2="complement"))


def fam_two_features(ctx):
    """C: two awkward features, handled by different branches, in one value"""
    import biotite.sequence as bs
    from biotite.sequence.align import KmerAlphabet

    fam = "two_features"
    for syms in (sm.NUC4, sm.PROT24, "".join(PERMS[0])):
        A, M = letter_objects(syms)
        n = M.n
        reps = {"code_negative": [-1, -256, -255 + 0], "code_eq_len": [n], "code_above_len": [n + 1] if n + 1 < 256 else [],
                "code_above_255": [256, 256 + n - 1, 511], "code_above_65535": [65536, 2**32 + 1]}
        pairs = [(ca, a, cb, b) for ca, va in reps.items() for a in va for cb, vb in reps.items() for b in vb if ca != cb]
        for ca, a, cb, b in pairs:
            for codes in ([a, b], [0, a, n - 1, b], [a, 0, b]):
                for dt in ("int64", "int32") if max(abs(a), abs(b)) < 2**31 else ("int64",):
                    arr = np.array(codes, dtype=dt)
                    mk = lambda: aud_case(fam, label="codes", alph=syms, codes=codes, dt=dt)  # noqa: E731
                    r = call(lambda: plain(A.decode_multiple(arr)))
                    judge(ctx, "LetterAlphabet.decode_multiple", "two_classes", mk, r, ("refuse", True), 1)
                    check_seq_code(ctx, A, M, mk, arr)

                    def setit():
                        q = bs.GeneralSequence(A, [syms[0]] * len(codes))
                        try:
                            q[:] = arr
                        except Exception:  # noqa: BLE001
                            return ["refused", observe_seq(q, M.symbols, [syms[0]] * len(codes))]
                        v = call(str, q)
                        return ["stored", v[0]]
                    r = call(setit)
                    if r[0] == "ok" and r[1] not in (["refused", None], ["stored", "exc"]):
                        ctx.violation("Sequence.__setitem__|bad_state_after_invalid_code|two_classes", "two invalid codes of different classes", mk(),
                                      "refused/unchanged or unreadable", r[1])
                    ctx.ev(1, 1)
                    ctx.count("refused")
        # symbol containers with two different kinds of awkward item / awkward string
        v0, vl = syms[0], syms[-1]
        foreign = "~" if "~" not in syms else " "
        odd = [("multichar+nonascii", [v0, "é" + v0]), ("multichar+foreign", [v0 + vl, foreign]), ("foreign+multichar", [foreign, v0 + vl]),
               ("empty+foreign", ["", foreign]), ("nonstring+multichar", [None, v0 * 2]), ("multichar+nonstring", [v0 * 2, 7]),
               ("nonascii+foreign", ["é", foreign]), ("bytes_multichar+str_foreign", [(v0 + vl).encode(), foreign]),
               ("lower+multichar", [v0.lower() if v0.lower() not in syms else foreign, vl * 2]),
               ("empty+multichar", ["", v0 * 2]), ("foreign+nonstring", [foreign, 1.5])]
        for label, items in odd:
            for form in ("list", "tuple", "object_array", "str_array"):
                if form == "str_array" and not all(isinstance(i, str) for i in items):
                    continue
                x = {"list": list(items), "tuple": tuple(items), "object_array": np.array(items + [None], dtype=object)[:-1],
                     "str_array": np.array(items) if all(isinstance(i, str) for i in items) else None}[form]
                mk = lambda: aud_case(fam, label="symbols", alph=syms, which=label, form=form)  # noqa: E731
                r = call(lambda: plain(A.encode_multiple(x)))
                judge(ctx, "LetterAlphabet.encode_multiple", "two_odd_items", mk, r, ("either", NOVALUE), 1)
                r = call(lambda: str(bs.GeneralSequence(A, x)))
                judge(ctx, "Sequence()", "two_odd_items", mk, r, ("either", NOVALUE), 1)
        for label, x in (("str_nonascii+foreign", "é" + foreign), ("str_foreign+nonascii", v0 + foreign + "é"), ("bytes_nonascii+foreign", b"\xff" + foreign.encode()),
                         ("str_control+foreign", "\x00" + foreign), ("str_foreign_twice_different", foreign + "\x7f")):
            r = call(lambda: plain(A.encode_multiple(x)))
            judge(ctx, "LetterAlphabet.encode_multiple", "two_odd_chars", lambda: aud_case(fam, label="string", alph=syms, which=label), r,
                  ("either", NOVALUE), 1)
        # assignment: wrong length AND foreign symbol; out-of-range index AND foreign symbol; refused, object unchanged
        base = [v0, vl, v0, vl]
        for label, idx, item in (("length+foreign", slice(0, 2), v0 + vl + foreign), ("length+code", slice(0, 2), np.array([0, n, 1])),
                                 ("index_oor+foreign", 9, foreign), ("index_oor+multichar", -9, v0 * 2),
                                 ("mask_length+foreign", np.array([True, False]), foreign), ("index_array_oor+foreign", [0, 9], v0 + foreign),
                                 ("length+other_alphabet", slice(0, 2), bs.GeneralSequence(bs.LetterAlphabet("01"), "010"))):
            def go():
                q = bs.GeneralSequence(A, base)
                try:
                    q[idx] = item
                except Exception:  # noqa: BLE001
                    return ["refused", observe_seq(q, M.symbols, base)]
                return ["accepted", str(q)]
            r = call(go)
            judge(ctx, "Sequence.__setitem__", "two_reasons_to_refuse", lambda: aud_case(fam, label="setitem", alph=syms, which=label), r,
                  ("accept", ["refused", None]), 1)
    # create_kmers: two out-of-range codes in different roles
    base = bs.LetterAlphabet("ACG")
    for sp in (None, [0, 2], [0, 1, 3], [1, 3]):
        k = 2 if sp is None or len(sp) == 2 else 3
        K = KmerAlphabet(base, k, spacing=sp)
        span = (sp[-1] + 1) if sp else k
        L = span + 2
        good = [(i * 2 + 1) % 3 for i in range(L)]
        for i in range(L):
            for j in range(L):
                if i == j:
                    continue
                for vi, vj in ((3, 255), (200, 3)):
                    t = list(good)
                    t[i], t[j] = vi, vj
                    exp, read, cnt = sm.kmers_of([c if c < 3 else 0 for c in t], 3, k, sp)
                    touched = any(x in read for x in (i, j))
                    for dt in ("uint8", "uint64"):
                        r = call(lambda: pl(K.create_kmers(np.array(t, dtype=dt))))
                        mk = lambda: aud_case(fam, label="kmers", sp=sp, seq=t, dt=dt)  # noqa: E731
                        judge(ctx, "KmerAlphabet.create_kmers", "two_bad_codes", mk, r,
                              ("refuse", True) if touched else ("either", exp), 1)
    # k-mer code tuples: bad symbol code AND wrong length ; k-mer code array: negative AND too large
    K = KmerAlphabet(bs.LetterAlphabet("ACGT"), 3)
    for label, f in (("fuse_len+code", lambda: K.fuse(np.array([0, 4]))), ("fuse_len+neg", lambda: K.fuse(np.array([0, 1, 2, -1]))),
                     ("split_neg+large", lambda: K.split(np.array([-1, 64]))), ("split_large+neg", lambda: K.split(np.array([0, 64, 3, -2]))),
                     ("encode_len+foreign", lambda: K.encode("AX")), ("decode_multiple_two", lambda: K.decode_multiple([64, -1]))):
        r = call(lambda: repr(f()))
        judge(ctx, "KmerAlphabet", "two_reasons_to_refuse", lambda: aud_case(fam, label=label), r, ("refuse", True), 1)
    # codon tables: every single missing codon is refused (sentinel -1 of the look-up array); missing + foreign letter
    for c in sm.ALL_CODONS:
        d = dict(sm.STANDARD_CODE)
        del d[c]
        r = call(lambda: repr(bs.CodonTable(d, ["ATG"])))
        judge(ctx, "CodonTable()", "codon_missing", lambda: aud_case(fam, label="missing", codon=c), r, ("refuse", False), 1)
    for label, d, st in (("missing+foreign_aa", {**{k_: v for k_, v in sm.STANDARD_CODE.items() if k_ != "AAA"}, "CCC": "?"}, ["ATG"]),
                         ("foreign_codon+foreign_start", {**sm.STANDARD_CODE, "AAX": "K"}, ["ATX"]),
                         ("start_len+start_letter", dict(sm.STANDARD_CODE), ["AT", "ATX"]),
                         ("lower_codon+missing", {**{k_: v for k_, v in sm.STANDARD_CODE.items() if k_ != "AAA"}, "aaa": "K"}, ["ATG"])):
        r = call(lambda: repr(bs.CodonTable(d, st)))
        judge(ctx, "CodonTable()", "two_reasons_to_refuse", lambda: aud_case(fam, label=label), r, ("refuse", False), 1)
    ctx.sample(aud_case(fam, label="codes", alph="ACGT", codes=[-1, 256], dt="int64"))


def fam_seqhist3(ctx):
    """D: one object filled with contents of other sizes (longer, shorter, empty) three times, every view read in between"""
    starts = {"nuc": ["ATGA", ""], "nuca": ["NN"], "prot": ["MK*"], "gen": ["xyx"]}
    for cls, strs in starts.items():
        pal = "xyz" if cls == "gen" else None
        alph = seq_alphabet(cls, pal)
        a0, a1, al = alph[0], alph[1 % len(alph)], alph[-1]
        n = len(alph)
        size_ops = [["symbols=", a1 + al + a1 + a0 + al], ["symbols=", ""], ["symbols=", [al, a0]], ["symbols=", a1],
                    ["code=", [n - 1, 0, 1 % n], "uint8"], ["code=", [1 % n] * 7, "int64"], ["code=", [], "int64"],
                    ["symbols=", a1 + "?"], ["code=", [0, 256], "int64"]]
        reads = [["noop_views"], ["reverse"], ["add_self"], ["index", [None, None, 2]], ["copy"]]
        if cls in ("nuc", "nuca"):
            reads.append(["complement"])
        if cls == "nuc":
            reads.append(["translate"])
        for s in strs:
            for a in size_ops:
                for b in size_ops:
                    for c in size_ops[:7]:
                        rd = reads[(len(repr(a)) + len(repr(b)) + len(repr(c))) % len(reads)]
                        check_history(ctx, cls, pal, s, [a, rd, b, rd, c, rd], fam="seqhist3")
            for a in size_ops[:7]:
                for rd in reads:
                    for b in size_ops[:7]:
                        check_history(ctx, cls, pal, s, [rd, a, rd, b, rd], fam="seqhist3")
    ctx.sample(aud_case("seqhist3", cls="nuc", pal=None, s="ATGA", ops=[["symbols=", "CTCAT"], ["translate"], ["code=", [], "int64"], ["translate"]]))


AUDIT_FAMS.update({"two_features": fam_two_features, "seqhist3": fam_seqhist3})


# ---------------------------------------------------------------------------
# third dimension audit: operand sizes in both directions, ambient state as an event, option precedence,
# boundaries of selection policies
# ---------------------------------------------------------------------------
def fam_third(ctx):
    import os

    import biotite.sequence as bs
    from biotite.sequence.align import KmerAlphabet

    fam = "third"

    def J(site, cls, f, want, **kw):
        r = call(f)
        if r[0] == "ok":
            r = ("ok", plain(r[1]))
        judge(ctx, site, cls, lambda: aud_case(fam, site=site, label=cls, **kw), r, want, 1)
        ctx.outcome((site, cls, kw.get("k"), r[:2] if r[0] == "ok" else r[1]))
        return r

    # ---- F: second operand larger than / as large as / smaller than the first, elements the first one lacks ----
    lens = (0, 1, 2, 3, 7, 300)
    mkstr = lambda alph, n, off: "".join(alph[(i * 5 + off) % len(alph)] for i in range(n))  # noqa: E731
    for cls in ("nuc", "nuca", "prot"):
        alph = seq_alphabet(cls, None)
        for la in lens:
            for lb in lens:
                a, b = mkstr(alph, la, 1), mkstr(alph, lb, 2)
                J("Sequence.__add__", "sizes", lambda: str(make_seq(cls, None, a) + make_seq(cls, None, b)), ("accept", a + b), k=[cls, la, lb])
                J("Sequence.__eq__", "sizes", lambda: [bool(make_seq(cls, None, a) == make_seq(cls, None, b)),
                                                       bool(make_seq(cls, None, b) == make_seq(cls, None, a))], ("accept", [a == b, a == b]), k=[cls, la, lb])

                # assignment of a whole sequence into a slice of another one: exact fit, too long, too short
                def assign(where):
                    q = make_seq(cls, None, a)
                    try:
                        q[where] = make_seq(cls, None, b)
                    except Exception:  # noqa: BLE001
                        return ["refused", str(q)]
                    return ["ok", str(q)]
                for where, wname in ((slice(None), "all"), (slice(0, lb), "prefix_of_item_length"), (slice(1, None), "tail")):
                    npos = len(range(la)[where])
                    if lb == npos or lb == 1:
                        new = list(a)
                        for j, p in enumerate(range(la)[where]):
                            new[p] = b[j if lb > 1 else 0]
                        want = ["ok", "".join(new)]
                    else:
                        want = ["refused", a]
                    J("Sequence.__setitem__", "item_sizes|" + wname, lambda: assign(where), ("accept", want), k=[cls, la, lb])
        # index arrays / masks longer than the sequence, referring to positions it lacks
        for la in (0, 1, 2, 3):
            a = mkstr(alph, la, 3)
            for idx in ([0] * (la + 3), list(range(la)) * 3, [la - 1] * 5 if la else [], list(range(la)) + [la], [-la - 1] if True else None):
                ok = all(-la <= i < la for i in idx)
                J("Sequence.__getitem__", "index_longer_than_sequence", lambda: str(make_seq(cls, None, a)[np.array(idx, dtype=np.int64)]),
                  ("accept", "".join(a[i] for i in idx)) if ok else ("refuse", False), k=[cls, la, idx])
    # sequences over a larger / smaller alphabet as item and as + operand, both directions
    pairs = [("nuc", "ACGT", "nuca", "ACGTN"), ("nuca", "NRY", "nuc", "TGCA"), ("nuc", "AC", "prot", "ACDEF"), ("prot", "MKW", "nuc", "ACGTACG")]
    for c1, s1, c2, s2 in pairs:
        a1, a2 = seq_alphabet(c1, None), seq_alphabet(c2, None)
        for n2 in range(0, len(s2) + 1):
            item = s2[:n2]

            def go():
                q = make_seq(c1, None, s1)
                try:
                    q[0:n2] = make_seq(c2, None, item)
                except Exception:  # noqa: BLE001
                    return ["refused", str(q)]
                return ["ok", str(q)]
            npos = len(range(len(s1))[0:n2])
            fits = (n2 == npos or n2 == 1) and all(ch in a1 for ch in item)
            if fits:
                new = list(s1)
                for j in range(npos):
                    new[j] = item[j if n2 > 1 else 0]
                want = ("accept", ["ok", "".join(new)])
            else:
                want = ("accept", ["refused", s1])
            J("Sequence.__setitem__", "item_of_other_alphabet_sizes", go, want, k=[c1, s1, c2, item])
    # codon table derivations with fewer / as many / more entries than the parent has
    std = bs.CodonTable.load(1)
    for nmap in (0, 1, 2, 63, 64):
        ch = {c: ("W" if sm.STANDARD_CODE[c] != "W" else "Y") for c in sm.ALL_CODONS[:nmap]}
        exp = {**sm.STANDARD_CODE, **ch}
        J("CodonTable.with_codon_mappings", "n_entries", lambda: [dict(sorted(std.with_codon_mappings(ch).codon_dict().items())) == dict(sorted(exp.items())),
                                                                  dict(sorted(std.codon_dict().items())) == dict(sorted(sm.STANDARD_CODE.items()))],
          ("accept", [True, True]), k=nmap)
    for nst in (1, 2, 3, 4, 64):
        st = sm.ALL_CODONS[:nst]
        J("CodonTable.with_start_codons", "n_starts", lambda: [sorted(std.with_start_codons(st).start_codons()), len(std.start_codons())],
          ("accept", [sorted(st), 3]), k=nst)

    # ---- G: ambient state as an event between calls (cwd, numpy error / print state, recursion-free) ----
    def probe():
        q = bs.NucleotideSequence("ATGGCTTAAATGC")
        ps, pos = q.translate()
        t11 = bs.CodonTable.load(11)
        tn = bs.CodonTable.load("Yeast Mitochondrial")
        K = KmerAlphabet(bs.LetterAlphabet("ACGT"), 3, spacing="1101")
        g = bs.GeneralSequence(bs.Alphabet(["foo", 42, (1, 2), 3.5]), [3.5, "foo", (1, 2)])
        return [[str(p) for p in ps], [list(map(int, x)) for x in pos], str(q.translate(complete=False, codon_table=t11)[0][0]),
                sorted(t11.start_codons()), tn["CTG"], sorted(bs.CodonTable.default_table().start_codons()),
                str(q.complement()), pl(K.create_kmers(q.code)), pl(K.split(20)), str(g), repr(g), pl(g.code),
                plain(bs.LetterAlphabet("ACGT").decode_multiple(np.array([3, 0], dtype=np.int64))), len(bs.CodonTable.table_names()),
                str(bs.CodonTable.default_table())[:12]]
    o = sm.orfs("ATGGCTTAAATGC", sm.STANDARD_CODE, {"ATG"}, False)
    ref = call(probe)
    J("ambient", "reference_values", lambda: [ref[0], ref[1][0], ref[1][1], ref[1][6]],
      ("accept", ["ok", [p for p, _ in o], [list(x) for _, x in o], "TACCGAATTTACG"]))
    here = os.getcwd()
    saved_err = np.geterr()
    saved_print = np.get_printoptions()
    events = {
        "chdir_root": (lambda: os.chdir("/"), lambda: os.chdir(here)),
        "chdir_package_dir": (lambda: os.chdir(os.path.dirname(bs.__file__)), lambda: os.chdir(here)),
        "np_seterr_raise": (lambda: np.seterr(all="raise"), lambda: np.seterr(**saved_err)),
        "np_seterr_ignore": (lambda: np.seterr(all="ignore"), lambda: np.seterr(**saved_err)),
        "np_printoptions": (lambda: np.set_printoptions(threshold=2, edgeitems=1, precision=1, legacy="1.13"),
                            lambda: np.set_printoptions(**saved_print)),
        "env_lang": (lambda: os.environ.update(LANG="tr_TR.UTF-8", LC_ALL="C", PYTHONIOENCODING="ascii"), lambda: None),
        "recursion_limit_low": (lambda: sys.setrecursionlimit(120), lambda: sys.setrecursionlimit(1000)),
    }
    names = list(events)
    try:
        for e1 in names:
            for e2 in [None] + names:
                if e2 == e1:
                    continue
                try:
                    events[e1][0]()
                    r1 = call(probe)
                    if e2:
                        events[e2][0]()
                    r2 = call(probe)
                finally:
                    if e2:
                        events[e2][1]()
                    events[e1][1]()
                r3 = call(probe)
                J("ambient", "event_between_calls", lambda: [r1 == ref, r2 == ref, r3 == ref], ("accept", [True, True, True]), k=[e1, e2])
    finally:
        os.chdir(here)
        np.seterr(**saved_err)
        np.set_printoptions(**saved_print)
        sys.setrecursionlimit(1000)

    # ---- H: a value that can come from two places ----
    for c in sm.NUC15:
        for s in (c, "AC" + c, c + "GT"):
            pure = all(x in sm.NUC4 for x in s)
            for form in ("str", "list", "lower"):
                arg = s.lower() if form == "lower" else (list(s) if form == "list" else s)
                for flag in (None, True, False):
                    if flag is False and not pure:
                        want = ("refuse", True)
                        f = lambda: str(bs.NucleotideSequence(arg, ambiguous=flag))  # noqa: E731
                    else:
                        exp_alph = sm.NUC15 if (flag or not pure) else sm.NUC4
                        want = ("accept", None)
                        f = lambda: observe_seq(bs.NucleotideSequence(arg, ambiguous=flag), exp_alph, list(s))  # noqa: E731
                    J("NucleotideSequence()", "ambiguous_flag_vs_letters", f, want, k=[s, form, flag])
    # explicit alphabet / class versus the alphabet of a Sequence given as the symbol source
    sources = [("nuc", "ACCA"), ("nuca", "ACNA"), ("prot", "ACCA"), ("prot", "ACDA"), ("gen:TGCA", "ACCA"), ("gen:AC", "CAAC"), ("nuc", "")]
    targets = ["nuc", "nuca", "nuca_flag", "prot", "gen:TGCA", "gen:AC", "gen:CA", "generic:CA"]

    def build(spec, s):
        if spec.startswith("gen:"):
            return bs.GeneralSequence(bs.LetterAlphabet(spec[4:]), s), spec[4:]
        if spec.startswith("generic:"):
            return bs.GeneralSequence(bs.Alphabet(list(spec[8:])), s), spec[8:]
        if spec == "nuca_flag":
            return bs.NucleotideSequence(s, ambiguous=True), sm.NUC15
        q = make_seq(spec, None, s if not isinstance(s, str) else s) if isinstance(s, str) else None
        return q, seq_alphabet(spec, None)
    for sspec, s in sources:
        for tspec in targets:
            def go():
                src, _ = build(sspec, s)
                if tspec.startswith("gen:"):
                    t = bs.GeneralSequence(bs.LetterAlphabet(tspec[4:]), src)
                elif tspec.startswith("generic:"):
                    t = bs.GeneralSequence(bs.Alphabet(list(tspec[8:])), src)
                elif tspec == "nuca_flag":
                    t = bs.NucleotideSequence(src, ambiguous=True)
                elif tspec in ("nuc", "nuca"):
                    t = bs.NucleotideSequence(src)
                else:
                    t = bs.ProteinSequence(src)
                return [plain(list(t.symbols)), plain(list(t.alphabet.get_symbols())), str(src)]
            if tspec in ("nuc", "nuca"):
                talph = sm.NUC4 if all(ch in sm.NUC4 for ch in s) else sm.NUC15
                ok = all(ch in sm.NUC15 for ch in s)
            elif tspec == "nuca_flag":
                talph, ok = sm.NUC15, all(ch in sm.NUC15 for ch in s)
            elif tspec == "prot":
                talph, ok = sm.PROT24, all(ch in sm.PROT24 for ch in s)
            else:
                talph = tspec.split(":")[1]
                ok = all(ch in talph for ch in s)
            J("Sequence()", "symbols_from_sequence_of_other_alphabet", go,
              ("accept", [list(s), list(talph), s]) if ok else ("refuse", True), k=[sspec, s, tspec])
    # copy(new_seq_code) : the explicit code wins over the object's own; the object is left alone
    for cls, s, codes in (("nuc", "ACGT", [3, 3]), ("nuc", "ACGT", []), ("prot", "MK", [23, 0, 1]), ("nuca", "NN", [0, 14, 4])):
        alph = seq_alphabet(cls, None)
        for dt in ("uint8", "int64"):
            J("Sequence.copy", "explicit_code_vs_own", lambda: (lambda q: [str(q.copy(np.array(codes, dtype=dt))), str(q), type(q.copy(np.array(codes, dtype=dt))) is type(q)])(make_seq(cls, None, s)),
              ("accept", ["".join(alph[c] for c in codes), s, True]), k=[cls, s, codes, dt])
    # dtype argument of encode_multiple: honoured by Alphabet, documented as ignored by LetterAlphabet (values only)
    A = bs.Alphabet(["x", "y", "z"])
    for dt in ("uint8", "int32", "int64", "uint64"):
        J("Alphabet.encode_multiple", "dtype_argument", lambda: (lambda r: [pl(r), r.dtype.name])(A.encode_multiple(["z", "x"], dtype=np.dtype(dt))), ("accept", [[2, 0], dt]), k=dt)
        J("LetterAlphabet.encode_multiple", "dtype_argument_ignored", lambda: pl(bs.LetterAlphabet("xyz").encode_multiple("zx", dtype=np.dtype(dt))), ("accept", [2, 0]), k=dt)
    # explicit codon table versus the module default, met_start versus complete
    for s in ("TTGAAATAG", "ATGTTGTAA", "CTGATG"):
        q = bs.NucleotideSequence(s)
        for tid in ("default", 1, 11, "syn1"):
            t, aa, starts = get_table(tid)
            o = sm.orfs(s, aa, starts, False)
            J("NucleotideSequence.translate", "explicit_table_vs_default", lambda: [[str(p) for p in q.translate(codon_table=t)[0]], [str(p) for p in q.translate()[0]],
                                                                                    [str(p) for p in q.translate(complete=False, codon_table=None)[0]]],
              ("accept", [[p for p, _ in o], [p for p, _ in sm.orfs(s, sm.STANDARD_CODE, {"ATG"}, False)]] + [[p for p, _ in sm.orfs(s, sm.STANDARD_CODE, {"ATG"}, False)]]), k=[s, tid])
            if len(s) % 3 == 0:
                J("NucleotideSequence.translate", "met_start_with_complete", lambda: [str(q.translate(complete=True, codon_table=t, met_start=m)) for m in (False, True)],
                  ("accept", [sm.translate_complete(s, aa)] * 2), k=[s, tid])
    # as_bytes of the single-symbol decode is undocumented: counted only
    r = call(lambda: bs.LetterAlphabet("AC").decode(1, as_bytes=True))
    judge(ctx, "LetterAlphabet.decode", "as_bytes_argument", lambda: aud_case(fam, label="as_bytes"), r, ("free",))

    # ---- I: boundaries of selection policies ----
    # common_alphabet(): "the alphabet from `alphabets` that extends all alphabets, None if no such alphabet exists"
    pool = {"AC": bs.LetterAlphabet("AC"), "AC2": bs.LetterAlphabet("AC"), "ACG": bs.LetterAlphabet("ACG"), "ACGT": bs.Alphabet(list("ACGT")),
            "CA": bs.LetterAlphabet("CA"), "ACT": bs.Alphabet(["A", "C", "T"])}
    syms = {"AC": "AC", "AC2": "AC", "ACG": "ACG", "ACGT": "ACGT", "CA": "CA", "ACT": "ACT"}
    for n in (0, 1, 2, 3):
        for names_ in itertools.permutations(pool, n):
            def go():
                res = bs.common_alphabet([pool[x] for x in names_])
                if res is None:
                    return None
                return ["".join(res.get_symbols()), any(res is pool[x] for x in names_)]
            winners = [x for x in names_ if all(syms[x][:len(syms[y])] == syms[y] for y in names_)]
            if not names_:
                want = ("either", None)
            elif winners:
                want = ("accept", [syms[winners[0]], True])      # all winners carry the same symbols (ties = equal alphabets)
            else:
                want = ("accept", None)
            J("common_alphabet", "ties_none_first_not_winner", go, want, k=list(names_))
    # first stop / first start selection at its boundaries, with tables where everything or nothing is a stop / start
    aa_allstop = {c: ("*" if c != "ATG" else "M") for c in sm.ALL_CODONS}
    aa_nostop, _ = synthetic("syn4")
    tabs = {"all_stop_but_ATG": (aa_allstop, ["ATG"]), "no_stop_all_start": (aa_nostop, list(sm.ALL_CODONS)),
            "no_stop_one_start": (aa_nostop, ["AAA"]), "std_all_sense_start": (dict(sm.STANDARD_CODE), [c for c in sm.ALL_CODONS if sm.STANDARD_CODE[c] != "*"])}
    for tname, (aa, st) in tabs.items():
        t = bs.CodonTable(dict(aa), list(st))
        for L in range(0, 8):
            for p in itertools.product("ATG" if L > 5 else "ATGA"[:3] + "C" if L > 3 else "ACGT", repeat=L):
                s = "".join(p)
                for met in (False, True):
                    o = sm.orfs(s, aa, set(st), met)
                    r = call(lambda: (lambda ps, pos: [[str(x) for x in ps], [list(map(int, x)) for x in pos]])(*bs.NucleotideSequence(s).translate(codon_table=t, met_start=met)))
                    judge(ctx, "NucleotideSequence.translate", "boundary_table|" + tname, lambda: aud_case(fam, label="boundary_table", table=tname, s=s, met=met), r,
                          ("accept", [[x for x, _ in o], [list(x) for _, x in o]]), 1 if o else 0)
    # alphabets with repeated symbols: which of the tied codes encode() picks is outside the statement (bijection) - counted
    for symsd in (["A", "B", "A"], ["A", "A"], [1, True, 1.0]):
        r = call(lambda: [bs.Alphabet(symsd).encode(symsd[0]), bs.Alphabet(symsd).decode(0)])
        judge(ctx, "Alphabet.encode", "repeated_symbol", lambda: aud_case(fam, label="repeated"), r, ("free",))
    ctx.sample(aud_case(fam, site="ambient", label="event_between_calls", k=["chdir_root", "np_seterr_raise"]))


AUDIT_FAMS["third"] = fam_third


# ---------------------------------------------------------------------------
# round-5 seed: binary operations between sequences whose alphabets have different code widths
# ---------------------------------------------------------------------------
WIDTH_SIZES = (2, 255, 256, 257, 300, 65536, 65537)


def _width_symbol(i):
    return 3 * i + 7          # never equal to its own code


def _width_seqs(k):
    """code lists over an alphabet of k symbols: boundary codes alone and in first / inner / last position"""
    edge = sorted({0, 1, 254, 255, 256, 257, 65535, 65536, k - 1} & set(range(k)))
    fill = 1 % k
    out = [[]]
    for c in edge:
        out += [[c], [c, fill, fill], [fill, c, fill], [fill, fill, c]]
    return out


def fam_widths(ctx):
    import biotite.sequence as bs

    fam = "widths"
    alphs = {k: bs.Alphabet([_width_symbol(i) for i in range(k)]) for k in WIDTH_SIZES}
    seqs = {k: _width_seqs(k) for k in WIDTH_SIZES}
    syms = lambda codes: [_width_symbol(c) for c in codes]  # noqa: E731

    def seq_of(k, codes):
        return bs.GeneralSequence(alphs[k], syms(codes))

    def views(q, k, codes):
        """None if q reads as the symbol list of `codes` over alphabet k, else the first difference"""
        exp = syms(codes)
        if len(q) != len(exp):
            return ["len", len(exp), len(q)]
        if not same_syms(pl(list(q.symbols)), exp):
            return ["symbols", exp[:6], pl(list(q.symbols))[:6]]
        if pl(q.code) != list(codes):
            return ["code", list(codes)[:6], pl(q.code)[:6]]
        if not same_syms([q[i] for i in range(len(exp))], exp):
            return ["getitem", exp[:6], None]
        if len(q.alphabet) != k:
            return ["alphabet size", k, len(q.alphabet)]
        return None

    def J(site, ka, kb, a, b, f, want):
        r = call(f)
        if r[0] == "ok":
            r = ("ok", plain(r[1]))
        wa, wb = ("w8" if ka <= 256 else "w16" if ka <= 65536 else "w32"), ("w8" if kb <= 256 else "w16" if kb <= 65536 else "w32")
        judge(ctx, site, "%s_%s" % (wa, wb), lambda: aud_case(fam, site=site, ka=ka, kb=kb, a=a, b=b), r, want, 1)
        ctx.outcome((site, ka, kb, r[:2] if r[0] == "ok" else r[1]))

    for ka in WIDTH_SIZES:
        for kb in WIDTH_SIZES:
            kmax = max(ka, kb)
            right = seqs[kb] if kb != ka else seqs[kb][:9]
            for a in seqs[ka]:
                for b in right:
                    # a + b : symbols concatenated, alphabet of the extending operand, operands untouched
                    def add():
                        x, y = seq_of(ka, a), seq_of(kb, b)
                        r = x + y
                        return [views(r, kmax, a + b), views(x, ka, a), views(y, kb, b)]
                    J("Sequence.__add__", ka, kb, a, b, add, ("accept", [None, None, None]))
                if len(a) != 3:
                    continue
                for b in right:
                    if len(b) not in (1, 3):
                        continue
                    # a[:] = b / a[0:1] = b[:1]  (Sequence item over the other alphabet): symbols kept or refused, never changed
                    fits = all(c < ka for c in b)

                    def assign():
                        x, y = seq_of(ka, a), seq_of(kb, b)
                        try:
                            x[0:len(b)] = y
                        except Exception:  # noqa: BLE001
                            return ["refused", views(x, ka, a), views(y, kb, b)]
                        return ["ok", views(x, ka, b + a[len(b):]), views(y, kb, b)]
                    J("Sequence.__setitem__", ka, kb, a, b, assign, ("accept", ["ok" if fits else "refused", None, None]))

                    # == between the two (same symbols / different symbols); across alphabets the statement is silent
                    def eq():
                        x, y = seq_of(ka, a), seq_of(kb, b)
                        return [bool(x == y), bool(y == x)]
                    if ka == kb:
                        J("Sequence.__eq__", ka, kb, a, b, eq, ("accept", [a == b, a == b]))
                    else:
                        J("Sequence.__eq__", ka, kb, a, b, eq, ("free",))
            # whole-sequence forms, one per code list of the other alphabet
            for b in seqs[kb]:
                fits = all(c < ka for c in b)
                # a sequence of alphabet A built from a Sequence over B
                J("Sequence()", ka, kb, None, b, lambda: views(bs.GeneralSequence(alphs[ka], seq_of(kb, b)), ka, b),
                  ("accept", None) if fits else ("refuse", True))
                # copy(new_seq_code) and code= with the code array of a sequence of the other width
                for site, f in (("Sequence.copy", lambda: seq_of(ka, [0]).copy(seq_of(kb, b).code)),
                                ("Sequence.code=", lambda: (lambda q: (setattr(q, "code", seq_of(kb, b).code), q)[1])(seq_of(ka, [0])))):
                    def go(f=f):
                        try:
                            q = f()
                        except Exception:  # noqa: BLE001
                            return "refused"
                        if fits:
                            return views(q, ka, b)
                        v = call(lambda: pl(list(q.symbols)))
                        return "unreadable" if v[0] == "exc" else ["wrong symbols", v[1][:6]]
                    if fits:
                        J(site, ka, kb, None, b, go, ("accept", None))
                    else:
                        r = call(go)
                        ctx.ev(1, 1)
                        ctx.count("unspecified")
                        if r != ("ok", "refused") and r != ("ok", "unreadable"):
                            ctx.violation("%s|value_for_invalid_code|widths" % site, "code beyond the alphabet neither refused nor unreadable",
                                          aud_case(fam, site=site, ka=ka, kb=kb, b=b), "refused or unreadable", plain(r[1]) if r[0] == "ok" else list(r))
                # as_type(): documented - the target alphabet must equal or extend the source's, else AlphabetError
                def astype():
                    t = bs.GeneralSequence(alphs[ka])
                    r = seq_of(kb, b).as_type(t)
                    return [r is t, views(t, ka, b)]
                J("GeneralSequence.as_type", ka, kb, None, b, astype, ("accept", [True, None]) if ka >= kb else ("refuse", True))
                # the mapper between the two (no mapping needed when A extends B) keeps the symbols
                if ka >= kb:
                    def mapped():
                        mp = bs.AlphabetMapper(alphs[kb], alphs[ka])
                        t = bs.GeneralSequence(alphs[ka])
                        t.code = mp[seq_of(kb, b).code]
                        return views(t, ka, b)
                    J("AlphabetMapper[]", ka, kb, None, b, mapped, ("accept", None))
    ctx.sample(aud_case(fam, site="Sequence.__add__", ka=255, kb=257, a=[254, 1, 1], b=[1, 256, 1]))


AUDIT_FAMS["widths"] = fam_widths
