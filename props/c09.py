"""C09 - heuristic alignments (banded, seeded gapped X-drop, seeded ungapped) are valid,
honestly scored and never above the optimum.

E2: complete enumeration of short sequence pairs x listed matrices x listed gap penalties x
every band / every seed x thresholds x directions, executed on the real functions and
compared with the brute-force optima of mc/models/align.py (shared with C08).
"""

import json

ID = "C09"
LEVEL = "model_checking"
RULE = (
    "banded: every ordered pair of non-empty sequences up to the length bound x listed matrix families (one "
    "listed variant / code embedding per VERIF_SEED) x listed gap penalties x every band (lo, hi) with "
    "-(n+1) <= lo <= hi <= m+1 (reversed order and max_number 1 (thorough: 1, 2) on the listed sub-palettes) x "
    "{semi-global, local}; seeded gapped: pairs x every in-range seed x thresholds x directions x listed "
    "strictly negative penalties, each as full call (max_number 1000), score_only call and, on the listed "
    "sub-palette, max_number=1 and max_table_size in {1, 10}; every out-of-range seed of a one-step frame must "
    "be refused; ungapped: the same without gaps. Oracle: validity, rescoring with the documented model "
    "(semi-global traces completed by the unaligned ends of both sequences), brute-force optimum of the "
    "unrestricted problem as upper bound, equality when the band covers every diagonal / the threshold cannot "
    "bind, band containment, seed containment and direction, score_only agreement. Each case is executed once; a "
    "case is non-trivial when the returned alignment is non-empty and either contains a gap column, or the "
    "restriction is active (band does not cover the table / threshold may bind / direction is one-sided), or "
    "several alignments are returned. Size-switch family 'long': align_local_gapped on every pair of the listed "
    "lengths around the initial table capacity (regions of 98..204 symbols: exact fit, growth of rows only, columns "
    "only, both, two growth steps) x seeds at start / middle / end x 3 directions x linear and affine penalty x "
    "thresholds {10^6, 6}, full + score_only call, oracle = O(nm) reference DP (cross-checked against the "
    "enumeration in the same shard); for threshold 10^6 the smallest accepted max_table_size is located by bisection "
    "and both sides of it are executed with and without traceback tables; plus align_local_ungapped (uint8 and "
    "generic path) and align_banded on the same long pairs; non-trivial there = a table had to grow. Audit families "
    "(kind 'audit'): object flavours and library sequence classes (as in C08) through the complete oracle for all "
    "three functions on all pairs of length 1..2; argument-order mirror for every band / seed; aliasing, reuse and "
    "refused calls (differential); band / seed / threshold / penalty / max_number given as numpy scalars, lists or "
    "arrays (unspecified: exception or the plain result)."
)
ASSUMPTIONS = [
    "matrix entries stay far from the int32 range (largest entry 100000)",
    "empty sequences and bands that contain no cell of the table are unspecified inputs (EITHER): a clean "
    "exception or a result that passes every check",
    "positive gap penalties (banded), non-negative gap penalties (seeded gapped), negative thresholds and seeds "
    "outside the sequences are documented as invalid and must raise",
    "max_table_size: MemoryError or the result of the unlimited call (table growth is an implementation detail)",
    "threshold 'cannot bind' is decided from the documented rule only (stop where the score falls MORE than the "
    "threshold below the maximum found): gapped - some optimal extension path has every non-empty prefix score >= "
    "optimum - threshold (the maximum found never exceeds the optimum, so such a path cannot be cut in any "
    "exploration order); ungapped - threshold >= the largest drawdown of the running score below its running "
    "maximum along the complete diagonal arm",
    "semi-global completion: unaligned prefix and suffix of BOTH sequences are added as gap columns before "
    "rescoring; when the order of two prefixes / the side of a sequence that does not occur in the trace is "
    "ambiguous, every completion is tried and one match suffices",
    "audit families: read-only code arrays are legal input; f(a, b, M, x) == f(b, a, M.transpose(), mirrored x) in "
    "the reported score is demanded as a differential relation (both calls are instances of the same documented problem); "
    "non-int argument types are unspecified (EITHER)",
    "long family: the initial capacity 100 x 100 of the tables of align_local_gapped (INIT_SIZE) is taken from the "
    "source, only to place the lengths on both sides of the switch and to know which calls have to grow a table; the "
    "max_table_size oracle itself is policy-free: MemoryError is demanded when the limit is below the (a+1)(b+1) "
    "cells of a completely explored region that needs growth, the unlimited result when it is >= 4x the explored "
    "cells, MemoryError-or-identical in between, and monotone behaviour around the located switch point; while "
    "the family runs the worker's address space is capped at 3 GB so that runaway growth shows as a violation",
    "the number of returned alignments <= max_number is documented for all three functions and checked under its "
    "own failure mode (too_many); duplicates in the list are not a violation of C09",
]
EXHAUSTIVE = True
SHARD_TIMEOUT = {"quick": 600, "thorough": 2400}

THRESHOLDS = (0, 1, 3, 10**6)
IMPOSSIBLE = 10**8  # no alignment of <= 5 symbols with entries <= 10^5 scores beyond this
DIRECTIONS = ("both", "upstream", "downstream")
DTYPES = ["uint8", "uint16", "uint32", "uint64"]


def _cfg(tier):
    from mc.models import align_inputs as I

    if tier == "quick":
        return {
            "banded": [
                # k: letters of sequence 1 / 2; len: maximal lengths; long_only: only pairs with a member of maximal length
                {"k": [2, 2], "len": [3, 3], "fams": ["std", "allneg", "zero", "asym", "negident"],
                 "gaps": [0, -1, -3, (-1, -1), (-2, -1), (0, -2)], "long_only": False},
                {"k": [2, 2], "len": [4, 4], "fams": ["std"], "gaps": [-1, (-2, -1)], "long_only": True},
                {"k": [2, 3], "len": [3, 2], "fams": ["rect", "rectneg"], "gaps": [-1, (-2, -1), 0],
                 "long_only": False},
            ],
            "banded_extra_maxnum_fams": ["std"],
            "banded_extra_maxnum": [1],
            "banded_reversed_fams": ["asym", "rect"],
            "gapped": [
                {"k": [2, 2], "len": [3, 3], "fams": ["std", "allneg", "zero", "asym"], "gaps": I.GAPS_NEG,
                 "long_only": False},
                {"k": [2, 2], "len": [4, 4], "fams": ["std"], "gaps": [-1, (-2, -1)], "long_only": True},
                {"k": [2, 3], "len": [3, 2], "fams": ["rect"], "gaps": [-1, (-2, -1)], "long_only": False},
            ],
            "gapped_extra_fams": ["std", "rect"],
            "ungapped": [
                {"k": [2, 2], "len": [4, 4], "fams": ["std", "allneg", "asym", "large"]},
                {"k": [3, 3], "len": [3, 3], "fams": ["std", "asym"]},
                {"k": [2, 3], "len": [3, 3], "fams": ["rect", "rectneg"]},
            ],
            "width_len": 2,
        }
    all7 = ["std", "ident", "negident", "allneg", "zero", "asym", "large"]
    return {
        "banded": [
            {"k": [2, 2], "len": [3, 3], "fams": all7, "gaps": I.GAPS, "long_only": False},
            {"k": [2, 2], "len": [4, 4], "fams": ["std", "allneg", "zero", "asym", "negident"],
             "gaps": [0, -1, (-1, -1), (-2, -1), (0, -2)], "long_only": True},
            {"k": [2, 2], "len": [5, 5], "fams": ["std"], "gaps": [-1, (-2, -1)], "long_only": True},
            {"k": [2, 3], "len": [3, 3], "fams": ["rect", "rectneg"], "gaps": [-1, (-2, -1), 0, (0, -2)],
             "long_only": False},
            {"k": [3, 3], "len": [3, 3], "fams": ["std", "asym", "allneg"], "gaps": [-1, (-2, -1), 0],
             "long_only": False},
        ],
        "banded_extra_maxnum_fams": ["std", "allneg", "zero"],
        "banded_extra_maxnum": [1, 2],
        "banded_reversed_fams": ["asym", "rect"],
        "gapped": [
            {"k": [2, 2], "len": [4, 4], "fams": ["std", "allneg", "zero", "asym", "large"], "gaps": I.GAPS_NEG,
             "long_only": False},
            {"k": [2, 2], "len": [5, 5], "fams": ["std"], "gaps": [-1, (-2, -1)], "long_only": True},
            {"k": [2, 3], "len": [3, 3], "fams": ["rect", "rectneg"], "gaps": [-1, (-2, -1), (-1, -2)],
             "long_only": False},
            {"k": [3, 3], "len": [3, 3], "fams": ["std", "asym"], "gaps": [-1, (-2, -1)], "long_only": False},
        ],
        "gapped_extra_fams": ["std", "rect", "asym"],
        "ungapped": [
            {"k": [2, 2], "len": [5, 5], "fams": all7},
            {"k": [3, 3], "len": [4, 4], "fams": ["std", "asym"]},
            {"k": [2, 3], "len": [4, 3], "fams": ["rect", "rectneg"]},
        ],
        "width_len": 3,
    }


def bounds(tier):
    from mc.models import align_inputs as I

    c = _cfg(tier)

    def j(groups):
        return [{**g, "gaps": [I.gap_json(x) for x in g["gaps"]]} if "gaps" in g else g for g in groups]

    return {"banded": j(c["banded"]), "gapped": j(c["gapped"]), "ungapped": c["ungapped"],
            "bands": "every (lo, hi), -(n+1) <= lo <= hi <= m+1; reversed order for families %s; max_number %s "
                     "additionally for families %s (first group)" % (c["banded_reversed_fams"],
                                                                     c["banded_extra_maxnum"],
                                                                     c["banded_extra_maxnum_fams"]),
            "thresholds": list(THRESHOLDS), "directions": list(DIRECTIONS),
            "seeds": "every in-range seed; out-of-range frame -1..len in each coordinate must raise",
            "max_table_size": [None, 1, 10], "code_width_pairs": 15, "width_len": c["width_len"],
            "long": {"lengths_each_sequence": LONG_LENS[tier], "initial_table_capacity_assumed": LONG_INIT,
                     "gaps": [I.gap_json(g) for g in LONG_GAPS], "thresholds": list(LONG_THRESHOLDS),
                     "seeds": "start, middle, end" + (" + 2 off-corner" if tier == "thorough" else ""),
                     "max_table_size": "None; largest refused / smallest accepted value found by bisection between "
                                       "(cells of the fully explored region) - 1 and 4 x that",
                     "also": "align_local_ungapped (uint8 fast path and uint16 generic path) and align_banded "
                             "(local, semi-global linear; full / narrow / partly outside band) on the same pairs"}}


def _npairs(k, ln, long_only):
    a = sum(k[0] ** i for i in range(1, ln[0] + 1))
    b = sum(k[1] ** i for i in range(1, ln[1] + 1))
    if long_only:
        a2 = sum(k[0] ** i for i in range(1, ln[0]))
        b2 = sum(k[1] ** i for i in range(1, ln[1]))
        return a * b - a2 * b2
    return a * b


# --- size-switch family -----------------------------------------------------------------
# align_local_gapped starts with tables of at most LONG_INIT x LONG_INIT cells (INIT_SIZE in localgapped.pyx) and
# grows them while it extends; region = part of a sequence before / behind the seed.  A region of length r needs
# r + 1 rows (columns): lengths 99 | 100 straddle the switch, >= 200 needs a second growth step.
LONG_INIT = 100
LONG_LENS = {"quick": [100, 101, 102, 205], "thorough": [99, 100, 101, 102, 150, 205]}
LONG_GAPS = [-2, (-3, -1)]
LONG_THRESHOLDS = (10**6, 6)
LONG_PATTERN = (0, 0, 1, 0, 1, 1, 0, 1, 1, 1, 0)


def long_letters(n, which):
    """Sequence 1: an 11-periodic pattern; sequence 2: the same with 6 substitutions, one deletion (before
    position 100) and one insertion (behind it), so that the best alignment leaves the main diagonal twice."""
    base = [LONG_PATTERN[i % len(LONG_PATTERN)] for i in range(n + 8)]
    if which == 2:
        for pos in (20, 64, 99, 100, 140, 180):
            base[pos % len(base)] ^= 1
        del base[37]
        base.insert(120 % len(base), 1 - base[120 % len(base)])
    return tuple(base[:n])


def long_seeds(n, m, tier):
    sd = [(0, 0), (n // 2, min(m - 1, n // 2)), (n - 1, m - 1)]
    if tier == "thorough":
        sd += [(2, 1), (n - 3, m - 2)]
    return sd


def shards(tier, seed):
    c = _cfg(tier)
    variant = seed % 3
    embed = seed % 4
    out = []
    for n in LONG_LENS[tier]:
        out.append({"kind": "long", "n": n, "variant": variant, "embed": embed})
    for sub in ("flavours_banded", "flavours_seeded", "library", "mirror", "alias", "argument_types",
                "palette_embeddings", "palette_variants", "palette_combos", "identity", "resize", "derived",
                "alphabet_fit"):
        out.append({"kind": "audit", "sub": sub, "variant": variant, "embed": embed})
    per = {"banded": 12, "gapped": 24, "ungapped": 75}
    for kind in ("banded", "gapped", "ungapped"):
        for gi, g in enumerate(c[kind]):
            np_ = _npairs(g["k"], g["len"], g.get("long_only", False))
            ngaps = len(g.get("gaps", [1]))
            # pairs per shard shrink with the number of gap penalties and with the length
            w = per[kind] * 6.0 / max(1, ngaps)
            if max(g["len"]) >= 4 and kind != "ungapped":
                w /= 2.5
            if max(g["len"]) >= 5 and kind != "ungapped":
                w /= 2
            parts = max(1, round(np_ / max(1.0, w)))
            for fam in g["fams"]:
                for part in range(parts):
                    out.append({"kind": kind, "group": gi, "fam": fam, "variant": variant, "embed": embed,
                                "part": part, "parts": parts})
    for d1 in DTYPES:
        for d2 in DTYPES:
            if d1 == "uint8" and d2 == "uint8":
                continue
            out.append({"kind": "width", "dtypes": [d1, d2], "variant": variant, "embed": embed})
    out.append({"kind": "refuse", "variant": variant, "embed": embed})
    order = {"long": -1, "audit": -2, "banded": 0, "gapped": 1, "width": 2, "ungapped": 3, "refuse": 4}
    out.sort(key=lambda s: order[s["kind"]])
    return out


# ---------------------------------------------------------------------------
# helpers
# ---------------------------------------------------------------------------
def _brute(env, c1, c2, gap, mode):
    """(optimum, exists an optimal alignment that pairs >= 1 position), memoised per shard env."""
    from mc.models import align as A

    memo = env.__dict__.setdefault("_memo_brute", {})
    k = (c1, c2, gap, mode)
    r = memo.get(k)
    if r is None:
        if len(memo) > 200000:
            memo.clear()
        opt, sc, sp = A.brute(c1, c2, env.mat, gap, mode)
        pairs_opt = bool(((sc == opt) & (sp.pairs > 0)).any())
        d = A.dp_opt(c1, c2, env.mat, gap, mode)
        if d != opt:
            raise RuntimeError("reference models disagree: brute=%r dp=%r for %r" % (opt, d, (c1, c2, gap, mode)))
        r = memo[k] = (opt, pairs_opt)
    return r


def _seeded(env, c1, c2, gap, seed, direction):
    """(best seed-containing score, smallest threshold that provably cannot bind), memoised."""
    from mc.models import align as A

    memo = env.__dict__.setdefault("_memo_seeded", {})
    k = (c1, c2, gap, seed, direction)
    r = memo.get(k)
    if r is None:
        if len(memo) > 100000:
            memo.clear()
        r = memo[k] = A.seeded_opt_need(c1, c2, env.mat, gap, seed, direction,
                                        env.__dict__.setdefault("_memo_regions", {}))
        if r[0] != A.seeded_opt(c1, c2, env.mat, gap, seed, direction):
            raise RuntimeError("reference models disagree on the seeded optimum")
    return r


def _readonly_refused(env, e):
    return getattr(env, "seq_flavour", "") == "readonly_code" and isinstance(e, ValueError) and "read-only" in str(e)


def _cols_json(t):
    return [list(c) for c in t]


def _has_gap(t):
    return any(i == -1 or j == -1 for i, j in t)


def _traces(res):
    from mc.models import align_inputs as I

    out = []
    for a in res:
        if a.trace.ndim != 2 or a.trace.shape[1] != 2:
            return None
        out.append(I.trace_cols(a.trace))
    return out


def _same_inputs(a, s1, s2, c1, c2):
    return len(a.sequences) == 2 and (a.sequences[0] is s1 or tuple(int(x) for x in a.sequences[0].code) == c1) \
        and (a.sequences[1] is s2 or tuple(int(x) for x in a.sequences[1].code) == c2)


# ---------------------------------------------------------------------------
# banded
# ---------------------------------------------------------------------------
def all_bands(n, m):
    return [(lo, hi) for lo in range(-(n + 1), m + 2) for hi in range(lo, m + 2)]


def band_has_cell(n, m, lo, hi):
    return any(lo <= j - i <= hi for i in range(n) for j in range(m))


def leading_gap_explains(t, c1, c2, mat, gap, n, m, reported):
    """Diagnosis used only to name the failure mode: does the reported score become the honest
    score when the FIRST column of the returned trace is read as a gap column (one of the two
    symbols against a gap, the other symbol moved to the unaligned prefix)?"""
    from mc.models import align as A

    if not t or t[0][0] == -1 or t[0][1] == -1:
        return False
    i, j = t[0]
    for first in ((i, -1), (-1, j)):
        t2 = (first,) + tuple(t[1:])
        if A.trace_problem(t2, n, m, False) is not None:
            continue
        for comp in A.completions(t2, n, m):
            if A.score_cols(comp, c1, c2, mat, gap, False) == reported:
                return True
    return False


def check_banded(ctx, env, l1, l2, band, gap, local, max_number, either=False):
    import biotite.sequence.align as balign

    from mc.models import align as A
    from mc.models import align_inputs as I

    c1, c2 = env.codes(1, l1), env.codes(2, l2)
    s1, s2 = env.seq(1, l1), env.seq(2, l2)
    n, m = len(c1), len(c2)
    mode = "local" if local else "semi"
    case = {"kind": "banded", **env.describe(), "s1": list(l1), "s2": list(l2), "band": list(band),
            "gap": I.gap_json(gap), "local": local, "max_number": max_number}
    cls = "%s|%s" % (mode, I.gap_class(gap))
    if either:
        cls += "|unspecified_input"
    ctx.ev(1, 0)

    def viol(fm, what, expected=None, observed=None):
        ctx.violation("align_banded|%s|%s" % (fm, cls), what, case, expected, observed)

    try:
        res = balign.align_banded(s1, s2, env.matrix, band, gap_penalty=gap, local=local, max_number=max_number)
    except Exception as e:  # noqa: BLE001
        if either:
            ctx.count("unspecified_raised")
            ctx.outcome(("banded_exc", type(e).__name__))
            return
        if _readonly_refused(env, e):
            ctx.violation("align_banded|readonly_code_refused|any", "a sequence whose code array is read-only is refused: "
                          + str(e)[:100], case, "a result", type(e).__name__)
            return
        viol("exception_%s" % type(e).__name__, "legal input raised %s: %s" % (type(e).__name__, str(e)[:200]),
             "a list of alignments", type(e).__name__)
        return
    ctx.count("unspecified_returned" if either else "accepted")
    if not isinstance(res, list) or not res:
        viol("no_result", "no alignment returned", ">= 1 alignment", repr(res)[:100])
        return
    traces = _traces(res)
    if traces is None:
        viol("invalid_trace", "trace is not a (k, 2) array")
        return
    opt, pairs_opt = _brute(env, c1, c2, gap, mode)
    lo, hi = min(band), max(band)
    full = lo <= -(n - 1) and hi >= m - 1
    seen = {}
    for a, t in zip(res, traces):
        sc = int(a.score)
        if (t, sc) in seen:
            continue
        seen[(t, sc)] = True
        if not _same_inputs(a, s1, s2, c1, c2):
            viol("wrong_sequences", "returned alignment does not hold the two inputs in order")
            return
        if abs(sc) > IMPOSSIBLE:
            viol("score_impossible_magnitude", "reported score is far outside the range any alignment of these inputs "
                 "can have (about +-2^31: arithmetic on the int32 'minus infinity' sentinel wrapped around)",
                 "|score| <= %d" % IMPOSSIBLE, [sc, _cols_json(t)])
            return
        prob = A.trace_problem(t, n, m, False)
        if prob is not None:
            viol("invalid_trace", "returned trace is not a valid alignment: " + prob, "valid alignment", _cols_json(t))
            return
        if local:
            rs = [A.score_cols(t, c1, c2, env.mat, gap, True)]
        else:
            rs = [A.score_cols(comp, c1, c2, env.mat, gap, False) for comp in A.completions(t, n, m)]
        if sc not in rs:
            if not local and leading_gap_explains(t, c1, c2, env.mat, gap, n, m, sc):
                fm = "rescore_mismatch_first_column_was_scored_as_gap"
            else:
                fm = "rescore_mismatch_reported_%s" % ("higher" if sc > max(rs) else "lower")
            viol(fm, "score recomputed from the returned trace (completed by the unaligned ends) differs from the "
                     "reported score", sc, [rs, _cols_json(t)])
            return
        if sc > opt:
            fm = "score_above_optimum"
            if not local and A.is_affine(gap):
                # diagnosis (names the failure mode only): admissible if gaps of the two sequences may abut?
                comps = [c for c in A.completions(t, n, m) if A.score_cols(c, c1, c2, env.mat, gap, False) == sc]
                if comps and all(A.has_abutting_gaps(c) for c in comps) \
                        and sc <= A.brute(c1, c2, env.mat, gap, mode, forbid_abut=False)[0]:
                    fm = "score_above_optimum_by_gap_abutting_free_end_gap"
            viol(fm, "reported score exceeds the optimum of the unrestricted problem", opt, [sc, _cols_json(t)])
            return
        if full and pairs_opt and sc != opt:
            viol("full_band_not_optimal", "band covers every diagonal but the optimum is not reached", opt,
                 [sc, _cols_json(t)])
            return
        for i, j in t:
            if i != -1 and j != -1 and not (lo <= j - i <= hi):
                viol("pair_outside_band", "paired positions lie on a diagonal outside the band", [lo, hi],
                     [[i, j], _cols_json(t)])
                return
    if len(res) > max_number:
        viol("too_many", "more alignments than max_number returned", max_number, len(res))
    nonempty = any(traces)
    nontriv = nonempty and (any(_has_gap(t) for t in traces) or not full or len(seen) > 1)
    ctx.ev(0, 1 if nontriv else 0)
    ctx.outcome(("banded", int(res[0].score), len(res), traces[0]))
    if nontriv and len(ctx.samples) < 1 and len(seen) > 1 and not full:
        ctx.sample({**case, "optimum_unrestricted": opt, "returned": [[int(a.score), _cols_json(t)]
                                                                       for a, t in zip(res, traces)][:3]})


def run_banded(shard, ctx):
    from mc.models import align_inputs as I

    c = _cfg(ctx.tier)
    g = c["banded"][shard["group"]]
    k1, k2 = g["k"]
    env = I.Env(k1, k2, shard["fam"], shard["variant"], shard["embed"])
    extra_mn = shard["fam"] in c["banded_extra_maxnum_fams"] and shard["group"] == 0
    rev = shard["fam"] in c["banded_reversed_fams"]
    idx = -1
    for l1 in I.sequences(k1, g["len"][0], 1):
        for l2 in I.sequences(k2, g["len"][1], 1):
            if g["long_only"] and len(l1) < g["len"][0] and len(l2) < g["len"][1]:
                continue
            idx += 1
            if idx % shard["parts"] != shard["part"]:
                continue
            n, m = len(l1), len(l2)
            for band in all_bands(n, m):
                either = not band_has_cell(n, m, band[0], band[1])
                for gap in g["gaps"]:
                    for local in (False, True):
                        check_banded(ctx, env, l1, l2, band, gap, local, 1000, either)
                        if extra_mn and not either:
                            for mn in c["banded_extra_maxnum"]:
                                check_banded(ctx, env, l1, l2, band, gap, local, mn, False)
                        if rev and band[0] != band[1]:
                            check_banded(ctx, env, l1, l2, (band[1], band[0]), gap, local, 1000, either)
    _mutated(ctx, env, "align_banded")


def _mutated(ctx, env, site):
    bad = env.mutated()
    if bad:
        ctx.violation("%s|inputs_mutated|any" % site, "an input sequence was modified", {"kind": "mutated",
                      **env.describe(), "which": bad[:3]}, None, None)


# ---------------------------------------------------------------------------
# seeded gapped
# ---------------------------------------------------------------------------
def _seed_checks(t, seed, direction):
    """Seed containment and direction for a valid trace."""
    seed = tuple(seed)
    if seed not in t:
        return "seed_missing", "the seed pair is not part of the alignment"
    if direction == "upstream" and t[-1] != seed:
        return "extends_downstream", "upstream alignment does not end at the seed"
    if direction == "downstream" and t[0] != seed:
        return "extends_upstream", "downstream alignment does not start at the seed"
    return None


def check_gapped(ctx, env, l1, l2, seed, threshold, gap, direction, extra=False):
    import biotite.sequence.align as balign

    from mc.models import align as A
    from mc.models import align_inputs as I

    c1, c2 = env.codes(1, l1), env.codes(2, l2)
    s1, s2 = env.seq(1, l1), env.seq(2, l2)
    n, m = len(c1), len(c2)
    case = {"kind": "gapped", **env.describe(), "s1": list(l1), "s2": list(l2), "seed": list(seed),
            "threshold": threshold, "gap": I.gap_json(gap), "direction": direction, "extra": extra}
    cls = "%s|%s" % (direction, I.gap_class(gap))
    ctx.ev(1, 0)

    def viol(fm, what, expected=None, observed=None):
        ctx.violation("align_local_gapped|%s|%s" % (fm, cls), what, case, expected, observed)

    try:
        res = balign.align_local_gapped(s1, s2, env.matrix, seed, threshold, gap_penalty=gap, max_number=1000,
                                        direction=direction)
        so = balign.align_local_gapped(s1, s2, env.matrix, seed, threshold, gap_penalty=gap, max_number=1000,
                                       direction=direction, score_only=True)
    except Exception as e:  # noqa: BLE001
        if _readonly_refused(env, e):
            ctx.violation("align_local_gapped|readonly_code_refused|any", "a sequence whose code array is read-only is refused: "
                          + str(e)[:100], case, "a result", type(e).__name__)
            return
        viol("exception_%s" % type(e).__name__, "legal input raised %s: %s" % (type(e).__name__, str(e)[:200]))
        return
    ctx.count("accepted")
    if not isinstance(res, list) or not res:
        viol("no_result", "no alignment returned")
        return
    traces = _traces(res)
    if traces is None:
        viol("invalid_trace", "trace is not a (k, 2) array")
        return
    opt, need = _seeded(env, c1, c2, gap, tuple(seed), direction)
    cannot_bind = threshold >= need
    seen = set()
    sc0 = int(res[0].score)
    for a, t in zip(res, traces):
        sc = int(a.score)
        if (t, sc) in seen:
            continue
        seen.add((t, sc))
        if not _same_inputs(a, s1, s2, c1, c2):
            viol("wrong_sequences", "returned alignment does not hold the two inputs in order")
            return
        prob = A.trace_problem(t, n, m, False)
        if prob is not None:
            viol("invalid_trace", "returned trace is not a valid alignment: " + prob, None, _cols_json(t))
            return
        r = _seed_checks(t, seed, direction)
        if r is not None:
            viol(r[0], r[1], list(seed), _cols_json(t))
            return
        rs = A.score_cols(t, c1, c2, env.mat, gap, True)
        if rs != sc:
            viol("rescore_mismatch_reported_%s" % ("higher" if sc > rs else "lower"),
                 "score recomputed from the returned trace differs from the reported score", sc, [rs, _cols_json(t)])
            return
        if sc > opt:
            viol("score_above_optimum", "reported score exceeds the best seed-containing alignment", opt,
                 [sc, _cols_json(t)])
            return
        if cannot_bind and sc != opt:
            viol("threshold_cannot_bind_not_optimal", "threshold cannot bind but the optimum is not reached", opt,
                 [sc, _cols_json(t)])
            return
    if len(res) > 1000:
        viol("too_many", "more alignments than max_number returned", 1000, len(res))
    if int(so) != sc0:
        viol("score_only_differs", "score_only=True returns another score than the full call", sc0, int(so))
        return
    if extra:
        try:
            r1 = balign.align_local_gapped(s1, s2, env.matrix, seed, threshold, gap_penalty=gap, max_number=1,
                                           direction=direction)
        except Exception as e:  # noqa: BLE001
            viol("exception_%s" % type(e).__name__, "max_number=1 raised")
            return
        ctx.ev(1, 0)
        t1 = _traces(r1)
        if len(r1) != 1:
            viol("too_many", "max_number=1 did not return exactly one alignment", 1, len(r1))
        elif int(r1[0].score) != sc0 or t1 is None or (t1[0], sc0) not in seen:
            viol("max_number_1_differs", "max_number=1 returns an alignment the unlimited call does not return",
                 [sc0, [_cols_json(t) for t in traces][:4]], [int(r1[0].score), _cols_json(t1[0]) if t1 else None])
        for mts in (1, 10):
            ctx.ev(1, 0)
            try:
                r2 = balign.align_local_gapped(s1, s2, env.matrix, seed, threshold, gap_penalty=gap, max_number=1000,
                                               direction=direction, max_table_size=mts)
            except MemoryError:
                ctx.count("unspecified_raised")
                continue
            except Exception as e:  # noqa: BLE001
                viol("exception_%s" % type(e).__name__, "max_table_size=%d raised %s" % (mts, type(e).__name__))
                return
            ctx.count("unspecified_returned")
            t2 = _traces(r2)
            if [int(x.score) for x in r2] != [int(x.score) for x in res] or t2 != traces:
                viol("max_table_size_changes_result", "a max_table_size that does not raise changes the result",
                     [sc0, [_cols_json(t) for t in traces][:3]], [[int(x.score) for x in r2][:3]])
    nontriv = any(_has_gap(t) for t in traces) or not cannot_bind or direction != "both" or len(seen) > 1
    ctx.ev(1, 1 if nontriv else 0)  # the score_only call; the pair (full, score_only) is one distinct case
    ctx.outcome(("gapped", sc0, len(res), traces[0]))
    if len(ctx.samples) < 1 and len(seen) > 1 and any(_has_gap(t) for t in traces):
        ctx.sample({**case, "optimum_seeded": opt, "threshold_cannot_bind": cannot_bind,
                    "returned": [[int(a.score), _cols_json(t)] for a, t in zip(res, traces)][:3]})


def frame_seeds(n, m):
    """Seeds outside the sequences: the one-step frame around the table plus far corners."""
    out = []
    for i in range(-1, n + 1):
        for j in range(-1, m + 1):
            if not (0 <= i < n and 0 <= j < m):
                out.append((i, j))
    out += [(n + 5, 0), (0, m + 5), (-3, -3)]
    return out


def check_bad_seed(ctx, env, fn_name, l1, l2, seed, kwargs):
    import biotite.sequence.align as balign

    from mc.models import align_inputs as I

    case = {"kind": "bad_seed", "fn": fn_name, **env.describe(), "s1": list(l1), "s2": list(l2), "seed": list(seed),
            "kwargs": {k: I.gap_json(v) for k, v in kwargs.items()}}
    n, m = len(l1), len(l2)
    cls = "negative" if min(seed) < 0 else "beyond_end"
    js = json.dumps(case)
    if not ctx.journal(js):
        return
    ctx.ev(1, 1)
    try:
        getattr(balign, fn_name)(env.seq(1, l1), env.seq(2, l2), env.matrix, seed, 3, **kwargs)
    except Exception as e:  # noqa: BLE001
        ctx.count("refused")
        ctx.outcome(("refused", fn_name, cls, type(e).__name__))
        return
    ctx.violation("%s|seed_not_refused|%s" % (fn_name, cls), "a seed outside the sequences was accepted", case,
                  "an exception", "returned")


def run_gapped(shard, ctx):
    from mc.models import align_inputs as I

    c = _cfg(ctx.tier)
    g = c["gapped"][shard["group"]]
    k1, k2 = g["k"]
    env = I.Env(k1, k2, shard["fam"], shard["variant"], shard["embed"])
    extra_fam = shard["fam"] in c["gapped_extra_fams"]
    idx = -1
    for l1 in I.sequences(k1, g["len"][0], 1):
        for l2 in I.sequences(k2, g["len"][1], 1):
            if g["long_only"] and len(l1) < g["len"][0] and len(l2) < g["len"][1]:
                continue
            idx += 1
            if idx % shard["parts"] != shard["part"]:
                continue
            n, m = len(l1), len(l2)
            for i0 in range(n):
                for j0 in range(m):
                    for thr in THRESHOLDS:
                        for direction in DIRECTIONS:
                            for gap in g["gaps"]:
                                check_gapped(ctx, env, l1, l2, (i0, j0), thr, gap, direction,
                                             extra=extra_fam and gap == g["gaps"][0])
            if extra_fam:
                for sd in frame_seeds(n, m):
                    check_bad_seed(ctx, env, "align_local_gapped", l1, l2, sd, {"gap_penalty": g["gaps"][0]})
    _mutated(ctx, env, "align_local_gapped")


# ---------------------------------------------------------------------------
# seeded ungapped
# ---------------------------------------------------------------------------
def check_ungapped(ctx, env, l1, l2, seed, threshold, direction):
    import biotite.sequence.align as balign

    from mc.models import align as A
    from mc.models import align_inputs as I

    c1, c2 = env.codes(1, l1), env.codes(2, l2)
    s1, s2 = env.seq(1, l1), env.seq(2, l2)
    n, m = len(c1), len(c2)
    if n > 50:
        case = {"kind": "ungapped", **env.describe(), "n": n, "m": m, "seed": list(seed), "threshold": threshold,
                "direction": direction}
    else:
        case = {"kind": "ungapped", **env.describe(), "s1": list(l1), "s2": list(l2), "seed": list(seed),
                "threshold": threshold, "direction": direction}
    cls = direction
    ctx.ev(2, 0)

    def viol(fm, what, expected=None, observed=None):
        ctx.violation("align_local_ungapped|%s|%s" % (fm, cls), what, case, expected, observed)

    try:
        a = balign.align_local_ungapped(s1, s2, env.matrix, seed, threshold, direction)
        so = balign.align_local_ungapped(s1, s2, env.matrix, seed, threshold, direction, score_only=True)
    except Exception as e:  # noqa: BLE001
        if _readonly_refused(env, e):
            ctx.violation("align_local_ungapped|readonly_code_refused|any", "a sequence whose code array is read-only is refused: "
                          + str(e)[:100], case, "a result", type(e).__name__)
            return
        viol("exception_%s" % type(e).__name__, "legal input raised %s: %s" % (type(e).__name__, str(e)[:200]))
        return
    ctx.count("accepted")
    if not hasattr(a, "trace") or a.trace.ndim != 2 or a.trace.shape[1] != 2:
        viol("invalid_trace", "result is not an alignment with a (k, 2) trace")
        return
    t = I.trace_cols(a.trace)
    sc = int(a.score)
    if not _same_inputs(a, s1, s2, c1, c2):
        viol("wrong_sequences", "returned alignment does not hold the two inputs in order")
        return
    prob = A.trace_problem(t, n, m, False)
    if prob is None and _has_gap(t):
        prob = "gap column in an ungapped alignment"
    if prob is not None:
        viol("invalid_trace", "returned trace is not a valid ungapped alignment: " + prob, None, _cols_json(t))
        return
    r = _seed_checks(t, seed, direction)
    if r is not None:
        viol(r[0], r[1], list(seed), _cols_json(t))
        return
    rs = A.score_cols(t, c1, c2, env.mat, 0, True)
    if rs != sc:
        viol("rescore_mismatch_reported_%s" % ("higher" if sc > rs else "lower"),
             "score recomputed from the returned trace differs from the reported score", sc, [rs, _cols_json(t)])
        return
    opt, drawdown = A.diagonal_runs(c1, c2, env.mat, seed, direction)
    if sc > opt:
        viol("score_above_optimum", "reported score exceeds the best diagonal run through the seed", opt,
             [sc, _cols_json(t)])
        return
    cannot_bind = threshold >= drawdown
    if cannot_bind and sc != opt:
        viol("threshold_cannot_bind_not_optimal", "the drop-off rule can never fire but the optimum is not reached",
             opt, [sc, _cols_json(t)])
        return
    if int(so) != sc:
        viol("score_only_differs", "score_only=True returns another score than the full call", sc, int(so))
        return
    nontriv = len(t) > 1 or not cannot_bind or direction != "both"
    ctx.ev(0, 1 if nontriv else 0)
    ctx.outcome(("ungapped", sc, t))
    if len(ctx.samples) < 1 and len(t) > 2 and not cannot_bind:
        ctx.sample({**case, "optimum_diagonal": opt, "largest_drawdown": drawdown, "returned": [sc, _cols_json(t)]})


def run_ungapped(shard, ctx):
    from mc.models import align_inputs as I

    c = _cfg(ctx.tier)
    g = c["ungapped"][shard["group"]]
    k1, k2 = g["k"]
    env = I.Env(k1, k2, shard["fam"], shard["variant"], shard["embed"])
    idx = -1
    for l1 in I.sequences(k1, g["len"][0], 1):
        for l2 in I.sequences(k2, g["len"][1], 1):
            idx += 1
            if idx % shard["parts"] != shard["part"]:
                continue
            n, m = len(l1), len(l2)
            for i0 in range(n):
                for j0 in range(m):
                    for thr in (0, 1, 2, 3, 10**6):
                        for direction in DIRECTIONS:
                            check_ungapped(ctx, env, l1, l2, (i0, j0), thr, direction)
            if shard["fam"] in ("std", "rect") and n <= 3 and m <= 3:
                for sd in frame_seeds(n, m):
                    check_bad_seed(ctx, env, "align_local_ungapped", l1, l2, sd, {})
    _mutated(ctx, env, "align_local_ungapped")


# ---------------------------------------------------------------------------
# size switch: tables that have to grow (align_local_gapped), long inputs for the other two
# ---------------------------------------------------------------------------
def _long_opt(env, c1, c2, gap, seed, direction):
    from mc.models import align as A

    memo = env.__dict__.setdefault("_memo_long", {})
    i0, j0 = seed
    total = env.mat[c1[i0]][c2[j0]]
    regions = []
    # an upstream region without symbols in one of the sequences cannot be extended into (only gaps: 0)
    if direction in ("both", "upstream") and i0 > 0 and j0 > 0:
        regions.append((tuple(reversed(c1[:i0])), tuple(reversed(c2[:j0]))))
    if direction in ("both", "downstream"):
        regions.append((tuple(c1[i0 + 1:]), tuple(c2[j0 + 1:])))
    for p1, p2 in regions:
        k = (p1, p2, gap)
        v = memo.get(k)
        if v is None:
            v = memo[k] = A.dp_opt(p1, p2, env.mat, gap, "prefix")
        total += v
    return total, [(len(a), len(b)) for a, b in regions]


def _growth_class(regions):
    """Which table dimensions have to grow when the regions are explored completely."""
    rows = any(a + 1 > LONG_INIT for a, b in regions)
    cols = any(b + 1 > LONG_INIT for a, b in regions)
    twice = any(a + 1 > 2 * LONG_INIT or b + 1 > 2 * LONG_INIT for a, b in regions)
    exact = any(a + 1 == LONG_INIT or b + 1 == LONG_INIT for a, b in regions)
    if twice:
        return "grow_twice"
    if rows and cols:
        return "grow_rows_and_columns"
    if rows:
        return "grow_rows_only"
    if cols:
        return "grow_columns_only"
    return "exact_fit_no_growth" if exact else "no_growth"


def check_long_gapped(ctx, env, l1, l2, seed, threshold, gap, direction):
    import biotite.sequence.align as balign

    from mc.models import align as A
    from mc.models import align_inputs as I

    c1, c2 = env.codes(1, l1), env.codes(2, l2)
    s1, s2 = env.seq(1, l1), env.seq(2, l2)
    n, m = len(c1), len(c2)
    case = {"kind": "long_gapped", **env.describe(), "n": n, "m": m, "seed": list(seed), "threshold": threshold,
            "gap": I.gap_json(gap), "direction": direction}
    if not ctx.journal(json.dumps(case)):
        return
    opt, regions = _long_opt(env, c1, c2, gap, seed, direction)
    grow = _growth_class(regions)
    cls = "%s|%s|%s" % (direction, I.gap_class(gap), grow)
    ctx.ev(2, 0)

    def viol(fm, what, expected=None, observed=None):
        ctx.violation("align_local_gapped|%s|%s" % (fm, cls), what, case, expected, observed)

    def call(score_only=False, mts=None):
        return balign.align_local_gapped(s1, s2, env.matrix, seed, threshold, gap_penalty=gap, max_number=2,
                                         direction=direction, score_only=score_only, max_table_size=mts)

    try:
        res = call()
        so = call(score_only=True)
    except Exception as e:  # noqa: BLE001
        viol("exception_%s" % type(e).__name__, "legal input raised %s: %s" % (type(e).__name__, str(e)[:200]))
        return
    ctx.count("accepted")
    ctx.count("long_" + grow)
    traces = _traces(res) if isinstance(res, list) and res else None
    if not traces:
        viol("no_result", "no alignment / malformed trace returned")
        return
    if len(res) > 2:
        viol("too_many", "more alignments than max_number returned", 2, len(res))
    sc0 = int(res[0].score)
    for a, t in zip(res, traces):
        sc = int(a.score)
        prob = A.trace_problem(t, n, m, False)
        if prob is not None:
            viol("invalid_trace", "returned trace is not a valid alignment: " + prob, None, _cols_json(t)[:12])
            return
        r = _seed_checks(t, seed, direction)
        if r is not None:
            viol(r[0], r[1], list(seed), _cols_json(t)[:12])
            return
        rs = A.score_cols(t, c1, c2, env.mat, gap, True)
        if rs != sc:
            viol("rescore_mismatch_reported_%s" % ("higher" if sc > rs else "lower"),
                 "score recomputed from the returned trace differs from the reported score", sc, rs)
            return
        if sc > opt:
            viol("score_above_optimum", "reported score exceeds the best seed-containing alignment (reference DP)",
                 opt, sc)
            return
        if threshold >= 10**6 and sc != opt:
            viol("threshold_cannot_bind_not_optimal", "threshold cannot bind but the optimum (reference DP) is not "
                 "reached", opt, sc)
            return
    if int(so) != sc0:
        viol("score_only_differs", "score_only=True returns another score than the full call", sc0, int(so))
        return
    ctx.ev(0, 1 if grow.startswith("grow") else 0)
    ctx.outcome(("long", n, m, tuple(seed), direction, sc0, len(traces[0])))
    if len(ctx.samples) < 1 and grow == "grow_twice" and _has_gap(traces[0]):
        ctx.sample({**case, "regions": regions, "optimum_dp": opt, "score": sc0, "trace_length": len(traces[0]),
                    "gap_columns": sum(1 for c in traces[0] if -1 in c)})
    if threshold < 10**6:
        return
    # ---- table-size limit: the regions are explored completely, so a table needs >= (a+1)(b+1) cells
    grown = [(a, b) for a, b in regions if a + 1 > LONG_INIT or b + 1 > LONG_INIT]
    ref = ([int(x.score) for x in res], traces)

    def probe(mts, score_only=False):
        ctx.ev(1, 0)
        try:
            r = call(score_only=score_only, mts=mts)
        except MemoryError:
            return "MemoryError"
        except Exception as e:  # noqa: BLE001
            return "raised " + type(e).__name__
        if score_only:
            return "same" if int(r) == sc0 else "different"
        return "same" if ([int(x.score) for x in r], _traces(r)) == ref else "different"

    if not grown:
        # no table has to grow: whether small tables are compared with the limit is unspecified
        for mts in (1, LONG_INIT * LONG_INIT):
            r = probe(mts)
            ctx.count("unspecified_raised" if r == "MemoryError" else "unspecified_returned")
            if r not in ("MemoryError", "same"):
                viol("max_table_size_changes_result", "a max_table_size that does not raise MemoryError changes "
                     "the result (%s)" % r, "MemoryError or the unlimited result", [mts, r])
                return
        return
    must_raise_below = max((a + 1) * (b + 1) for a, b in grown)
    must_work_from = 4 * max(max(a + 1, LONG_INIT) * max(b + 1, LONG_INIT) for a, b in regions)
    lo, hi = must_raise_below - 1, must_work_from
    r = probe(lo)
    if r != "MemoryError":
        viol("max_table_size_not_enforced", "a fully explored region needs more cells than max_table_size, but no "
             "MemoryError is raised (%s)" % r, "MemoryError", [lo, r, regions])
        return
    r = probe(hi)
    if r != "same":
        viol("max_table_size_refuses_sufficient_limit", "max_table_size of 4x the explored cells does not give the "
             "unlimited result (%s)" % r, "the unlimited result", [hi, r, regions])
        return
    while hi - lo > 1:  # lo raises, hi works
        mid = (lo + hi) // 2
        r = probe(mid)
        if r == "MemoryError":
            lo = mid
        elif r == "same":
            hi = mid
        else:
            viol("max_table_size_changes_result", "a max_table_size that does not raise MemoryError changes the "
                 "result (%s)" % r, "MemoryError or the unlimited result", [mid, r])
            return
    # both sides of the switch, also without traceback tables; and monotone a little further out
    for mts, want in ((lo, "MemoryError"), (hi, "same"), (max(1, lo - 1000), "MemoryError"), (hi + 1000, "same")):
        for so_flag in (True, False):
            r = probe(mts, score_only=so_flag)
            if r != want:
                viol("max_table_size_not_monotone", "limit %d gives %s although %d is the smallest accepted limit of "
                     "the full call" % (mts, r, hi), want, [mts, so_flag, r, hi])
                return
    ctx.count("long_table_limit_boundaries_found")
    ctx.outcome(("long_limit", n, m, tuple(seed), direction, I.gap_class(gap), hi))


def check_banded_long(ctx, env, l1, l2, band, gap, local):
    """align_banded on long inputs: validity, rescoring, band containment, reference DP as upper bound /
    as exact value when the band covers every diagonal."""
    import biotite.sequence.align as balign

    from mc.models import align as A
    from mc.models import align_inputs as I

    c1, c2 = env.codes(1, l1), env.codes(2, l2)
    n, m = len(c1), len(c2)
    mode = "local" if local else "semi"
    case = {"kind": "long_banded", **env.describe(), "n": n, "m": m, "band": list(band), "gap": I.gap_json(gap),
            "local": local}
    cls = "%s|%s|long" % (mode, I.gap_class(gap))
    ctx.ev(1, 0)

    def viol(fm, what, expected=None, observed=None):
        ctx.violation("align_banded|%s|%s" % (fm, cls), what, case, expected, observed)

    try:
        res = balign.align_banded(env.seq(1, l1), env.seq(2, l2), env.matrix, band, gap_penalty=gap, local=local,
                                  max_number=2)
    except Exception as e:  # noqa: BLE001
        viol("exception_%s" % type(e).__name__, "legal input raised %s" % type(e).__name__)
        return
    ctx.count("accepted")
    traces = _traces(res) if res else None
    if not traces:
        viol("no_result", "no alignment / malformed trace returned")
        return
    memo = env.__dict__.setdefault("_memo_long", {})
    k = ("banded", c1, c2, gap, mode)
    opt = memo.get(k)
    if opt is None:
        opt = memo[k] = A.dp_opt(c1, c2, env.mat, gap, mode)
    lo, hi = min(band), max(band)
    full = lo <= -(n - 1) and hi >= m - 1
    for a, t in zip(res, traces):
        sc = int(a.score)
        prob = A.trace_problem(t, n, m, False)
        if prob is not None:
            viol("invalid_trace", "returned trace is not a valid alignment: " + prob, None, _cols_json(t)[:12])
            return
        if local:
            rs = [A.score_cols(t, c1, c2, env.mat, gap, True)]
        else:
            rs = [A.score_cols(comp, c1, c2, env.mat, gap, False) for comp in A.completions(t, n, m)]
        if sc not in rs:
            viol("rescore_mismatch_reported_%s" % ("higher" if sc > max(rs) else "lower"),
                 "score recomputed from the returned trace differs from the reported score", sc, rs)
            return
        if sc > opt:
            viol("score_above_optimum", "reported score exceeds the optimum (reference DP)", opt, sc)
            return
        if full and opt > 0 and sc != opt:
            viol("full_band_not_optimal", "band covers every diagonal but the optimum (reference DP) is not reached",
                 opt, sc)
            return
        for i, j in t:
            if i != -1 and j != -1 and not (lo <= j - i <= hi):
                viol("pair_outside_band", "paired positions lie on a diagonal outside the band", [lo, hi], [i, j])
                return
    ctx.ev(0, 1)
    ctx.outcome(("long_banded", n, m, tuple(band), mode, int(res[0].score)))


def run_long(shard, ctx):
    from mc.models import align as A
    from mc.models import align_inputs as I

    # the DP used as oracle here must agree with the complete enumeration where both run
    for p1 in I.sequences(2, 3):
        for p2 in I.sequences(2, 3):
            for g in LONG_GAPS + [-1, (-1, -2)]:
                for mat in ([[2, -1], [-1, 2]], [[-1, -2], [-2, -1]]):
                    if A.dp_opt(p1, p2, mat, g, "prefix") != A.extension_opt(p1, p2, mat, g):
                        raise RuntimeError("reference models disagree (prefix DP vs enumeration)")
    tier = ctx.tier
    n = shard["n"]
    env = I.Env(2, 2, "std", shard["variant"], shard["embed"])
    env16 = I.Env(2, 2, "asym", shard["variant"], shard["embed"], "uint16", "uint8")
    l1 = long_letters(n, 1)
    # a defect in the growth code can double a table without end: cap the address space of this worker while the
    # family runs (the tables needed here are < 1 MB), so that it shows as a MemoryError violation instead of
    # exhausting the machine
    import resource

    old_as = resource.getrlimit(resource.RLIMIT_AS)
    cap = 3 << 30
    if old_as[0] == resource.RLIM_INFINITY or old_as[0] > cap:
        resource.setrlimit(resource.RLIMIT_AS, (cap, old_as[1]))
    try:
        _run_long_pairs(ctx, env, env16, l1, n, tier)
    finally:
        resource.setrlimit(resource.RLIMIT_AS, old_as)
    _mutated(ctx, env, "long")


def _run_long_pairs(ctx, env, env16, l1, n, tier):
    for m in LONG_LENS[tier]:
        l2 = long_letters(m, 2)
        for seed in long_seeds(n, m, tier):
            for direction in DIRECTIONS:
                for gap in LONG_GAPS:
                    for thr in LONG_THRESHOLDS:
                        check_long_gapped(ctx, env, l1, l2, seed, thr, gap, direction)
                for thr in (3, 10**6):
                    check_ungapped(ctx, env, l1, l2, seed, thr, direction)      # uint8 fast path
                    check_ungapped(ctx, env16, l1, l2, seed, thr, direction)    # generic path
        if m in (LONG_LENS[tier][0], LONG_LENS[tier][-1]):
            for band in ((-n, m), (-3, 3), (m - 5, m + 50), (-(n + 50), -(n - 5)), (-40, 1)):
                for gap, local in ((-2, False), (-2, True), ((-3, -1), True)):
                    check_banded_long(ctx, env, l1, l2, band, gap, local)


# ---------------------------------------------------------------------------
# dimension audit families (object flavours, argument order, aliasing / reuse / error paths, argument types)
# ---------------------------------------------------------------------------
AUDIT_GAPS = [-1, (-2, -1)]


def _audit_all_functions(ctx, env, max_len, gaps, what=("banded", "gapped", "ungapped")):
    from mc.models import align_inputs as I

    for l1 in I.sequences(env.k1, max_len, 1):
        for l2 in I.sequences(env.k2, max_len, 1):
            n, m = len(l1), len(l2)
            if "banded" in what:
                for band in all_bands(n, m):
                    if not band_has_cell(n, m, band[0], band[1]):
                        continue
                    for gap in gaps:
                        for local in (False, True):
                            check_banded(ctx, env, l1, l2, band, gap, local, 1000)
            for i0 in range(n):
                for j0 in range(m):
                    for thr in (1, 10**6):
                        for direction in DIRECTIONS:
                            if "gapped" in what:
                                for gap in gaps:
                                    check_gapped(ctx, env, l1, l2, (i0, j0), thr, gap, direction)
                            if "ungapped" in what:
                                check_ungapped(ctx, env, l1, l2, (i0, j0), thr, direction)
    _mutated(ctx, env, "flavour")


def _three_calls(env, l1, l2, gap):
    """The representative calls of the differential families: name -> (function, args, kwargs)."""
    import biotite.sequence.align as balign

    n, m = len(l1), len(l2)
    # an off-diagonal seed that is also in range with its coordinates exchanged (where the lengths allow it)
    sd = (0, 1) if n >= 2 and m >= 2 else (n - 1, m - 1)
    return {
        "align_banded": (balign.align_banded, [(-1, m)], {"gap_penalty": gap}),
        "align_banded_local": (balign.align_banded, [(-n, 1)], {"gap_penalty": gap, "local": True}),
        "align_local_gapped": (balign.align_local_gapped, [sd, 2], {"gap_penalty": gap, "max_number": 5}),
        "align_local_gapped_score": (balign.align_local_gapped, [(0, 0), 10**6],
                                     {"gap_penalty": gap, "score_only": True}),
        "align_local_ungapped": (balign.align_local_ungapped, [sd, 1], {}),
    }


def audit_mirror(ctx, shard):
    """f(a, b, M, x) and f(b, a, M.transpose(), mirrored x) must report the same score (every band / every seed)."""
    import biotite.sequence.align as balign

    from mc.models import align_inputs as I

    for k1, k2, fam, ln in ((2, 2, "asym", 3), (2, 3, "rect", 2)):
        env = I.Env(k1, k2, fam, shard["variant"], shard["embed"])
        mt = env.matrix.transpose()
        for l1 in I.sequences(k1, ln, 1):
            for l2 in I.sequences(k2, ln, 1):
                n, m = len(l1), len(l2)
                s1, s2 = env.seq(1, l1), env.seq(2, l2)
                base = {"kind": "mirror", **env.describe(), "s1": list(l1), "s2": list(l2)}
                for gap in AUDIT_GAPS:
                    pairs = []
                    for band in all_bands(n, m):
                        if band_has_cell(n, m, band[0], band[1]):
                            for local in (False, True):
                                pairs.append(("align_banded", {"band": list(band), "local": local},
                                              lambda b=band, lc=local: balign.align_banded(
                                                  s1, s2, env.matrix, b, gap_penalty=gap, local=lc)[0].score,
                                              lambda b=band, lc=local: balign.align_banded(
                                                  s2, s1, mt, (-b[1], -b[0]), gap_penalty=gap, local=lc)[0].score))
                    for i0 in range(n):
                        for j0 in range(m):
                            for thr in (1, 10**6):
                                for d in DIRECTIONS:
                                    pairs.append(("align_local_gapped", {"seed": [i0, j0], "threshold": thr, "direction": d},
                                                  lambda i=i0, j=j0, t=thr, d=d: balign.align_local_gapped(
                                                      s1, s2, env.matrix, (i, j), t, gap_penalty=gap, direction=d,
                                                      score_only=True),
                                                  lambda i=i0, j=j0, t=thr, d=d: balign.align_local_gapped(
                                                      s2, s1, mt, (j, i), t, gap_penalty=gap, direction=d,
                                                      score_only=True)))
                                    if gap == AUDIT_GAPS[0]:
                                        pairs.append(("align_local_ungapped",
                                                      {"seed": [i0, j0], "threshold": thr, "direction": d},
                                                      lambda i=i0, j=j0, t=thr, d=d: balign.align_local_ungapped(
                                                          s1, s2, env.matrix, (i, j), t, d, score_only=True),
                                                      lambda i=i0, j=j0, t=thr, d=d: balign.align_local_ungapped(
                                                          s2, s1, mt, (j, i), t, d, score_only=True)))
                    for fn, extra, f, g in pairs:
                        ctx.ev(2, 1)
                        case = {**base, "gap": I.gap_json(gap), "fn": fn, **extra}
                        try:
                            a, b = int(f()), int(g())
                        except Exception as e:  # noqa: BLE001
                            ctx.violation("%s|mirror_exception_%s|%s" % (fn, type(e).__name__, I.gap_class(gap)),
                                          "one of the two argument orders raised", case, None, str(e)[:100])
                            continue
                        ctx.outcome(("mirror", fn, a))
                        if a != b:
                            ctx.violation("%s|mirror_score_differs|%s" % (fn, I.gap_class(gap)),
                                          "f(a, b, M, x) and f(b, a, M.transpose(), mirrored x) report different scores",
                                          case, a, b)


def audit_alias(ctx, shard):
    """Inputs untouched; results independent of each other and of later calls; state after refused calls."""
    from mc.models import align_audit as AU
    from mc.models import align_inputs as I

    for fam in ("zero", "asym"):
        env = I.Env(2, 2, fam, shard["variant"], shard["embed"])
        for l1 in I.sequences(2, 3, 1):
            for l2 in I.sequences(2, 2, 1):
                for gap in AUDIT_GAPS:
                    for name, (f, args, kw) in _three_calls(env, l1, l2, gap).items():
                        ctx.ev(3, 1)
                        case = {"kind": "alias", **env.describe(), "s1": list(l1), "s2": list(l2),
                                "gap": I.gap_json(gap), "call": name}
                        site = f.__name__
                        cls = "%s|%s" % (name, I.gap_class(gap))
                        if site == "align_local_ungapped":
                            kw = {}
                        elif name == "align_local_ungapped":
                            pass
                        s1, s2 = env.seq(1, l1), env.seq(2, l2)

                        def call(*a, **k):
                            if site == "align_local_ungapped":
                                k.pop("gap_penalty", None)
                            return f(s1, s2, env.matrix, *a, **k)

                        before = AU.snapshot(env, l1, l2)
                        try:
                            res = call(*args, **kw)
                        except Exception as e:  # noqa: BLE001
                            ctx.violation("%s|exception_%s|%s" % (site, type(e).__name__, cls), "legal input raised",
                                          case, None, str(e)[:100])
                            continue
                        ref = AU.result_key(res)
                        if AU.snapshot(env, l1, l2) != before:
                            ctx.violation("%s|inputs_modified|%s" % (site, cls), "the call modified a sequence code "
                                          "or the matrix", case)
                            continue
                        if AU.traces_share_memory(res):
                            ctx.violation("%s|results_share_memory|%s" % (site, cls), "two returned alignments share "
                                          "their trace memory", case)
                            continue
                        # refused calls in between
                        refusals = [([(-1, 0), 2] if "gapped" in site else None, {}),
                                    (args, {**kw, "gap_penalty": 1} if site != "align_local_ungapped" else None),
                                    ([(50, 60)] if site == "align_banded" else None, kw)]
                        for a2, k2 in refusals:
                            if a2 is None or k2 is None:
                                continue
                            try:
                                call(*a2, **{**kw, **k2})
                                ctx.violation("%s|not_refused|%s" % (site, cls), "invalid argument accepted", case)
                            except Exception:  # noqa: BLE001
                                ctx.count("refused")

                        def short(k):
                            return k if not isinstance(k, tuple) else k[:2]

                        res2 = call(*args, **kw)
                        if AU.result_key(res2) != ref:
                            ctx.violation("%s|second_call_differs|%s" % (site, cls), "the same call gives another result "
                                          "after refused calls were made", case, short(ref), short(AU.result_key(res2)))
                            continue
                        AU.scribble(res2)
                        if AU.result_key(res) != ref:
                            ctx.violation("%s|results_of_two_calls_share_state|%s" % (site, cls), "overwriting the result "
                                          "of a later call changed an earlier result", case, short(ref),
                                          short(AU.result_key(res)))
                        elif AU.result_key(call(*args, **kw)) != ref:
                            ctx.violation("%s|second_call_differs|%s" % (site, cls), "the same call gives another result "
                                          "after an earlier result was overwritten by the caller", case)
                        elif AU.snapshot(env, l1, l2) != before:
                            ctx.violation("%s|inputs_modified|%s" % (site, cls), "a refused call modified a sequence "
                                          "code or the matrix", case)
                        ctx.outcome(("alias", name, ref if isinstance(ref, int) else len(ref)))


def audit_argument_types(ctx, shard):
    """band / seed / threshold / penalties / max_number given as numpy scalars, lists or arrays: unspecified by the
    statement - a clean exception or exactly the result of the plain-int call."""
    import numpy as np

    from mc.models import align_audit as AU
    from mc.models import align_inputs as I

    env = I.Env(2, 2, "asym", shard["variant"], shard["embed"])

    def conv(x, how):
        if how == "np_int64":
            return tuple(np.int64(v) for v in x) if isinstance(x, tuple) else np.int64(x)
        if how == "np_int32":
            return tuple(np.int32(v) for v in x) if isinstance(x, tuple) else np.int32(x)
        if how == "list":
            return list(x) if isinstance(x, tuple) else x
        if how == "ndarray":
            return np.array(x) if isinstance(x, tuple) else np.array(x)  # 0-d array
        return x

    for l1 in I.sequences(2, 2, 1):
        for l2 in I.sequences(2, 3, 1):
            for gap in AUDIT_GAPS:
                for name, (f, args, kw) in _three_calls(env, l1, l2, gap).items():
                    if f.__name__ == "align_local_ungapped":
                        kw = {}
                    s1, s2 = env.seq(1, l1), env.seq(2, l2)
                    ref = AU.result_key(f(s1, s2, env.matrix, *args, **kw))
                    for how in ("np_int64", "np_int32", "list", "ndarray"):
                        for target in ["arg0", "arg1", "gap", "max_number"]:
                            a2, k2 = list(args), dict(kw)
                            if target == "arg0":
                                a2[0] = conv(a2[0], how)
                            elif target == "arg1":
                                if len(a2) < 2:
                                    continue
                                a2[1] = conv(a2[1], how)
                            elif target == "gap":
                                if "gap_penalty" not in k2 or (how == "list" and not isinstance(gap, tuple)):
                                    continue
                                k2["gap_penalty"] = conv(gap, how)
                            else:
                                if "max_number" not in k2 or how in ("list",):
                                    continue
                                k2["max_number"] = conv(k2["max_number"], how)
                            ctx.ev(1, 1)
                            case = {"kind": "argtypes", **env.describe(), "s1": list(l1), "s2": list(l2),
                                    "gap": I.gap_json(gap), "call": name, "how": how, "target": target}
                            try:
                                got = AU.result_key(f(s1, s2, env.matrix, *a2, **k2))
                            except Exception as e:  # noqa: BLE001
                                ctx.count("unspecified_raised")
                                ctx.outcome(("argtype_exc", name, how, target, type(e).__name__))
                                continue
                            ctx.count("unspecified_returned")
                            if got != ref:
                                ctx.violation("%s|argument_type_changes_result|%s_%s" % (f.__name__, target, how),
                                              "an argument given as %s instead of int/tuple is accepted but changes "
                                              "the result" % how, case, ref if isinstance(ref, int) else ref[:2],
                                              got if isinstance(got, int) else got[:2])


def _run_audit(shard, ctx):
    from mc.models import align_audit as AU

    sub = shard["sub"]
    if sub == "flavours_banded":
        for env in AU.flavour_envs(shard["variant"], shard["embed"]):
            _audit_all_functions(ctx, env, 2, AUDIT_GAPS, ("banded",))
    elif sub == "flavours_seeded":
        for env in AU.flavour_envs(shard["variant"], shard["embed"]):
            _audit_all_functions(ctx, env, 2, AUDIT_GAPS, ("gapped", "ungapped"))
    elif sub == "library":
        for env in (AU.LibEnv("nucleotide"), AU.LibEnv("protein")):
            _audit_all_functions(ctx, env, 2, AUDIT_GAPS[:1])
    elif sub == "mirror":
        audit_mirror(ctx, shard)
    elif sub == "alias":
        audit_alias(ctx, shard)
    elif sub == "argument_types":
        audit_argument_types(ctx, shard)
    elif sub.startswith("palette_"):
        for env in palette_envs(sub[len("palette_"):]):
            _audit_all_functions(ctx, env, 2, AUDIT_GAPS)
    elif sub == "identity":
        audit_identity(ctx, shard)
    elif sub == "resize":
        audit_resize(ctx, shard)
    elif sub == "derived":
        audit_derived(ctx, shard)
    elif sub == "alphabet_fit":
        audit_alphabet_fit(ctx, shard)


# ---------------------------------------------------------------------------
# second dimension audit
# ---------------------------------------------------------------------------
def palette_envs(which):
    """B: every value a VERIF_SEED could select (code embeddings, matrix variants) at shallow depth with every seed;
    C: matrices that combine two awkward features."""
    from mc.models import align_inputs as I

    envs = []
    if which == "embeddings":
        for e in range(4):
            envs.append(I.Env(2, 2, "asym", 0, e))
            envs.append(I.Env(2, 2, "asym", 1, e, "uint16", "uint16"))
        for e in (0, 1):
            envs.append(I.Env(2, 3, "rect", e, e, "uint16", "uint8"))   # wide codes AND different alphabets
    elif which == "variants":
        for fam in ("std", "allneg", "asym", "large", "zero", "negident"):
            for v in range(3):
                envs.append(I.Env(2, 2, fam, v, v))
        for v in range(3):
            envs.append(I.Env(2, 3, "rect", v, v + 1))
    else:
        for fam in ("asymneg", "largeneg", "asymlarge", "zerorow"):
            for v in range(3):
                envs.append(I.Env(2, 2, fam, v, v))
    return envs


def audit_identity(ctx, shard):
    """A: returned alignments are new objects with their own `sequences` lists; re-binding edits of one result do
    not reach the other results or the inputs."""
    from mc.models import align_audit as AU
    from mc.models import align_inputs as I

    env = I.Env(2, 2, "zero", shard["variant"], shard["embed"])
    for l1 in I.sequences(2, 3, 1):
        for l2 in I.sequences(2, 2, 1):
            for gap in AUDIT_GAPS:
                for name, (f, args, kw) in _three_calls(env, l1, l2, gap).items():
                    if kw.get("score_only"):
                        continue
                    if f.__name__ == "align_local_ungapped":
                        kw = {}
                    ctx.ev(2, 1)
                    site = f.__name__
                    cls = "%s|%s" % (name, I.gap_class(gap))
                    case = {"kind": "identity", **env.describe(), "s1": list(l1), "s2": list(l2),
                            "gap": I.gap_json(gap), "call": name}
                    s1, s2 = env.seq(1, l1), env.seq(2, l2)
                    before = AU.snapshot(env, l1, l2)
                    res = f(s1, s2, env.matrix, *args, **kw)
                    ref = AU.result_key(res)
                    items = res if isinstance(res, list) else [res]
                    if len({id(a) for a in items}) != len(items) or len({id(a.sequences) for a in items}) != len(items):
                        ctx.violation("%s|results_share_object|%s" % (site, cls), "two returned alignments are the same "
                                      "object / share their `sequences` list", case)
                        continue
                    first = items[0]
                    first.sequences.append("edited")
                    first.sequences[0] = None
                    first.trace = None
                    first.score = None
                    rest = items[1:]
                    if not all(len(a.sequences) == 2 and a.sequences[0] is s1 and a.sequences[1] is s2 for a in rest) \
                            or (rest and AU.result_key(rest) != ref[1:]):
                        ctx.violation("%s|edit_of_one_result_reaches_another|%s" % (site, cls), "re-binding edits of the "
                                      "first returned alignment changed another one", case)
                    elif AU.snapshot(env, l1, l2) != before:
                        ctx.violation("%s|edit_of_result_reaches_input|%s" % (site, cls), "re-binding edits of a returned "
                                      "alignment changed an input", case)
                    elif AU.result_key(f(s1, s2, env.matrix, *args, **kw)) != ref:
                        ctx.violation("%s|second_call_differs|%s" % (site, cls), "the same call gives another result "
                                      "after a result was edited", case)
                    ctx.outcome(("identity", name, len(items)))


RESIZE_PATH = [(0, 1), (0, 1, 1), (1,), (1, 0, 1), (0, 0), (1, 1, 0, 1), (0,)]


def audit_resize(ctx, shard):
    """D: the same two Sequence objects get contents of other lengths (code / symbols setters) between calls."""
    import biotite.sequence as bseq
    import numpy as np

    from mc.models import align_audit as AU
    from mc.models import align_inputs as I

    env = I.Env(2, 2, "asym", shard["variant"], shard["embed"])
    s1, s2 = bseq.GeneralSequence(env.alph1), bseq.GeneralSequence(env.alph2)
    for gap in AUDIT_GAPS:
        for step, l1 in enumerate(RESIZE_PATH * 2):
            l2 = RESIZE_PATH[(step * 3 + 1) % len(RESIZE_PATH)]
            if step % 2:
                s1.code = np.array(env.codes(1, l1), dtype=np.uint8)
                s2.symbols = list(env.codes(2, l2))
            else:
                s1.symbols = list(env.codes(1, l1))
                s2.code = np.array(env.codes(2, l2), dtype=np.uint8)
            len(s1), str(s2), s1.get_symbol_frequency()
            for name, (f, args, kw) in _three_calls(env, l1, l2, gap).items():
                if f.__name__ == "align_local_ungapped":
                    kw = {}
                ctx.ev(2, 1)
                case = {"kind": "resize", **env.describe(), "step": step, "s1": list(l1), "s2": list(l2),
                        "gap": I.gap_json(gap), "call": name}
                got = AU.result_key(f(s1, s2, env.matrix, *args, **kw))
                want = AU.result_key(f(env.seq(1, l1), env.seq(2, l2), env.matrix, *args, **kw))
                if got != want:
                    ctx.violation("%s|reused_sequence_object_differs|%s" % (f.__name__, name), "a Sequence object that "
                                  "held a sequence of another length before gives another result than a fresh one",
                                  case, want if isinstance(want, int) else want[:2], got if isinstance(got, int) else got[:2])
                ctx.outcome(("resize", name, step))


def audit_derived(ctx, shard):
    """E: derived sequences (slices, strided slices, fancy indexing, reverse, copy, +, symbols setter) through the
    complete oracle; as_positional() matrix + sequences must give the results of the originals."""
    from mc.models import align_audit as AU
    from mc.models import align_inputs as I

    for env in AU.derived_envs(shard["variant"], shard["embed"]):
        _audit_all_functions(ctx, env, 2, AUDIT_GAPS[:1])
    env = I.Env(2, 2, "asym", shard["variant"], shard["embed"])
    for l1 in I.sequences(2, 3, 1):
        for l2 in I.sequences(2, 3, 1):
            pm, p1, p2 = env.matrix.as_positional(env.seq(1, l1), env.seq(2, l2))
            for gap in AUDIT_GAPS:
                for name, (f, args, kw) in _three_calls(env, l1, l2, gap).items():
                    if f.__name__ == "align_local_ungapped":
                        kw = {}
                    ctx.ev(2, 1)
                    case = {"kind": "derived", **env.describe(), "s1": list(l1), "s2": list(l2),
                            "gap": I.gap_json(gap), "call": name}
                    ref = AU.result_key(f(env.seq(1, l1), env.seq(2, l2), env.matrix, *args, **kw))
                    try:
                        got = AU.result_key(f(p1, p2, pm, *args, **kw))
                    except Exception as e:  # noqa: BLE001
                        ctx.violation("%s|positional_exception_%s|%s" % (f.__name__, type(e).__name__, name),
                                      "as_positional() output refused", case, None, str(e)[:100])
                        continue
                    if got != ref:
                        ctx.violation("%s|positional_result_differs|%s" % (f.__name__, name), "aligning the positional "
                                      "equivalents of as_positional() gives another result", case,
                                      ref if isinstance(ref, int) else ref[:2], got if isinstance(got, int) else got[:2])
                    ctx.outcome(("positional", name))


# ---------------------------------------------------------------------------
# third dimension audit
# ---------------------------------------------------------------------------
def audit_alphabet_fit(ctx, shard):
    """F: sequences whose alphabet has more symbols than the matrix alphabet.  Codes inside the matrix range:
    unspecified (exception or exactly the result for the same codes); a code beyond the matrix: must raise.
    H: align_local_ungapped(check_matrix=False) with fitting alphabets must give the checked result."""
    import biotite.sequence as bseq
    import biotite.sequence.align as balign

    from mc.models import align_audit as AU
    from mc.models import align_inputs as I

    G = bseq.GeneralSequence
    for k1, k2, fam in ((2, 2, "asym"), (2, 3, "rect")):
        env = I.Env(k1, k2, fam, 0, 1)
        big1 = bseq.Alphabet(list(range(env.size1 + 2)))
        big2 = bseq.Alphabet(list(range(env.size2 + 2)))
        for l1 in ((0,), (0, 1), (1, 0, 1)):
            for l2 in ((1,), (1, 0), (0, 1, 1)):
                c1, c2 = list(env.codes(1, l1)), list(env.codes(2, l2))
                p1, p2 = env.seq(1, l1), env.seq(2, l2)
                b1, b2 = c1[:-1] + [env.size1 + 1], c2[:-1] + [env.size2]
                variants = [("seq1_alphabet_larger_codes_inside", G(big1, c1), p2, False),
                            ("seq2_alphabet_larger_codes_inside", p1, G(big2, c2), False),
                            ("both_alphabets_larger_codes_inside", G(big1, c1), G(big2, c2), False),
                            ("seq1_code_beyond_matrix", G(big1, b1), p2, True),
                            ("seq2_code_beyond_matrix", p1, G(big2, b2), True),
                            ("both_codes_beyond_matrix", G(big1, b1), G(big2, b2), True)]
                for gap in AUDIT_GAPS:
                    calls = _three_calls(env, l1, l2, gap)
                    for name, (f, args, kw) in calls.items():
                        if f.__name__ == "align_local_ungapped":
                            kw = {}
                            ctx.ev(2, 1)
                            a = AU.result_key(f(p1, p2, env.matrix, *args))
                            b = AU.result_key(f(p1, p2, env.matrix, *args, check_matrix=False))
                            if a != b:
                                ctx.violation("align_local_ungapped|check_matrix_false_changes_result|fitting_alphabets",
                                              "check_matrix=False changes the result for fitting alphabets",
                                              {"kind": "alphabet_fit", **env.describe(), "s1": list(l1), "s2": list(l2)},
                                              a, b)
                        for label, s1, s2, must_raise in variants:
                            case = {"kind": "alphabet_fit", **env.describe(), "label": label, "s1": list(l1),
                                    "s2": list(l2), "gap": I.gap_json(gap), "call": name}
                            if not ctx.journal(json.dumps(case)):
                                continue
                            ctx.ev(1, 1)
                            try:
                                got = AU.result_key(f(s1, s2, env.matrix, *args, **kw))
                            except Exception as e:  # noqa: BLE001
                                ctx.count("refused" if must_raise else "unspecified_raised")
                                ctx.outcome(("alphabet_fit", name, label, type(e).__name__))
                                continue
                            if must_raise:
                                ctx.violation("%s|alphabet_larger_than_matrix_not_refused|%s" % (f.__name__, label),
                                              "a sequence holds a symbol the substitution matrix has no row / column "
                                              "for, but the call returns", case, "an exception",
                                              got if isinstance(got, int) else got[:1])
                                continue
                            ctx.count("unspecified_returned")
                            want = AU.result_key(f(p1, p2, env.matrix, *args, **kw))
                            if got != want:
                                ctx.violation("%s|alphabet_larger_than_matrix_changes_result|%s" % (f.__name__, label),
                                              "sequence alphabet not extended by the matrix alphabet is accepted but the "
                                              "result differs from the one for the same codes", case, None, None)


# ---------------------------------------------------------------------------
# code widths, refusals
# ---------------------------------------------------------------------------
def run_width(shard, ctx):
    from mc.models import align_inputs as I

    c = _cfg(ctx.tier)
    d1, d2 = shard["dtypes"]
    ln = c["width_len"]
    for fam in ("asym", "allneg"):
        env = I.Env(2, 2, fam, shard["variant"], shard["embed"], d1, d2)
        for l1 in I.sequences(2, ln, 1):
            for l2 in I.sequences(2, ln, 1):
                n, m = len(l1), len(l2)
                for band in all_bands(n, m):
                    if not band_has_cell(n, m, band[0], band[1]):
                        continue
                    for gap in (-1, (-2, -1)):
                        for local in (False, True):
                            check_banded(ctx, env, l1, l2, band, gap, local, 1000)
                for i0 in range(n):
                    for j0 in range(m):
                        for thr in (1, 10**6):
                            for direction in DIRECTIONS:
                                for gap in (-1, (-2, -1)):
                                    check_gapped(ctx, env, l1, l2, (i0, j0), thr, gap, direction)
                                check_ungapped(ctx, env, l1, l2, (i0, j0), thr, direction)
            _mutated(ctx, env, "width")


def check_refuse(ctx, env, fn_name, l1, l2, args, kwargs, label):
    import biotite.sequence.align as balign

    from mc.models import align_inputs as I

    case = {"kind": "refuse", "fn": fn_name, **env.describe(), "s1": list(l1), "s2": list(l2),
            "args": [I.gap_json(x) for x in args], "kwargs": {k: I.gap_json(v) for k, v in kwargs.items()},
            "label": label}
    ctx.ev(1, 1)
    try:
        getattr(balign, fn_name)(env.seq(1, l1), env.seq(2, l2), env.matrix, *args, **kwargs)
    except Exception as e:  # noqa: BLE001
        ctx.count("refused")
        ctx.outcome(("refused", fn_name, label, type(e).__name__))
        return
    ctx.violation("%s|not_refused|%s" % (fn_name, label), "documented-invalid argument accepted", case,
                  "an exception", "returned")


def run_refuse(shard, ctx):
    from mc.models import align_inputs as I

    env = I.Env(2, 2, "std", shard["variant"], shard["embed"])
    for l1 in I.sequences(2, 2, 1):
        for l2 in I.sequences(2, 2, 1):
            for g in (1, (1, -1), (-1, 1)):
                for local in (False, True):
                    check_refuse(ctx, env, "align_banded", l1, l2, [(-1, 1)], {"gap_penalty": g, "local": local},
                                 "positive_gap")
            for mn in (0, -1):
                check_refuse(ctx, env, "align_banded", l1, l2, [(-1, 1)], {"gap_penalty": -1, "max_number": mn},
                             "max_number_below_1")
                check_refuse(ctx, env, "align_local_gapped", l1, l2, [(0, 0), 3], {"gap_penalty": -1, "max_number": mn},
                             "max_number_below_1")
            for g in (0, 1, (0, -1), (-1, 0), (1, -1)):
                check_refuse(ctx, env, "align_local_gapped", l1, l2, [(0, 0), 3], {"gap_penalty": g},
                             "non_negative_gap")
            check_refuse(ctx, env, "align_local_gapped", l1, l2, [(0, 0), -1], {"gap_penalty": -1},
                         "negative_threshold")
            check_refuse(ctx, env, "align_local_ungapped", l1, l2, [(0, 0), -1], {}, "negative_threshold")
            check_refuse(ctx, env, "align_local_gapped", l1, l2, [(0, 0), 3], {"gap_penalty": -1, "direction": "up"},
                         "unknown_direction")
            check_refuse(ctx, env, "align_local_ungapped", l1, l2, [(0, 0), 3, "up"], {}, "unknown_direction")
            check_refuse(ctx, env, "align_local_gapped", l1, l2, [(0, 0), 3], {"gap_penalty": -1, "max_table_size": 0},
                         "max_table_size_not_positive")
    # empty sequences: unspecified
    for l1, l2 in (((), (0,)), ((0, 1), ()), ((), ())):
        for gap in (-1, (-2, -1)):
            for local in (False, True):
                for band in ((0, 0), (-1, 1)):
                    js = json.dumps({"kind": "banded", "s1": list(l1), "s2": list(l2), "band": list(band),
                                     "gap": I.gap_json(gap), "local": local, "empty": True})
                    if ctx.journal(js):
                        check_banded(ctx, env, l1, l2, band, gap, local, 1000, either=True)


def run_shard(shard, ctx):
    {"long": run_long, "audit": run_audit, "banded": run_banded, "gapped": run_gapped, "ungapped": run_ungapped, "width": run_width,
     "refuse": run_refuse}[shard["kind"]](shard, ctx)


DIFFERENTIAL_SUBS = {"alphabet_fit": "alphabet_fit", "mirror": "mirror", "alias": "alias", "identity": "identity", "resize": "resize",
                     "derived": "derived", "argument_types": "argtypes"}


def run_audit(shard, ctx):
    """The differential families run without an oracle of their own; they are clean on the unchanged tree, so an
    exception inside one of them is an observation about the library, not a harness fault."""
    sub = shard["sub"]
    if sub not in DIFFERENTIAL_SUBS:
        return _run_audit(shard, ctx)
    try:
        _run_audit(shard, ctx)
    except Exception as e:  # noqa: BLE001
        import traceback

        ctx.violation("%s|%s_family_raised_%s|any" % ("align_heuristics", sub, type(e).__name__),
                      "an operation inside the differential family raised: %s" % str(e)[:150],
                      {"kind": DIFFERENTIAL_SUBS[sub], "variant": shard["variant"], "embed": shard["embed"],
                       "k": [2, 2], "fam": "asym"}, None, traceback.format_exc()[-600:])


def crash_class(case):
    if isinstance(case, dict):
        if case.get("kind") == "bad_seed":
            return "%s|seed_outside|%s" % (case.get("fn"), "negative" if min(case["seed"]) < 0 else "beyond_end")
        if case.get("kind") == "banded":
            return "align_banded|empty_sequence"
        if case.get("kind") == "alphabet_fit":
            return "%s|alphabet_larger_than_matrix|%s" % (case.get("call"), case.get("label"))
        if case.get("kind") == "long_gapped":
            return "align_local_gapped|long|%s" % case.get("direction")
    return "unclassified"


def replay(case, ctx):
    from mc.models import align_inputs as I

    kind = case.get("kind")
    if kind == "mutated":
        return
    if case.get("empty"):
        env = I.Env(2, 2, "std", ctx.seed % 3, ctx.seed % 4)
        check_banded(ctx, env, tuple(case["s1"]), tuple(case["s2"]), tuple(case["band"]),
                     I.gap_from_json(case["gap"]), case["local"], 1000, either=True)
        return
    if kind in ("mirror", "alias", "argtypes", "identity", "resize", "derived", "alphabet_fit"):
        sh = {"variant": case["variant"], "embed": case["embed"]}
        {"alphabet_fit": audit_alphabet_fit, "mirror": audit_mirror, "alias": audit_alias, "argtypes": audit_argument_types, "identity": audit_identity,
         "resize": audit_resize, "derived": audit_derived}[kind](ctx, sh)
        return
    from mc.models import align_audit as AU

    env = AU.make_env(case)
    if kind in ("long_gapped", "long_banded") or (kind == "ungapped" and "n" in case):
        l1, l2 = long_letters(case["n"], 1), long_letters(case["m"], 2)
        if kind == "long_gapped":
            check_long_gapped(ctx, env, l1, l2, tuple(case["seed"]), case["threshold"], I.gap_from_json(case["gap"]),
                              case["direction"])
        elif kind == "long_banded":
            check_banded_long(ctx, env, l1, l2, tuple(case["band"]), I.gap_from_json(case["gap"]), case["local"])
        else:
            check_ungapped(ctx, env, l1, l2, tuple(case["seed"]), case["threshold"], case["direction"])
        return
    l1, l2 = tuple(case["s1"]), tuple(case["s2"])
    if kind == "banded":
        n, m = len(l1), len(l2)
        band = tuple(case["band"])
        either = n == 0 or m == 0 or not band_has_cell(n, m, min(band), max(band))
        check_banded(ctx, env, l1, l2, band, I.gap_from_json(case["gap"]), case["local"], case["max_number"], either)
    elif kind == "gapped":
        check_gapped(ctx, env, l1, l2, tuple(case["seed"]), case["threshold"], I.gap_from_json(case["gap"]),
                     case["direction"], case.get("extra", False))
    elif kind == "ungapped":
        check_ungapped(ctx, env, l1, l2, tuple(case["seed"]), case["threshold"], case["direction"])
    elif kind == "bad_seed":
        check_bad_seed(ctx, env, case["fn"], l1, l2, tuple(case["seed"]),
                       {k: I.gap_from_json(v) for k, v in case["kwargs"].items()})
    elif kind == "refuse":
        check_refuse(ctx, env, case["fn"], l1, l2, [I.gap_from_json(x) for x in case["args"]],
                     {k: I.gap_from_json(v) for k, v in case["kwargs"].items()}, case["label"])
