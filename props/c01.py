"""C01 - atom arrays and stacks stay coherent under any sequence of operations.

E1: breadth-first exploration of operation histories on real AtomArray /
AtomArrayStack objects against a list-of-atoms model; complete observation
(annotations, coord, box, bonds, __eq__ with a model-built twin, copy
independence) at every new canonical state.
"""

import itertools
import json

import numpy as np

ID = "C01"
LEVEL = "model_checking"
EXHAUSTIVE = True
RULE = (
    "BFS over the listed operation alphabet from every initial container (one shard per initial container x "
    "first-operation residue); states deduplicated on model state + annotation dtypes + bond rows; every "
    "transition is executed on the real object (rebuilt by replay for in-place operations) and compared with "
    "the list-of-atoms model. A case is non-trivial when the operation changes the container or returns a "
    "non-empty container/atom; distinct = distinct (initial container, operation sequence)."
)
ASSUMPTIONS = [
    "indices numpy rejects for an axis (out of range, 3-D) are outside the quantifier: an exception is accepted, "
    "and if a container is returned it only has to be internally coherent",
    "duplicate atom indices with bonds present raise NotImplementedError (documented limitation)",
    "whether indexing returns views or copies is unspecified; only copy() is required to be independent",
    "string values are chosen within the dtype width of their annotation (numpy truncation is not modelled)",
]
MAX_N = 5
MAX_M = 3
SHARD_TIMEOUT = {"quick": 900, "thorough": 3000}
NRES = 8


def bounds(tier):
    return {"history_depth": 2 if tier == "quick" else 3, "max_atoms": MAX_N, "max_models": MAX_M,
            "initial_containers": list(INITS)}


# ---------------------------------------------------------------------------
# model
# ---------------------------------------------------------------------------
STD = ["chain_id", "res_id", "ins_code", "res_name", "hetero", "atom_name", "element"]


def atom(i, **kw):
    a = {"chain_id": "AB"[i % 2], "res_id": i - 1, "ins_code": "", "res_name": ["GLY", "ALA", "X"][i % 3],
         "hetero": bool(i % 2), "atom_name": ["N", "CA", "C", "O", "CB"][i % 5], "element": "NCCOC"[i % 5]}
    a.update(kw)
    return a


class M:
    """kind: 'array' | 'stack'; atoms: list of dicts; coords: list (per model) of list of 3-tuples;
    box: None | list (per model) of 3x3 tuples; bonds: None | {(i,j): t}"""

    __slots__ = ("kind", "atoms", "cats", "coords", "box", "bonds")

    def __init__(self, kind, atoms, cats, coords, box=None, bonds=None):
        self.kind, self.atoms, self.cats = kind, atoms, cats
        self.coords, self.box, self.bonds = coords, box, bonds

    @property
    def n(self):
        return len(self.atoms)

    @property
    def m(self):
        return len(self.coords)

    def copy(self):
        return M(self.kind, [dict(a) for a in self.atoms], list(self.cats), [list(c) for c in self.coords],
                 None if self.box is None else list(self.box), None if self.bonds is None else dict(self.bonds))

    def key(self):
        return (self.kind, tuple(self.cats), tuple(tuple(sorted(a.items())) for a in self.atoms),
                repr(self.coords), repr(self.box),
                None if self.bonds is None else tuple(sorted(self.bonds.items())))


def C(i, k=0):
    """a coordinate triple, exact in float32; k distinguishes models"""
    return (float(i) + 0.5 * k, float(-i) + 0.25, 1.5 * k)


def BOX(k):
    return ((10.0 + k, 0.0, 0.0), (0.0, 11.0 + k, 0.0), (k * 1.0, 0.0, 12.0))


def mk_array(n, bonds=False, box=False, extra=False, start=0):
    cats = list(STD)
    atoms = [atom(start + i) for i in range(n)]
    if extra:
        cats += ["tag", "num"]
        for i, a in enumerate(atoms):
            a["tag"] = ["x", "yz", "w"][(start + i) % 3]
            a["num"] = (start + i) * 3 - 2
    b = None
    if bonds:
        b = {}
        if n >= 2:
            b[(0, 1)] = 1
        if n >= 3:
            b[(1, 2)] = 6
    return M("array", atoms, cats, [[C(start + i) for i in range(n)]], [BOX(0)] if box else None, b)


def mk_stack(m, n, bonds=False, box=False, extra=False):
    a = mk_array(n, bonds, False, extra)
    return M("stack", a.atoms, a.cats, [[C(i, k) for i in range(n)] for k in range(m)],
             [BOX(k) for k in range(m)] if box else None, a.bonds)


INITS = {
    "a0": lambda: mk_array(0),
    "a1": lambda: mk_array(1, box=True),
    "a3full": lambda: mk_array(3, bonds=True, box=True, extra=True),
    "a3plain": lambda: mk_array(3),
    "a3bonds": lambda: mk_array(3, bonds=True),
    "s2full": lambda: mk_stack(2, 3, bonds=True, box=True, extra=True),
    "s2plain": lambda: mk_stack(2, 2),
    "s1": lambda: mk_stack(1, 2, box=True),
    "s0": lambda: mk_stack(0, 2),
}
THOROUGH_ONLY_INITS = set()

DTYPES = {"chain_id": "U4", "res_id": "int64", "ins_code": "U1", "res_name": "U5", "hetero": "bool",
          "atom_name": "U6", "element": "U2", "tag": "U3", "num": "int64", "fl": "float64", "flag": "bool",
          "extra2": "U3"}


def build(model):
    """Real container from a model, through public constructors/setters only."""
    import biotite.structure as struc

    n = model.n
    if model.kind == "array":
        obj = struc.AtomArray(n)
        obj.coord = np.array(model.coords[0], dtype=np.float32).reshape(n, 3)
    else:
        obj = struc.AtomArrayStack(model.m, n)
        obj.coord = np.array(model.coords, dtype=np.float32).reshape(model.m, n, 3)
    for c in list(obj.get_annotation_categories()):
        if c not in model.cats:
            obj.del_annotation(c)
    for c in model.cats:
        vals = [a[c] for a in model.atoms]
        if DTYPES[c].startswith("U") and vals:
            arr = np.array(vals, dtype=str)
            if arr.dtype.itemsize < np.dtype(DTYPES[c]).itemsize:
                arr = arr.astype(DTYPES[c])
        else:
            arr = np.array(vals, dtype=DTYPES[c])
        obj.set_annotation(c, arr)
    if model.box is not None:
        bx = np.array(model.box, dtype=np.float32)
        obj.box = bx[0] if model.kind == "array" else bx.reshape(model.m, 3, 3)
    if model.bonds is not None:
        rows = [(i, j, t) for (i, j), t in sorted(model.bonds.items())]
        obj.bonds = struc.BondList(n, np.array(rows, dtype=np.int64)) if rows else struc.BondList(n)
    return obj


# ---------------------------------------------------------------------------
# index encoding
# ---------------------------------------------------------------------------
def dec(e):
    if isinstance(e, int):
        return e
    k = e[0]
    if k == "int":
        return int(e[1])
    if k == "npint":
        return np.int64(e[1])
    if k == "mask":
        return np.array(e[1], dtype=bool)
    if k == "smask":
        big = np.zeros(2 * len(e[1]), dtype=bool)
        big[::2] = e[1]
        return big[::2]
    if k == "arr":
        return np.array(e[1], dtype=e[2])
    if k == "romask":  # read-only mask
        a = np.array(e[1], dtype=bool)
        a.flags.writeable = False
        return a
    if k == "roarr":  # read-only index array
        a = np.array(e[1], dtype=e[2])
        a.flags.writeable = False
        return a
    if k == "list":
        return list(e[1])
    if k == "slice":
        return slice(*e[1])
    if k == "ellipsis":
        return Ellipsis
    if k == "tuple":
        return tuple(dec(x) for x in e[1])
    raise ValueError(e)


def sel_of(n, e):
    """Positions selected on an axis of length n by index e -> (list, is_scalar); raises like numpy."""
    idx = dec(e)
    if idx is Ellipsis:
        return list(range(n)), False
    r = np.arange(n)[idx]
    if np.ndim(r) == 0:
        return [int(r)], True
    return [int(x) for x in r], False


def numpy_accepts(n, e):
    try:
        sel_of(n, e)
        return True
    except (IndexError, TypeError, ValueError):
        return False


def atom_indices(n, tier):
    out = [["int", i] for i in range(-n - 1, n + 1)]
    out.append(["npint", n - 1])
    for s in ([None, None, None], [1, None, None], [None, -1, None], [None, None, 2], [None, None, -1], [1, 3, None],
              [-2, None, None], [n, None, None], [5, None, None]):
        out.append(["slice", s])
    if n <= 3:
        for bits in itertools.product([False, True], repeat=n):
            out.append(["mask", list(bits)])
    else:
        for bits in ([True] * n, [False] * n, [i % 2 == 0 for i in range(n)], [i != 1 for i in range(n)],
                     [i >= 2 for i in range(n)], [i in (0, n - 1) for i in range(n)]):
            out.append(["mask", list(bits)])
    if n:
        out.append(["smask", [i != 0 for i in range(n)]])
        out.append(["romask", [i != n - 1 for i in range(n)]])
        out.append(["roarr", [n - 1], "int64"])
    for k in (0, 1, 2):
        for perm in itertools.permutations(range(n), k):
            out.append(["arr", list(perm), "int64"])
            if k:
                neg = list(perm)
                neg[-1] -= n
                out.append(["arr", neg, "int32"])
    if n >= 1:
        out.append(["arr", [0, 0], "int64"])  # duplicate
        out.append(["arr", [n], "int64"])  # out of range
        out.append(["arr", [-n - 1], "int64"])
        out.append(["list", [n - 1, 0] if n >= 2 else [0]])
        out.append(["tuple", [["ellipsis"], ["arr", [n - 1], "int64"]]])
        out.append(["tuple", [["ellipsis"], ["slice", [None, None, -1]]]])
        out.append(["tuple", [["ellipsis"], ["int", -1]]])
    return out


def model_indices(m):
    out = [["int", i] for i in range(-m - 1, m + 1)]
    out += [["slice", [None, None, None]], ["slice", [1, None, None]], ["slice", [None, None, -1]], ["ellipsis"]]
    if m:
        out.append(["mask", [i % 2 == 0 for i in range(m)]])
        out.append(["arr", [m - 1, 0] if m >= 2 else [0], "int64"])
        out.append(["arr", [-1], "int64"])
    return out


def atom_indices_2d(n):
    out = [["int", i] for i in range(-n - 1, n + 1)]
    out += [["slice", [None, None, None]], ["slice", [1, None, None]], ["slice", [None, None, -1]]]
    if n:
        out.append(["mask", [i % 2 == 0 for i in range(n)]])
        out.append(["mask", [i == n - 1 for i in range(n)]])
        out.append(["arr", [n - 1, 0] if n >= 2 else [0], "int64"])
        out.append(["arr", [-1], "int64"])
    return out


# ---------------------------------------------------------------------------
# operations
# ---------------------------------------------------------------------------
AUX = {
    "x_a2": lambda: mk_array(2, bonds=False, box=False, start=7),
    "x_a2b": lambda: mk_array(2, bonds=True, box=True, extra=True, start=5),
    "x_a0": lambda: mk_array(0),
    "x_s2": lambda: mk_stack(2, 1, bonds=True, box=True),
    "x_s2e": lambda: mk_stack(2, 2, extra=True),
}

ATOMS = {
    "at_std": lambda: (atom(9, chain_id="Z", res_id=-7), (9.0, 8.0, 7.0)),
    "at_extra": lambda: (dict(atom(8), tag="q", num=99), (1.0, 2.0, 3.0)),
}


def gen_ops(m, tier):
    n = m.n
    ops = []
    if m.kind == "array":
        for e in atom_indices(n, tier):
            ops.append(["getitem", e])
        ops.append(["getitem", ["tuple", [["slice", [None, None, None]], ["slice", [None, None, None]], ["int", 0]]]])
    else:
        for e in model_indices(m.m):
            ops.append(["getitem", e])
        for me in model_indices(m.m):
            for ae in atom_indices_2d(n):
                ops.append(["getitem", ["tuple", [me, ae]]])
        ops.append(["getitem", ["tuple", [["int", 0], ["int", 0], ["int", 0]]]])
        ops.append(["getitem", ["tuple", [["ellipsis"], ["arr", [0], "int64"]]]] if n else ["noop"])
    for x in AUX:
        xm = AUX[x]()
        if xm.kind != m.kind:
            continue
        if m.kind == "stack" and xm.m != m.m:
            ops.append(["add", x])  # must refuse: depth mismatch
            continue
        if n + xm.n <= MAX_N:
            ops.append(["add", x])
            ops.append(["radd", x])
        if 2 * n + xm.n <= MAX_N:
            ops.append(["concat3", x])
    ops.append(["concat1"])
    if m.kind == "array":
        for k in (1, 2, 3):
            if k <= MAX_M:
                ops.append(["stack_of", k])
        ops.append(["stack_mismatch"])
        if n:
            ops.append(["array_of_list"])
        ops.append(["from_template", 2, True])
        ops.append(["from_template", 1, False])
    else:
        ops.append(["from_template", 2, False])
    for k in (1, 2):
        if n * k <= MAX_N:
            ops.append(["repeat", k])
    # deletion
    axis_len = n if m.kind == "array" else m.m
    for i in range(-axis_len - 1, axis_len + 1):
        ops.append(["del", i])
    ops.append(["del_slice"])
    # element assignment
    if m.kind == "array":
        for i in range(-n - 1, n + 1):
            for a in ATOMS:
                ops.append(["setatom", ["int", i], a])
        if n >= 2:
            ops.append(["setatom", ["arr", [0, n - 1], "int64"], "at_std"])
            ops.append(["setatom", ["arr", [-1], "int64"], "at_extra"])
            ops.append(["setatom", ["slice", [None, None, None]], "at_std"])  # TypeError documented
    else:
        for i in range(-m.m - 1, m.m + 1):
            for variant in ("equal", "other_annot", "other_bonds", "no_box"):
                ops.append(["setmodel", i, variant])
    # annotations
    ops += [["set_annot", "new"], ["set_annot", "existing"], ["set_annot", "wider"], ["set_annot", "wronglen"],
            ["set_annot", "float_nan"]] + ([["set_annot", "list"]] if n else []) + [
            ["add_annot", "flag"], ["add_annot", "tag_again"], ["del_annot", "tag"], ["del_annot", "absent"],
            ["attr_annot", "res_id"]]
    ops += [["set_coord", "ok"], ["set_coord", "f64"], ["set_coord", "wrong_n"], ["set_coord", "wrong_ndim"],
            ["set_coord", "wrong_last"], ["set_coord", "list"],
            ["set_box", "ok"], ["set_box", "none"], ["set_box", "wrong_ndim"], ["set_box", "wrong_shape"],
            ["set_bonds", "ok"], ["set_bonds", "none"], ["set_bonds", "wrong_n"], ["set_bonds", "wrong_type"],
            ["copy"]]
    return [o for o in ops if o != ["noop"]]


class Refuse(Exception):
    """model verdict: the call must raise and leave the container unchanged"""

    def __init__(self, classes=None):
        self.classes = classes


class Either(Exception):
    """model verdict: statement is silent; exception or coherent container"""


def m_take_atoms(m, sel):
    if m.bonds is not None and len(set(sel)) < len(sel):
        raise Refuse(("NotImplementedError",))
    r = M(m.kind, [dict(m.atoms[i]) for i in sel], list(m.cats), [[c[i] for i in sel] for c in m.coords],
          None if m.box is None else list(m.box), None)
    if m.bonds is not None:
        pos = {old: new for new, old in enumerate(sel)}
        r.bonds = {}
        for (i, j), t in m.bonds.items():
            if i in pos and j in pos:
                a, b = pos[i], pos[j]
                r.bonds[(min(a, b), max(a, b))] = t
    return r


def m_take_models(m, sel):
    return M("stack", [dict(a) for a in m.atoms], list(m.cats), [list(m.coords[k]) for k in sel],
             None if m.box is None else [m.box[k] for k in sel], None if m.bonds is None else dict(m.bonds))


def m_model_as_array(m, k):
    return M("array", [dict(a) for a in m.atoms], list(m.cats), [list(m.coords[k])],
             None if m.box is None else [m.box[k]], None if m.bonds is None else dict(m.bonds))


def m_getitem(m, e):
    """-> ('container', M) | ('atom', dict, coord)"""
    if m.kind == "array":
        if e[0] == "tuple":
            parts = e[1]
            if len(parts) == 2 and parts[0] == ["ellipsis"]:
                return m_getitem(m, parts[1])
            raise Refuse()
        if not numpy_accepts(m.n, e):
            raise Either()
        sel, scalar = sel_of(m.n, e)
        if scalar:
            return ("atom", dict(m.atoms[sel[0]]), m.coords[0][sel[0]])
        return ("container", m_take_atoms(m, sel))
    # stack
    if e[0] == "tuple":
        parts = e[1]
        if len(parts) != 2:
            raise Refuse()
        me, ae = parts
        if me != ["ellipsis"] and not numpy_accepts(m.m, me):
            raise Either()
        if not numpy_accepts(m.n, ae):
            raise Either()
        asel, ascalar = sel_of(m.n, ae)
        if me == ["ellipsis"]:
            msel, mscalar = list(range(m.m)), False
        else:
            msel, mscalar = sel_of(m.m, me)
        if mscalar:
            arr = m_model_as_array(m, msel[0])
            if ascalar:
                return ("atom", dict(arr.atoms[asel[0]]), arr.coords[0][asel[0]])
            return ("container", m_take_atoms(arr, asel))
        # a scalar atom index on a stack keeps the atom axis (a stack of one atom)
        return ("container", m_take_atoms(m_take_models(m, msel), asel))
    if e == ["ellipsis"]:
        return ("container", m.copy())
    if not numpy_accepts(m.m, e):
        raise Either()
    msel, mscalar = sel_of(m.m, e)
    if mscalar:
        return ("container", m_model_as_array(m, msel[0]))
    return ("container", m_take_models(m, msel))


def m_concat(parts):
    first = parts[0]
    if any(p.kind != first.kind for p in parts):
        raise Refuse()
    if first.kind == "stack" and any(p.m != first.m for p in parts):
        raise Refuse()
    cats = [c for c in first.cats if all(c in p.cats for p in parts)]
    atoms = [{c: a[c] for c in cats} for p in parts for a in p.atoms]
    coords = [[c for p in parts for c in p.coords[k]] for k in range(first.m)]
    box = None
    for p in parts:
        if p.box is not None:
            box = list(p.box)
            break
    bonds = None
    if any(p.bonds is not None for p in parts):
        bonds = {}
        off = 0
        for p in parts:
            for (i, j), t in (p.bonds or {}).items():
                bonds[(i + off, j + off)] = t
            off += p.n
    return M(first.kind, atoms, cats, coords, box, bonds)


def newcoords(m_depth, n, salt):
    return [[(float(salt + k), float(i), -1.0) for i in range(n)] for k in range(m_depth)]


def apply_model(m, op):
    """-> ('state', M) for operations whose result becomes the current container,
          ('leaf', description) for pure queries,  raises Refuse / Either."""
    k = op[0]
    n = m.n
    if k == "getitem":
        r = m_getitem(m, op[1])
        if r[0] == "atom":
            return ("leaf", r)
        return ("state", r[1])
    if k in ("add", "radd", "concat3"):
        x = AUX[op[1]]()
        parts = {"add": [m, x], "radd": [x, m], "concat3": [m, x, m]}[k]
        return ("state", m_concat(parts))
    if k == "concat1":
        return ("state", m_concat([m]))
    if k == "stack_of":
        return ("state", M("stack", [dict(a) for a in m.atoms], list(m.cats),
                           [[(c[0] + 100 * j, c[1], c[2]) for c in m.coords[0]] for j in range(op[1])],
                           None if m.box is None else [m.box[0]] * op[1],
                           None if m.bonds is None else dict(m.bonds)))
    if k == "stack_mismatch":
        raise Refuse()
    if k == "array_of_list":
        return ("state", M("array", [dict(a) for a in m.atoms], sorted(m.cats), [list(m.coords[0])], None, None))
    if k == "from_template":
        depth, with_box = op[1], op[2]
        return ("state", M("stack", [dict(a) for a in m.atoms], list(m.cats), newcoords(depth, n, 40),
                           [BOX(5 + j) for j in range(depth)] if with_box else None,
                           None if m.bonds is None else dict(m.bonds)))
    if k == "repeat":
        rep = op[1]
        atoms = [dict(a) for _ in range(rep) for a in m.atoms]
        coords = [[(c[0] + 50.0 * r, c[1], c[2]) for r in range(rep) for c in m.coords[km]] for km in range(m.m)]
        bonds = None
        if m.bonds is not None:
            bonds = {}
            for r in range(rep):
                for (i, j), t in m.bonds.items():
                    bonds[(i + r * n, j + r * n)] = t
        return ("state", M(m.kind, atoms, list(m.cats), coords, None if m.box is None else list(m.box), bonds))
    if k == "del":
        i = op[1]
        if m.kind == "array":
            if not (-n <= i < n):
                raise Refuse()
            i %= n
            return ("state", m_take_atoms(m, [j for j in range(n) if j != i]))
        if not (-m.m <= i < m.m):
            raise Refuse()
        i %= m.m
        return ("state", m_take_models(m, [j for j in range(m.m) if j != i]))
    if k == "del_slice":
        raise Refuse(("TypeError",))
    if k == "setatom":
        a, c = ATOMS[op[2]]()
        e = op[1]
        if e[0] == "slice":
            raise Refuse(("TypeError",))
        if not numpy_accepts(n, e):
            raise Refuse()
        if any(cat not in a for cat in m.cats):
            raise Refuse()
        sel, _ = sel_of(n, e)
        r = m.copy()
        for i in sel:
            r.atoms[i] = {cat: a[cat] for cat in m.cats}
            r.coords[0][i] = c
        return ("state", r)
    if k == "setmodel":
        i, variant = op[1], op[2]
        if variant in ("other_annot", "other_bonds"):
            if (variant == "other_bonds" and m.n < 2) or (variant == "other_annot" and m.n == 0):
                pass  # no different bond list / annotation values can be built: behaves like 'equal'
            else:
                raise Refuse()
        if not (-m.m <= i < m.m):
            raise Refuse()
        if variant == "no_box" and m.box is not None:
            raise Either()
        r = m.copy()
        r.coords[i % m.m] = [(7.0 + j, 7.0, 7.0) for j in range(n)]
        if m.box is not None:
            r.box[i % m.m] = BOX(9)
        return ("state", r)
    if k == "set_annot":
        v = op[1]
        r = m.copy()
        if v == "new":
            if "extra2" not in r.cats:
                r.cats.append("extra2")
            for i, a in enumerate(r.atoms):
                a["extra2"] = "e%d" % i
            return ("state", r)
        if v in ("existing", "list"):
            for i, a in enumerate(r.atoms):
                a["res_id"] = 100 + i
            return ("state", r)
        if v == "wider":
            for i, a in enumerate(r.atoms):
                a["chain_id"] = "LONGER%d" % i
            return ("state", r)
        if v == "wronglen":
            raise Refuse()
        if v == "float_nan":
            if "fl" not in r.cats:
                r.cats.append("fl")
            for i, a in enumerate(r.atoms):
                a["fl"] = float("nan") if i == 0 else 0.5 * i
            return ("state", r)
    if k == "add_annot":
        r = m.copy()
        if op[1] == "flag":
            if "flag" not in r.cats:
                r.cats.append("flag")
                for a in r.atoms:
                    a["flag"] = False
            return ("state", r)
        if op[1] == "tag_again":
            if "tag" not in r.cats:
                r.cats.append("tag")
                for a in r.atoms:
                    a["tag"] = ""
            return ("state", r)
    if k == "del_annot":
        name = {"tag": "tag", "absent": "nonexistent", "element": "element"}[op[1]]
        r = m.copy()
        if name in r.cats:
            r.cats.remove(name)
            for a in r.atoms:
                del a[name]
        return ("state", r)
    if k == "attr_annot":
        r = m.copy()
        for i, a in enumerate(r.atoms):
            a["res_id"] = -5 - i
        return ("state", r)
    if k == "set_coord":
        v = op[1]
        if v in ("ok", "f64"):
            r = m.copy()
            r.coords = newcoords(m.m, n, 20 if v == "ok" else 30)
            return ("state", r)
        if v == "wrong_n" or v == "wrong_ndim" or v == "wrong_last" or v == "list":
            raise Refuse()
    if k == "set_box":
        v = op[1]
        r = m.copy()
        if v == "ok":
            r.box = [BOX(3 + j) for j in range(m.m)]
            return ("state", r)
        if v == "none":
            r.box = None
            return ("state", r)
        if v in ("wrong_ndim", "wrong_shape"):
            raise Refuse()
        if v == "wrong_depth":
            if m.kind == "array":
                raise Refuse()
            # a box array whose depth differs from the stack depth breaks "per-model boxes keep matching depth"
            raise Refuse()
    if k == "set_bonds":
        v = op[1]
        r = m.copy()
        if v == "ok":
            r.bonds = {(0, n - 1): 2} if n >= 2 else {}
            return ("state", r)
        if v == "none":
            r.bonds = None
            return ("state", r)
        raise Refuse()
    if k == "copy":
        return ("state", m.copy())
    raise ValueError(op)


def apply_impl(obj, m, op):
    """Execute op on the real object. Returns the resulting object (new or same)."""
    import biotite.structure as struc

    k = op[0]
    n = obj.array_length()
    if k == "getitem":
        return obj[dec(op[1])]
    if k in ("add", "radd", "concat3"):
        x = build(AUX[op[1]]())
        if k == "add":
            return obj + x
        if k == "radd":
            return x + obj
        return struc.concatenate([obj, x, obj])
    if k == "concat1":
        return struc.concatenate([obj])
    if k == "stack_of":
        arrs = [obj]
        for j in range(1, op[1]):
            a = obj.copy()
            c = a.coord.copy()
            c[:, 0] += 100 * j
            a.coord = c
            arrs.append(a)
        return struc.stack(arrs)
    if k == "stack_mismatch":
        a = obj.copy()
        b = obj.copy()
        b.set_annotation("res_id", np.arange(n) + 1000)
        if n == 0:
            b = struc.AtomArray(1)
        return struc.stack([a, b])
    if k == "array_of_list":
        return struc.array(list(obj))
    if k == "from_template":
        depth, with_box = op[1], op[2]
        coord = np.array(newcoords(depth, n, 40), dtype=np.float32).reshape(depth, n, 3)
        box = np.array([BOX(5 + j) for j in range(depth)], dtype=np.float32) if with_box else None
        return struc.from_template(obj, coord, box)
    if k == "repeat":
        rep = op[1]
        base = obj.coord
        cs = []
        for r in range(rep):
            c = base.copy()
            c[..., 0] += 50.0 * r
            cs.append(c)
        return struc.repeat(obj, np.stack(cs, axis=0))
    if k == "del":
        del obj[op[1]]
        return obj
    if k == "del_slice":
        del obj[0:1]
        return obj
    if k == "setatom":
        a, c = ATOMS[op[2]]()
        obj[dec(op[1])] = struc.Atom(list(c), **a)
        return obj
    if k == "setmodel":
        i, variant = op[1], op[2]
        mm = m_model_as_array(m, 0) if m.m else M("array", m.atoms, m.cats, [[(0.0, 0.0, 0.0)] * m.n], None, m.bonds)
        mm = mm.copy()
        mm.coords = [[(7.0 + j, 7.0, 7.0) for j in range(m.n)]]
        mm.box = [BOX(9)] if (m.box is not None and variant != "no_box") else None
        if variant == "other_annot":
            mm.atoms = [dict(a, res_id=a["res_id"] + 1) for a in mm.atoms]
        if variant == "other_bonds" and m.n >= 2:
            mm.bonds = {(0, 1): 3} if (m.bonds or {}).get((0, 1)) != 3 else {}
        obj[i] = build(mm)
        return obj
    if k == "set_annot":
        v = op[1]
        if v == "new":
            obj.set_annotation("extra2", np.array(["e%d" % i for i in range(n)], dtype="U3"))
        elif v == "existing":
            obj.set_annotation("res_id", np.arange(n) + 100)
        elif v == "list":
            obj.set_annotation("res_id", [100 + i for i in range(n)])
        elif v == "wider":
            obj.set_annotation("chain_id", np.array(["LONGER%d" % i for i in range(n)]))
        elif v == "wronglen":
            obj.set_annotation("res_id", np.arange(n + 1))
        elif v == "float_nan":
            obj.set_annotation("fl", np.array([float("nan") if i == 0 else 0.5 * i for i in range(n)], dtype=float))
        return obj
    if k == "add_annot":
        if op[1] == "flag":
            obj.add_annotation("flag", dtype=bool)
        else:
            obj.add_annotation("tag", dtype="U3")
        return obj
    if k == "del_annot":
        obj.del_annotation({"tag": "tag", "absent": "nonexistent", "element": "element"}[op[1]])
        return obj
    if k == "attr_annot":
        obj.res_id = np.array([-5 - i for i in range(n)], dtype=int)
        return obj
    if k == "set_coord":
        v = op[1]
        shape = (n, 3) if m.kind == "array" else (m.m, n, 3)
        if v == "ok":
            obj.coord = np.array(newcoords(m.m, n, 20), dtype=np.float32).reshape(shape)
        elif v == "f64":
            obj.coord = np.array(newcoords(m.m, n, 30), dtype=np.float64).reshape(shape)
        elif v == "wrong_n":
            obj.coord = np.zeros(shape[:-2] + (n + 1, 3), dtype=np.float32)
        elif v == "wrong_ndim":
            obj.coord = np.zeros((2,) + shape, dtype=np.float32)
        elif v == "wrong_last":
            obj.coord = np.zeros(shape[:-1] + (2,), dtype=np.float32)
        elif v == "list":
            obj.coord = np.zeros(shape).tolist()
        return obj
    if k == "set_box":
        v = op[1]
        if v == "ok":
            b = np.array([BOX(3 + j) for j in range(m.m)], dtype=np.float64)
            obj.box = b[0] if m.kind == "array" else b.reshape(m.m, 3, 3)
        elif v == "none":
            obj.box = None
        elif v == "wrong_ndim":
            obj.box = np.zeros((3, 3)) if m.kind == "stack" else np.zeros((1, 3, 3))
        elif v == "wrong_shape":
            obj.box = np.zeros((3, 2)) if m.kind == "array" else np.zeros((m.m, 3, 2))
        elif v == "wrong_depth":
            obj.box = np.zeros((m.m + 1, 3, 3)) if m.kind == "stack" else np.zeros((2, 3, 3))
        return obj
    if k == "set_bonds":
        v = op[1]
        if v == "ok":
            obj.bonds = struc.BondList(n, np.array([[0, n - 1, 2]])) if n >= 2 else struc.BondList(n)
        elif v == "none":
            obj.bonds = None
        elif v == "wrong_n":
            obj.bonds = struc.BondList(n + 1)
        elif v == "wrong_type":
            obj.bonds = [(0, 1)]
        return obj
    if k == "copy":
        return obj.copy()
    raise ValueError(op)


INPLACE = {"del", "del_slice", "setatom", "setmodel", "set_annot", "add_annot", "del_annot", "attr_annot", "set_coord",
           "set_box", "set_bonds"}


# ---------------------------------------------------------------------------
# observation
# ---------------------------------------------------------------------------
def coherent(obj):
    """Internal coherence of a container (the only demand on EITHER results)."""
    import biotite.structure as struc

    bad = []
    n = obj.array_length()
    if isinstance(obj, struc.AtomArrayStack):
        depth = obj.stack_depth()
        if obj.coord.shape != (depth, n, 3):
            bad.append(("coord.shape", (depth, n, 3), obj.coord.shape))
        if obj.box is not None and obj.box.shape != (depth, 3, 3):
            bad.append(("box.shape", (depth, 3, 3), obj.box.shape))
        if obj.shape != (depth, n):
            bad.append(("shape", (depth, n), obj.shape))
    else:
        if obj.coord.shape != (n, 3):
            bad.append(("coord.shape", (n, 3), obj.coord.shape))
        if obj.box is not None and obj.box.shape != (3, 3):
            bad.append(("box.shape", (3, 3), obj.box.shape))
        if obj.shape != (n,):
            bad.append(("shape", (n,), obj.shape))
    for c in obj.get_annotation_categories():
        a = obj.get_annotation(c)
        if a.shape != (n,):
            bad.append(("annotation[%s].shape" % c, (n,), a.shape))
    if obj.bonds is not None:
        if obj.bonds.get_atom_count() != n:
            bad.append(("bonds.atom_count", n, obj.bonds.get_atom_count()))
        arr = obj.bonds.as_array()
        if len(arr) and arr[:, :2].max() >= n:
            bad.append(("bonds.index_range", "< %d" % n, arr.tolist()))
    return bad


def same_value(x, y):
    if isinstance(x, float) and isinstance(y, float) and x != x and y != y:
        return True
    return x == y


def observe(obj, m):
    import biotite.structure as struc

    bad = coherent(obj)
    if bad:
        return bad
    n = m.n
    want_type = struc.AtomArray if m.kind == "array" else struc.AtomArrayStack
    if type(obj) is not want_type:
        return [("type", want_type.__name__, type(obj).__name__)]
    if obj.array_length() != n or len(obj) != (n if m.kind == "array" else m.m):
        return [("length", (n, m.m), (obj.array_length(), len(obj)))]
    if sorted(obj.get_annotation_categories()) != sorted(m.cats):
        return [("annotation_categories", sorted(m.cats), sorted(obj.get_annotation_categories()))]
    for c in m.cats:
        a = obj.get_annotation(c)
        got = a.tolist()
        exp = [x[c] for x in m.atoms]
        if len(got) != len(exp) or not all(same_value(g, e) for g, e in zip(got, exp)):
            bad.append(("annotation[%s]" % c, exp, got))
        kind = a.dtype.kind
        want_kind = {"U": "U", "i": "iu", "b": "b", "f": "f"}[np.dtype(DTYPES[c]).kind]
        if n and kind not in want_kind:
            bad.append(("annotation[%s].dtype" % c, want_kind, str(a.dtype)))
        if getattr(obj, c) is not a:
            bad.append(("attribute[%s] is get_annotation" % c, True, False))
    shape = (n, 3) if m.kind == "array" else (m.m, n, 3)
    exp_c = np.array(m.coords, dtype=np.float32).reshape(shape)
    if obj.coord.dtype != np.float32:
        bad.append(("coord.dtype", "float32", str(obj.coord.dtype)))
    if obj.coord.shape != shape or not np.array_equal(obj.coord, exp_c, equal_nan=True):
        bad.append(("coord", exp_c.tolist(), obj.coord.tolist()))
    if m.box is None:
        if obj.box is not None:
            bad.append(("box", None, obj.box.tolist()))
    else:
        eb = np.array(m.box, dtype=np.float32)
        eb = eb[0] if m.kind == "array" else eb.reshape(m.m, 3, 3)
        if obj.box is None or obj.box.shape != eb.shape or not np.array_equal(obj.box, eb):
            bad.append(("box", eb.tolist(), None if obj.box is None else obj.box.tolist()))
    if m.bonds is None:
        if obj.bonds is not None:
            bad.append(("bonds", None, sorted(obj.bonds.as_set())))
    else:
        exp_b = {(i, j, t) for (i, j), t in m.bonds.items()}
        if obj.bonds is None:
            bad.append(("bonds", sorted(exp_b), None))
        else:
            got_b = {tuple(int(x) for x in r) for r in obj.bonds.as_set()}
            if got_b != exp_b or obj.bonds.get_atom_count() != n:
                bad.append(("bonds", sorted(exp_b), sorted(got_b)))
    if bad:
        return bad
    twin = build(m)
    has_nan_annot = any(isinstance(a.get(c), float) and a[c] != a[c] for a in m.atoms for c in m.cats)
    if not (obj == twin) or not (twin == obj):
        bad.append(("eq(model-built)", True, False))
    # one-field perturbations must compare unequal
    if n:
        p = m.copy()
        p.atoms[0]["res_id"] = p.atoms[0]["res_id"] + 1
        if obj == build(p):
            bad.append(("eq(perturbed annotation)", False, True))
        if m.m:
            p = m.copy()
            c = p.coords[-1][n - 1]
            p.coords[-1][n - 1] = (c[0] + 1.0, c[1], c[2])
            if obj == build(p):
                bad.append(("eq(perturbed coord)", False, True))
    p = m.copy()
    p.box = None if m.box is not None else [BOX(1)] * max(1, m.m if m.kind == "stack" else 1)
    if not (m.kind == "stack" and m.m == 0 and p.box is not None):
        if obj == build(p):
            bad.append(("eq(perturbed box)", False, True))
    p = m.copy()
    p.bonds = None if m.bonds is not None else {}
    if obj == build(p):
        bad.append(("eq(perturbed bonds)", False, True))
    if bad:
        return bad
    # leaf views
    if m.kind == "array":
        for i in range(-n, n):
            at = obj.get_atom(i)
            exp = m.atoms[i % n]
            if any(not same_value(_py(at._annot[c]), exp[c]) for c in m.cats) or \
                    [float(x) for x in at.coord] != list(m.coords[0][i % n]):
                bad.append(("get_atom(%d)" % i, exp, {c: _py(at._annot[c]) for c in m.cats}))
        its = list(obj)
        if len(its) != n or any(not (its[i] == obj.get_atom(i)) for i in range(n) if not has_nan_annot):
            bad.append(("iteration", n, len(its)))
    else:
        for k in range(-m.m, m.m):
            arr = obj.get_array(k)
            sub = observe_light(arr, m_model_as_array(m, k % m.m))
            if sub:
                bad.append(("get_array(%d).%s" % (k, sub[0][0]), sub[0][1], sub[0][2]))
        its = list(obj)
        if len(its) != m.m:
            bad.append(("iteration", m.m, len(its)))
    if bad:
        return bad
    # copy independence: mutate every component of the copy in place
    c = obj.copy()
    if not (c == obj) or type(c) is not type(obj):
        return [("copy()==original", True, False)]
    for cat in c.get_annotation_categories():
        a = c.get_annotation(cat)
        if len(a):
            a[0] = a[-1] if a.dtype.kind != "b" else not a[0]
            if a.dtype.kind in "iu":
                a[0] = 12345
            elif a.dtype.kind == "U":
                a[0] = "~"
            elif a.dtype.kind == "f":
                a[0] = -1.25
    if c.coord.size:
        c.coord[...] = -99.0
    if c.box is not None and c.box.size:
        c.box[...] = 1.0
    if c.bonds is not None and n >= 2:
        c.bonds.add_bond(0, n - 1, 4)
        c.bonds.remove_bond_order()
    c.set_annotation("zzz", np.zeros(n))
    again = observe_light(obj, m)
    if again:
        bad.append(("copy independence: %s" % again[0][0], again[0][1], again[0][2]))
    return bad


def _py(x):
    return x.item() if isinstance(x, np.generic) else x


def observe_light(obj, m):
    """values only (used for sub-objects and after mutating a copy)"""
    bad = coherent(obj)
    if bad:
        return bad
    n = m.n
    if sorted(obj.get_annotation_categories()) != sorted(m.cats):
        return [("annotation_categories", sorted(m.cats), sorted(obj.get_annotation_categories()))]
    for c in m.cats:
        got = obj.get_annotation(c).tolist()
        exp = [x[c] for x in m.atoms]
        if len(got) != len(exp) or not all(same_value(g, e) for g, e in zip(got, exp)):
            return [("annotation[%s]" % c, exp, got)]
    shape = (n, 3) if m.kind == "array" else (m.m, n, 3)
    exp_c = np.array(m.coords, dtype=np.float32).reshape(shape)
    if obj.coord.shape != shape or not np.array_equal(obj.coord, exp_c, equal_nan=True):
        return [("coord", exp_c.tolist(), obj.coord.tolist())]
    if (m.box is None) != (obj.box is None):
        return [("box", m.box, None if obj.box is None else obj.box.tolist())]
    if m.box is not None:
        eb = np.array(m.box, dtype=np.float32)
        eb = eb[0] if m.kind == "array" else eb.reshape(m.m, 3, 3)
        if obj.box.shape != eb.shape or not np.array_equal(obj.box, eb):
            return [("box", eb.tolist(), obj.box.tolist())]
    if (m.bonds is None) != (obj.bonds is None):
        return [("bonds", m.bonds, None)]
    if m.bonds is not None:
        exp_b = {(i, j, t) for (i, j), t in m.bonds.items()}
        got_b = {tuple(int(x) for x in r) for r in obj.bonds.as_set()}
        if got_b != exp_b:
            return [("bonds", sorted(exp_b), sorted(got_b))]
    return []


def canon(obj, m):
    dt = tuple((c, str(obj.get_annotation(c).dtype)) for c in sorted(obj.get_annotation_categories()))
    b = None if obj.bonds is None else (obj.bonds.as_array().tobytes(), int(getattr(obj.bonds, "_max_bonds_per_atom", -1)))
    return (m.key(), dt, b)


# ---------------------------------------------------------------------------
# exploration
# ---------------------------------------------------------------------------
def op_class(op, m):
    k = op[0]
    if k == "getitem":
        return "getitem_" + index_class(op[1], m)
    if k == "setatom":
        return "setatom_" + index_class(op[1], m)
    if k in ("del", "setmodel"):
        i = op[1]
        ax = m.n if (m.kind == "array") else m.m
        cls = "oor" if not (-ax <= i < ax) else ("neg" if i < 0 else "pos")
        return "%s_%s_%s%s" % (k, m.kind, cls, ("_" + op[2]) if k == "setmodel" else "")
    if len(op) > 1 and isinstance(op[1], str):
        return "%s_%s_%s" % (k, op[1], m.kind)
    return "%s_%s" % (k, m.kind)


def index_class(e, m, axis_len=None):
    n = axis_len if axis_len is not None else (m.n if m.kind == "array" else m.m)
    k = e[0]
    if k in ("int", "npint"):
        i = e[1]
        return "int_" + ("oor" if not (-n <= i < n) else ("neg" if i < 0 else "pos"))
    if k == "slice":
        st = e[1][2]
        return "slice" + ("_negstep" if (st or 1) < 0 else "")
    if k in ("mask", "smask", "romask"):
        return k
    if k in ("arr", "list", "roarr"):
        v = e[1]
        oor = any(not (-n <= x < n) for x in v)
        return "%s%s%s%s" % (k, "_oor" if oor else "", "_neg" if any(x < 0 for x in v) else "",
                             "_dup" if len(set(v)) < len(v) else "")
    if k == "ellipsis":
        return "ellipsis"
    if k == "tuple":
        parts = e[1]
        if m.kind == "stack" and len(parts) == 2:
            return "2d[%s,%s]" % (index_class(parts[0], m, m.m), index_class(parts[1], m, m.n))
        return "tuple%d[%s]" % (len(parts), ",".join(index_class(p, m, m.n) for p in parts))
    return k


def rebuild(init, hist):
    m = INITS[init]()
    obj = build(m)
    for op in hist:
        r = apply_model(m, op)
        obj = apply_impl(obj, m, op)
        m = r[1]
    return obj


def snapshot(obj):
    return observe_snapshot(obj)


def observe_snapshot(obj):
    return (obj.shape, {c: obj.get_annotation(c).tolist() for c in obj.get_annotation_categories()},
            obj.coord.tolist(), None if obj.box is None else obj.box.tolist(),
            None if obj.bonds is None else sorted(map(tuple, obj.bonds.as_array().tolist())))


def step_check(ctx, init, hist, m, op, base):
    """Returns ('state', M, obj) | ('leaf',) | ('refused',) | ('either',) | None on violation."""
    import biotite.structure as struc

    case = {"init": init, "hist": hist + [op]}
    ocl = op_class(op, m)
    shared = op[0] not in INPLACE
    obj = base if shared else rebuild(init, hist)
    ctx.transition()
    try:
        verdict = apply_model(m, op)
    except Refuse as r:
        verdict = ("refuse", r.classes)
    except Either:
        verdict = ("either",)
    try:
        res = apply_impl(obj, m, op)
        exc = None
    except Exception as e:  # noqa: BLE001
        res, exc = None, type(e).__name__
    # the operand of an operation that returns a new container must be unchanged; after a
    # refused in-place call the container only has to stay coherent (the statement does not
    # promise atomic failure)
    if shared:
        still = observe_light(obj, m)
        if still:
            ctx.violation("%s|operand_mutated|%s" % (ocl, still[0][0].split("[")[0]),
                          "%s changed the container it was applied to" % op[0], case, still[0][1], still[0][2])
            return None
    elif exc is not None:
        inc = coherent(obj)
        if inc:
            ctx.violation("%s|incoherent_after_error|%s" % (ocl, inc[0][0].split("[")[0]),
                          "a failed %s left annotation/coord/box/bonds lengths inconsistent" % op[0], case,
                          inc[0][1], inc[0][2])
            return None
    if verdict[0] == "refuse":
        ctx.count("refused")
        if exc is None:
            ctx.violation("%s|not_refused" % ocl, "invalid operation did not raise", case,
                          "exception", "returned " + type(res).__name__)
            return None
        if verdict[1] and exc not in verdict[1]:
            ctx.violation("%s|wrong_exception_%s" % (ocl, exc), "documented exception class differs", case,
                          list(verdict[1]), exc)
            return None
        return ("refused",)
    if verdict[0] == "either":
        ctx.count("unspecified")
        if exc is None and isinstance(res, (struc.AtomArray, struc.AtomArrayStack)):
            bad = coherent(res)
            if bad:
                ctx.violation("%s|incoherent_result|%s" % (ocl, bad[0][0]),
                              "index outside numpy's domain returned an incoherent container", case, bad[0][1],
                              bad[0][2])
                return None
        return ("either",)
    ctx.count("accepted")
    if exc is not None:
        ctx.violation("%s|unexpected_%s" % (ocl, exc), "legal operation raised %s" % exc, case, "success", exc)
        return None
    if verdict[0] == "leaf":
        _, a, c = verdict[1]
        if not isinstance(res, struc.Atom):
            ctx.violation("%s|leaf_type" % ocl, "scalar index did not return an Atom", case, "Atom",
                          type(res).__name__)
            return None
        got = {k: _py(v) for k, v in res._annot.items()}
        if sorted(got) != sorted(a) or any(not same_value(got[k], a[k]) for k in a) or \
                [float(x) for x in res.coord] != list(c):
            ctx.violation("%s|leaf_value" % ocl, "scalar index returned the wrong atom", case, [a, c],
                          [got, res.coord.tolist()])
            return None
        # 'a copy shares no mutable state with its original' also holds for the copy of a picked atom
        # (whether the picked atom itself is a view of the container is unspecified, see ASSUMPTIONS)
        try:
            cp = res.copy()
            cp.coord[...] = -55.5
            cp.coord += 1.0
            for k2 in list(cp._annot):
                cp._annot[k2] = cp._annot[k2]  # re-binding only
            shared = [float(x) for x in res.coord] != list(c)
        except Exception as e:  # noqa: BLE001
            ctx.violation("%s|leaf_copy_raises_%s" % (ocl, type(e).__name__), "copying a picked atom failed", case,
                          "independent copy", repr(e)[:200])
            return None
        if shared:
            ctx.violation("%s|leaf_copy_not_independent" % ocl,
                          "editing the coordinates of Atom.copy() in place changed the atom it was copied from",
                          case, list(c), res.coord.tolist())
            return None
        return ("leaf",)
    m2 = verdict[1]
    key = canon_safe(res, m2)
    if key is None or key not in ctx._observed:
        bad = observe(res, m2)
        if bad:
            ctx.violation("%s|%s" % (ocl, bad[0][0].split("(")[0].split("[")[0]),
                          "%s disagrees with the list-of-atoms model after %s" % (bad[0][0], op[0]), case,
                          bad[0][1], bad[0][2])
            return None
        ctx._observed.add(key)
    else:
        bad = observe_light(res, m2)
        if bad:
            ctx.violation("%s|%s" % (ocl, bad[0][0].split("(")[0].split("[")[0]),
                          "%s disagrees with the list-of-atoms model after %s" % (bad[0][0], op[0]), case,
                          bad[0][1], bad[0][2])
            return None
    if shared:
        # The reference model builds a NEW list for every operation that returns a container, so
        # editing the result must not reach the operand.  Whether array buffers are shared is
        # unspecified (ASSUMPTIONS), therefore only re-binding edits are made: they never write
        # through a buffer, but they do reach the operand if the 'result' IS the operand or shares
        # its annotation dictionary.
        shape = tuple(res.shape)
        how = "is_operand" if res is obj else None
        if how is None:
            try:
                res.set_annotation("zz_new", np.zeros(res.array_length()))
                if res.shape[0] > 0:
                    del res[0]
                res.coord = res.coord + 1.0
                res.box = None
                res.bonds = None
            except Exception as e:  # noqa: BLE001
                ctx.violation("%s|result_not_editable_%s" % (ocl, type(e).__name__),
                              "the result of %s refused a plain edit" % op[0], case, "success", repr(e)[:200])
                return None
            still = observe_light(obj, m)
            if still:
                how = "edit_reaches_operand:" + still[0][0].split("[")[0]
        if how:
            ctx.violation("%s|result_not_distinct|%s" % (ocl, how.split(":")[-1]),
                          "%s returned a container that is (or shares its annotation table with) the operand: "
                          "editing the result changed the operand" % op[0], case, "operand unchanged", how)
            return None
        return ("state", m2, res, key if key is not None else ("nokey", id(res)), shape)
    return ("state", m2, res, canon(res, m2), tuple(res.shape))


def canon_safe(obj, m):
    try:
        return canon(obj, m)
    except Exception:  # noqa: BLE001
        return None


def shards(tier, seed):
    out = []
    for init in INITS:
        for r in range(NRES):
            out.append({"init": init, "res": r})
    k = seed % len(out)
    return out[k:] + out[:k]


def run_shard(shard, ctx):
    init, res = shard["init"], shard["res"]
    depth = 2 if ctx.tier == "quick" else 3
    ctx._observed = set()
    m0 = INITS[init]()
    obj0 = build(m0)
    if res == 0:
        ctx.ev(1)
        bad = observe(obj0, m0)
        if bad:
            ctx.violation("init|%s" % bad[0][0], "model-built container disagrees with its model",
                          {"init": init, "hist": []}, bad[0][1], bad[0][2])
            return
    ctx.state(canon(obj0, m0))
    frontier = [([], m0)]
    for d in range(1, depth + 1):
        nxt = []
        for hist, m in frontier:
            ops = gen_ops(m, ctx.tier)
            base = rebuild(init, hist)
            pre = json.dumps({"init": init, "hist": hist})
            for oi, op in enumerate(ops):
                if d == 1 and oi % NRES != res:
                    continue
                if not ctx.journal(pre + "#" + json.dumps(op)):
                    continue
                r = step_check(ctx, init, hist, m, op, base)
                ctx.trace()
                if r is None:
                    ctx.ev(1, 1)
                    if op[0] not in INPLACE:
                        base = rebuild(init, hist)
                    continue
                nontriv = r[0] in ("leaf", "refused") or (r[0] == "state" and (r[1].n > 0 or m.n > 0))
                ctx.ev(1, 1 if nontriv else 0)
                ctx.outcome((op_class(op, m), r[0], r[1].key() if r[0] == "state" else None))
                if r[0] == "state":
                    if ctx.state(r[3]):
                        if len(ctx.samples) < 3 and d >= 2 and r[1].n:
                            ctx.sample({"init": init, "hist": hist + [op], "reached_shape": list(r[4])})
                        if d < depth and r[1].n <= MAX_N and r[1].m <= MAX_M:
                            nxt.append((hist + [op], r[1]))
        frontier = nxt


def crash_class(case):
    if isinstance(case, str) and "#" in case:
        try:
            return json.loads(case.split("#", 1)[1])[0]
        except ValueError:
            pass
    return "unclassified"


def replay(case, ctx):
    if isinstance(case, str) and "#" in case:
        a, b = case.split("#", 1)
        case = json.loads(a)
        case["hist"] = case["hist"] + [json.loads(b)]
    init, hist = case["init"], case["hist"]
    ctx._observed = set()
    m = INITS[init]()
    for i, op in enumerate(hist):
        base = rebuild(init, hist[:i])
        r = step_check(ctx, init, hist[:i], m, op, base)
        if r is None:
            return
        if r[0] == "state":
            m = r[1]
        elif i < len(hist) - 1:
            return
