"""C05 - BinaryCIF encodings are invertible; compression stays within tolerance.

E2: bounded exhaustive enumeration of (array, encoding chain) pairs on the real
encoders / decoders, both directly (encode -> decode) and through the file
representation (BinaryCIFData.serialize -> msgpack -> deserialize), against the
round-trip law.  A reference model (mc/models/bcif_codec.py, Python integers and
fractions) decides for every stage of every chain whether the stage's target
representation can hold the values: representable -> the round trip must succeed
and be exact (floats: within the stated precision); not representable -> a clean
exception or lossless survival; everything else is a violation.
"""

import io
import itertools
import json
import math
import warnings

import numpy as np

from mc.models import bcif_codec as M

ID = "C05"
LEVEL = "model_checking"
EXHAUSTIVE = True
SHARD_TIMEOUT = {"quick": 240, "thorough": 900}
RULE = (
    "Every (array, chain) pair of the listed finite spaces is executed twice on the real code: encode_stepwise/"
    "decode_stepwise, and BinaryCIFData.serialize -> msgpack -> BinaryCIFData.deserialize (plus encoding equality "
    "after deserialisation). Groups (disjoint by chain length / kind): 'ba' = ByteArray(auto + each integer type "
    "code) on every integer array over the full boundary palette of its dtype; 'single' = one Delta/RunLength/"
    "IntegerPacking stage (all sign/byte-count variants x every ByteArray type, plus explicit src_type/src_size/"
    "origin variants) on full-palette arrays of length <=2(3), core-palette arrays of length 3(4) and run/"
    "alternation patterns; 'chain' = every sequence of 2..3(4) stages over the 8 stage symbols on core-palette "
    "arrays and patterns; 'ipbig' = IntegerPacking of +-2^31-scale values; 'fixed'/'iq' = FixedPoint / "
    "IntervalQuantization (factor, interval and src_type variants) followed by every integer chain of length "
    "<=1(2) on float32/float64 arrays over a palette relative to the step; 'floatba' = ByteArray(auto/float32/"
    "float64) on float arrays; 'string' = StringArray with every pair of listed data/offset chains and given/"
    "derived string tables on every string array of length <=4(5) over 6 strings; 'compress' = compress() on "
    "every integer/float/string array at each tolerance, then file representation round trip; 'file' = columns "
    "with every mask over {0,1,2}^n, wrapped in category/block/file, written, read back, compared with == and "
    "array-wise, also after compress() at each container level. A case counts as non-trivial when the array is "
    "non-empty and the oracle either compared a decoded non-empty array element-wise with the original or "
    "observed the refusal of a value that the model says the representation cannot hold."
)
ASSUMPTIONS = [
    "the oracle demands only the round-trip law; the encoded byte layout is not compared with the format text",
    "a stage may refuse (any Exception) exactly when the reference model finds a value its target representation "
    "cannot hold; it may never return a different value",
    "empty arrays into RunLength / Delta(origin omitted) / IntegerPacking(sign omitted) and into compress(): "
    "statement silent -> clean exception or exact result (counted as unspecified)",
    "IntervalQuantization: values inside [min,max] must come back within one step; finite values outside the "
    "interval and +-inf are clamped by the format definition and are not judged; NaN must be refused or stay NaN",
    "FixedPoint tolerance: 0.5/factor plus 4 ulp of the value in the narrower of data/src_type precision; products "
    "within 1e-12 (float32: 1e-6) relative of the int32 limit or of a rounding tie are judged as unspecified",
    "integer arrays are not sent to float ByteArray types nor float arrays to integer ByteArray types "
    "(statement silent on cross-kind casts)",
    "files whose arrays contain NaN are compared array-wise (bit pattern class) instead of with ==, because "
    "== is defined through numpy.array_equal",
    "cases whose IntegerPacking output would exceed %d elements are not executed in the product groups "
    "(counted as skipped_pack_cap); +-2^31-scale packing is covered by the 'ipbig' group" % M.PACK_CAP,
    "arrays containing magnitudes below 1e-290 (float32: 1e-30) are passed to compress() only in the listed "
    "'tiny' arrays of length 2, each in a forked child with a time limit",
]

I8, I16, I32, U8, U16, U32, F32, F64 = 1, 2, 3, 4, 5, 6, 32, 33
INT_DTYPES = ["int8", "uint8", "int16", "uint16", "int32", "uint32", "int64", "uint64"]
INT_TCS = [I8, I16, I32, U8, U16, U32]

# seed-selected palette members (every choice is listed here; all must be clean)
SEED_MID = [255, 128, 256, 127, 254]
SEED_FLOAT = [1234.5678, 987.654321, 42.4242, 0.333333, 7777.125]
SEED_CHAR = ["é", "ß", "中", "\U0001d6fc", "ñ"]
SEED_LONG = [300, 256, 513, 1000, 301]


# ---------------------------------------------------------------------------
# palettes
# ---------------------------------------------------------------------------
BASE = [-(2**31) - 1, -(2**31), -(2**31) + 1, -32769, -32768, -129, -128, -1, 0, 1, 127, 128, 255, 256,
        32767, 32768, 65535, 65536, 2**31 - 1, 2**31, 2**32 - 1, 2**32]


def full_palette(dtype):
    lo, hi = M.DTYPE_RANGE[dtype]
    s = {v for v in BASE if lo <= v <= hi} | {lo, lo + 1, hi - 1, hi}
    return sorted(s)


def core_palette(dtype, seed):
    lo, hi = M.DTYPE_RANGE[dtype]
    mid = SEED_MID[seed % 5]
    if mid > hi:
        mid = 127 if hi == 127 else mid
    if dtype == "int64":
        s = {-(2**31) - 1, -(2**31), -1, 0, 1, mid, 2**31 - 1, 2**31}
    elif dtype == "uint64":
        s = {0, 1, mid, 2**31 - 1, 2**32 - 1, 2**32}
    elif lo < 0:
        s = {lo, -1, 0, 1, min(mid, hi), hi}
    else:
        s = {0, 1, min(mid, hi - 1), hi // 2 + 1, hi}
    return sorted(s)


def patterns(core, length):
    """Run / alternation patterns over ordered pairs of core values."""
    out = []
    shapes = {
        3: ["aaa", "aab", "aba", "abb"],
        4: ["aaaa", "aaab", "abbb", "aabb", "abab", "abba"],
        5: ["aaaaa", "ababa", "aabbb", "aaabb", "abbba"],
        6: ["aaaaaa", "ababab", "aaabbb", "aabbaa"],
    }[length]
    for sh in shapes:
        if "b" not in sh:
            for a in core:
                out.append([a] * length)
        else:
            for a, b in itertools.permutations(core, 2):
                out.append([a if c == "a" else b for c in sh])
    return out


def products(pal, lengths):
    for n in lengths:
        for t in itertools.product(pal, repeat=n):
            yield list(t)


# ---------------------------------------------------------------------------
# encoding specs -> biotite objects
# ---------------------------------------------------------------------------
def B(t=None):
    return ["B", {"type": t}]


def D(src_type=None, origin=None):
    return ["D", {"src_type": src_type, "origin": origin}]


def R(src_type=None, src_size=None):
    return ["R", {"src_type": src_type, "src_size": src_size}]


def P(bc, uns=None, src_size=None):
    return ["P", {"byte_count": bc, "is_unsigned": uns, "src_size": src_size}]


def F(factor, src_type=None):
    return ["F", {"factor": factor, "src_type": src_type}]


def Q(lo, hi, steps, src_type=None):
    return ["Q", {"min": lo, "max": hi, "num_steps": steps, "src_type": src_type}]


SYMBOLS = {
    "D": D(), "R": R(),
    "P1a": P(1), "P1u": P(1, True), "P1s": P(1, False),
    "P2a": P(2), "P2u": P(2, True), "P2s": P(2, False),
}
SYM_ORDER = ["D", "R", "P1a", "P1u", "P1s", "P2a", "P2u", "P2s"]

_ENC = {}


def _enc():
    if not _ENC:
        import msgpack

        import biotite.structure.io.pdbx as pdbx
        from biotite.structure.io.pdbx import bcif
        from biotite.structure.io.pdbx import encoding as E

        _ENC.update(E=E, pdbx=pdbx, msgpack=msgpack, encode_numpy=bcif._encode_numpy)
        warnings.simplefilter("ignore")
        np.seterr(all="ignore")
    return _ENC


def build(spec):
    E = _enc()["E"]
    k, p = spec
    if k == "B":
        return E.ByteArrayEncoding(type=p.get("type"))
    if k == "D":
        return E.DeltaEncoding(src_type=p.get("src_type"), origin=p.get("origin"))
    if k == "R":
        return E.RunLengthEncoding(src_size=p.get("src_size"), src_type=p.get("src_type"))
    if k == "P":
        return E.IntegerPackingEncoding(byte_count=p["byte_count"], src_size=p.get("src_size"),
                                        is_unsigned=p.get("is_unsigned"))
    if k == "F":
        return E.FixedPointEncoding(factor=p["factor"], src_type=p.get("src_type"))
    if k == "Q":
        return E.IntervalQuantizationEncoding(min=p["min"], max=p["max"], num_steps=p["num_steps"],
                                              src_type=p.get("src_type"))
    if k == "S":
        strings = p.get("strings")
        if strings is not None:
            strings = np.array(strings, dtype="U") if strings else np.array([], dtype="U1")
        de = p.get("data")
        oe = p.get("offset")
        return E.StringArrayEncoding(
            strings=strings,
            data_encoding=None if de is None else [build(s) for s in de],
            offset_encoding=None if oe is None else [build(s) for s in oe],
        )
    raise ValueError(spec)


def chain_sig(chain):
    return "+".join(s[0] for s in chain)


# ---------------------------------------------------------------------------
# the two observation paths
# ---------------------------------------------------------------------------
def pack_cost(data, byte_count):
    """Number of elements IntegerPacking would emit for what actually arrives at it (after a possible
    wrap to 32 bit).  Cost guard only: an earlier stage may have produced values the model did not
    foresee (that is reported as a violation of that stage where it is observable)."""
    if not isinstance(data, np.ndarray) or data.dtype.kind not in "iu" or data.size == 0:
        return 0
    w = data.astype(np.int64)
    w = ((w + 2**31) % 2**32) - 2**31
    return int(np.abs(w).sum() // (127 if byte_count == 1 else 32767)) + len(w)


def run_paths(arr, chain, allow_big=False):
    """Returns (direct, filed, packed): direct/filed are ('ok', decoded ndarray[, encodings equal]) or
    ('exc', phase, class name); (None, None, None) when the cost guard stopped the case."""
    env = _enc()
    E, pdbx, msgpack = env["E"], env["pdbx"], env["msgpack"]
    encs = [build(s) for s in chain]
    direct = None
    try:
        # encode_stepwise, stage by stage, so that the cost guard can look at what enters a packing stage
        # (encode_stepwise itself runs inside BinaryCIFData.serialize below)
        data = arr
        for spec, enc in zip(chain, encs):
            if spec[0] == "P" and pack_cost(data, spec[1]["byte_count"]) > M.PACK_CAP and not allow_big:
                return None, None, None
            data = enc.encode(data)
    except Exception as e:  # noqa: BLE001
        direct = ("exc", "encode", type(e).__name__)
        encs = [build(s) for s in chain]
    if direct is None:
        try:
            direct = ("ok", E.decode_stepwise(data, encs))
        except Exception as e:  # noqa: BLE001
            direct = ("exc", "decode", type(e).__name__)
    # file representation; the encodings now carry the parameters determined in the first pass,
    # as they do when a BinaryCIFData object is written (again) after having been encoded once
    try:
        d = pdbx.BinaryCIFData(arr, encs)
        ser = d.serialize()
    except Exception as e:  # noqa: BLE001
        return direct, ("exc", "serialize", type(e).__name__), None
    try:
        packed = msgpack.packb(ser, use_bin_type=True, default=env["encode_numpy"])
    except Exception as e:  # noqa: BLE001
        return direct, ("exc", "msgpack", type(e).__name__), None
    try:
        d2 = pdbx.BinaryCIFData.deserialize(msgpack.unpackb(packed, use_list=True, raw=False))
    except Exception as e:  # noqa: BLE001
        return direct, ("exc", "deserialize", type(e).__name__), packed
    try:
        eq = bool(d2.encoding == d.encoding)
    except Exception:  # noqa: BLE001
        eq = False
    return direct, ("ok", d2.array, eq), packed


def as_int_list(a):
    if not isinstance(a, np.ndarray) or a.dtype.kind not in "iu" or a.ndim != 1:
        return None
    return a.tolist()


# ---------------------------------------------------------------------------
# integer cases
# ---------------------------------------------------------------------------
KIND_NAME = {"B": "ByteArray", "D": "Delta", "R": "RunLength", "P": "IntegerPacking", "F": "FixedPoint",
             "Q": "IntervalQuantization", "S": "StringArray"}


def int_features(vals, dtype, v):
    if v.ba_vs_packed:
        # one root cause whatever else is special about the input
        return "bytearray_type_differs_from_packed_type"
    if v.pp:
        return "packing_of_packed_array_with_multi_element_value"
    f = [dtype]
    if not vals:
        f.append("empty")
    if v.packed_limit:
        f.append("multi_element_value")
    return ",".join(f)


def culprit(chain, v):
    """Attribution of a failed round trip of representable values: the first stage that does not
    invert its own (model-computed) input when used alone; the whole chain if every stage does."""
    if v.cls != "accept" or len(v.inputs) != len(chain):
        return chain_sig(chain)
    if v.pp:
        return "P+P"
    for spec, (ivals, dt) in zip(chain, v.inputs):
        try:
            enc = build(spec)
            out = enc.decode(enc.encode(np.array(ivals, dtype=dt)))
            ok = as_int_list(np.asarray(out)) == list(ivals)
        except Exception:  # noqa: BLE001
            ok = False
        if not ok:
            return KIND_NAME[spec[0]]
    return chain_sig(chain)


def judge_int(ctx, case, vals, dtype, chain, v, direct, filed):
    """Shared by the integer groups and by the index/offset level of string arrays."""
    compared = refused = False
    for path, res in (("direct", direct), ("file", filed)):
        if res[0] == "exc":
            if v.cls == "accept":
                ctx.violation("%s|%s_%s_raised_%s|%s" % (culprit(chain, v), path, res[1], res[2],
                                                       int_features(vals, dtype, v)),
                              "round trip of representable values raised %s in %s" % (res[2], res[1]),
                              case, expected=vals, observed=list(res))
            else:
                refused = True
            continue
        got = as_int_list(res[1])
        if got == vals:
            compared = True
            if path == "file" and not res[2] and v.cls == "accept":
                ctx.violation("%s|file_encoding_not_equal_after_read|%s" % (chain_sig(chain),
                                                                          int_features(vals, dtype, v)),
                              "deserialised encodings differ from the written ones", case)
            continue
        shown = got if got is not None else repr(res[1])[:200]
        if v.cls == "accept":
            ctx.violation("%s|%s_wrong_value|%s" % (culprit(chain, v), path, int_features(vals, dtype, v)),
                          "round trip of representable values returned a different array", case,
                          expected=vals, observed=shown)
        elif v.cls == "refuse_or_exact":
            ctx.violation("%s|%s_silently_altered|%s,%s" % (v.stage, path, v.reason, dtype),
                          "value the representation cannot hold was neither refused nor kept", case,
                          expected="exception or %r" % (vals,), observed=shown)
        else:
            ctx.violation("%s|%s_wrong_value|%s,%s" % (v.stage, path, v.reason, dtype),
                          "unspecified input returned a different array instead of an error", case,
                          expected="exception or %r" % (vals,), observed=shown)
    return compared, refused


def int_case(ctx, dtype, vals, chain, group, allow_big=False):
    v = M.int_chain(vals, M.DTYPE_TC[dtype], chain, allow_big=allow_big, np_range=M.DTYPE_RANGE[dtype], np_name=dtype)
    if v.cls == "skip":
        ctx.count("skipped_pack_cap")
        return
    case = {"k": "int", "g": group, "dtype": dtype, "vals": vals, "chain": chain}
    if not ctx.journal(case):
        return
    arr = np.array(vals, dtype=dtype)
    direct, filed, packed = run_paths(arr, chain, allow_big)
    if direct is None:
        ctx.count("skipped_pack_cap_observed")
        return
    compared, refused = judge_int(ctx, case, vals, dtype, chain, v, direct, filed)
    ctx.count({"accept": "accepted", "refuse_or_exact": "refusable", "either": "unspecified"}[v.cls])
    if refused:
        ctx.count("refused_observed")
    nt = bool(vals) and (compared or (refused and v.cls == "refuse_or_exact"))
    ctx.ev(1, 1 if nt else 0)
    ctx.outcome(packed if packed is not None else (direct[1:], filed[1:]))
    if nt and len(ctx.samples) < 2 and len(chain) >= 2 and len(vals) >= 2:
        ctx.sample({**case, "model": v.cls, "result": "round trip exact" if compared else "refused"})


def int_arrays_full(dtype, lengths):
    return products(full_palette(dtype), lengths)


def single_arrays(dtype, tier, seed):
    core = core_palette(dtype, seed)
    if tier == "quick":
        yield from products(full_palette(dtype), (0, 1, 2))
        yield from products(core, (3,))
        yield from patterns(core, 4)
    else:
        yield from products(full_palette(dtype), (0, 1, 2, 3))
        yield from products(core, (4,))
        yield from patterns(core, 5)
        yield from patterns(core, 6)


def chain_arrays(dtype, tier, seed):
    core = core_palette(dtype, seed)
    yield from products(core, (0, 1, 2))
    yield from patterns(core, 3)
    yield from patterns(core, 4)
    if tier == "thorough":
        yield from patterns(core, 5)


def single_variants(n, first, dtype):
    """Explicit-parameter variants of one stage (terminated by ByteArray(auto)).  Delta documents src_type
    as 'the data type of the array to be encoded' and does not convert: only the truthful value is
    generated for it; RunLength converts to src_type, every type code is generated."""
    out = [[D(src_type=M.DTYPE_TC[dtype]), B()]]
    for t in INT_TCS:
        out.append([R(src_type=t), B()])
    out.append([D(origin=0), B()])
    out.append([D(origin=first), B()])
    out.append([D(origin=-1), B()])
    for size in (n, n + 1):
        out.append([R(src_size=size), B()])
        out.append([P(1, None, size), B()])
        out.append([P(2, False, size), B()])
    return out


def all_chains(lengths):
    for n in lengths:
        for t in itertools.product(SYM_ORDER, repeat=n):
            yield [SYMBOLS[s] for s in t]


IPBIG_VALUES = [-(2**31) - 1, -(2**31), -(2**31) + 1, -(2**24), 2**24, 2**31 - 2, 2**31 - 1, 2**31, 0, 1]


def run_int_shard(shard, ctx):
    g, dtype, part, parts = shard["g"], shard["dtype"], shard["part"], shard["parts"]
    tier, seed = ctx.tier, ctx.seed
    idx = 0
    if g == "ba":
        lengths = (0, 1, 2, 3) if tier == "quick" else (0, 1, 2, 3, 4)
        chains = [[B()]] + [[B(t)] for t in INT_TCS]
        for vals in int_arrays_full(dtype, lengths):
            idx += 1
            if idx % parts != part:
                continue
            for ch in chains:
                int_case(ctx, dtype, vals, ch, g)
    elif g == "single":
        bas = [B()] + [B(t) for t in INT_TCS]
        for vals in single_arrays(dtype, tier, seed):
            idx += 1
            if idx % parts != part:
                continue
            for s in SYM_ORDER:
                for b in bas:
                    int_case(ctx, dtype, vals, [SYMBOLS[s], b], g)
            for ch in single_variants(len(vals), vals[0] if vals else 0, dtype):
                int_case(ctx, dtype, vals, ch, g)
    elif g == "chain":
        lengths = (2, 3) if tier == "quick" else (2, 3, 4)
        chains = [c + [B()] for c in all_chains(lengths)]
        for vals in chain_arrays(dtype, tier, seed):
            idx += 1
            if idx % parts != part:
                continue
            for ch in chains:
                int_case(ctx, dtype, vals, ch, g)
    elif g == "ipbig":
        lo, hi = M.DTYPE_RANGE[dtype]
        pal = [x for x in IPBIG_VALUES if lo <= x <= hi]
        for vals in products(pal, (1, 2)):
            if not any(abs(x) >= 2**24 for x in vals):
                continue
            idx += 1
            if idx % parts != part:
                continue
            for s in SYM_ORDER[2:]:
                if s in ("P1a", "P1u", "P1s") and ctx.tier == "quick" and len(vals) == 2:
                    continue
                int_case(ctx, dtype, vals, [SYMBOLS[s], B()], g, allow_big=True)


# ---------------------------------------------------------------------------
# float cases
# ---------------------------------------------------------------------------
def f32(x):
    return float(np.float32(x))


def fixed_palette(factor, dtype, seed):
    step = 1.0 / factor
    tiny = 5e-324 if dtype == "float64" else 1e-45
    vals = [0.0, -0.0, 0.5 * step, -0.5 * step, 1.5 * step, -1.5 * step, 1e-3, SEED_FLOAT[seed % 5],
            (2**31 - 1) / factor, -(2**31 - 1) / factor, 2**31 / factor, -(2**31) / factor, (2**31 + 4096) / factor,
            -(2**31 + 4096) / factor, 1e30, tiny, math.nan, math.inf, -math.inf]
    core = [0.0, -1.5 * step, SEED_FLOAT[seed % 5], -(2**31 - 1) / factor, 2**31 / factor, math.nan]
    return vals, core


def canon_floats(vals, dtype):
    """The exact values the array elements have in `dtype`, as Python floats."""
    if dtype == "float32":
        return [f32(x) for x in vals]
    return [float(x) for x in vals]


def fkey(x):
    if x != x:
        return "nan"
    if x == 0:
        return "-0" if math.copysign(1, x) < 0 else "0"
    return repr(x)


def uniq_arrays(arrs, dtype):
    """Drop arrays that coincide after conversion to dtype (e.g. two float64 palette members that
    round to the same float32), so that no case is executed twice."""
    seen = set()
    for a in arrs:
        c = canon_floats(a, dtype)
        k = tuple(fkey(x) for x in c)
        if k in seen:
            continue
        seen.add(k)
        yield c


def enc_floats(vals):
    return [x if (x == x and abs(x) != math.inf) else fkey(x) if x != x else ("inf" if x > 0 else "-inf")
            for x in vals]


def dec_floats(vals):
    m = {"nan": math.nan, "inf": math.inf, "-inf": -math.inf}
    return [m[x] if isinstance(x, str) else float(x) for x in vals]


def as_float_list(a):
    if not isinstance(a, np.ndarray) or a.dtype.kind != "f" or a.ndim != 1:
        return None
    return [float(x) for x in a]


def same_nonfinite(x, d):
    if x != x:
        return d != d
    return d == x


def judge_elements(xs, got, elem_cls, tol_fn):
    """Per element: ok -> within tolerance; nan/inf -> preserved; overflow/border -> within tolerance
    (kept losslessly); free -> not judged.  Returns list of (index, class) that fail."""
    bad = []
    for i, (x, d, c) in enumerate(zip(xs, got, elem_cls)):
        if c == "free":
            continue
        if c in ("nan", "inf"):
            if not same_nonfinite(x, d):
                bad.append((i, c))
            continue
        if d != d or abs(d) == math.inf or abs(d - x) > tol_fn(x, d):
            bad.append((i, c))
    return bad


def float_case(ctx, dtype, xs, chain, group):
    """chain[0] is FixedPoint or IntervalQuantization, the rest an integer chain ending in ByteArray."""
    head, p = chain[0]
    data_tc = M.DTYPE_TC[dtype]
    dec_tc = p.get("src_type") or data_tc
    narrow = 32 if 32 in (data_tc, dec_tc) else 33
    if head == "F":
        f = p["factor"]
        ec = [M.fixed_point_element(x, f, data_tc) for x in xs]
        elem_cls = [c[0] for c in ec]
        ints = [c[1] for c in ec]
        tie = any(c[2] for c in ec)
        half = 0.5 / f

        def tol(x, d):
            return half * (1 + 1e-9) + 4 * M.ulp(max(abs(x), abs(d)), narrow)

        stage = "FixedPoint"
    else:
        lo, hi, ns = float(p["min"]), float(p["max"]), p["num_steps"]
        step = (hi - lo) / (ns - 1)
        elem_cls, ints = [], []
        for x in xs:
            if x != x:
                elem_cls.append("nan")
                ints.append(0)
            elif lo <= x <= hi:
                elem_cls.append("ok")
                ints.append(int(math.ceil((x - lo) / step - 1e-9)))
            else:
                elem_cls.append("free")
                ints.append(0 if x < lo else ns)
        tie = False
        scale = max(abs(lo), abs(hi))

        def tol(x, d):
            return step * (1 + 1e-9) + 4 * M.ulp(max(abs(x), abs(d), scale), narrow)

        stage = "IntervalQuantization"
    # verdict
    v = M.Verdict()
    for c, name in (("nan", "nan"), ("inf", "infinite"), ("overflow", "product_exceeds_int32")):
        if c in elem_cls:
            v.problem(stage, name)
            break
    if v.cls == "accept":
        if "border" in elem_cls:
            v.either(stage, "product_at_int32_limit")
        elif "free" in elem_cls and all(c == "free" for c in elem_cls):
            pass
    if v.cls != "refuse_or_exact":
        dv = M.int_chain(ints, I32, chain[1:])
        if dv.cls == "skip":
            ctx.count("skipped_pack_cap")
            return
        if dv.cls == "refuse_or_exact":
            v.problem(dv.stage, dv.reason)
        elif dv.cls == "either":
            v.either(dv.stage, dv.reason)
        if tie and v.cls == "accept" and len(chain) > 2:
            # the integer behind a rounding tie is not determined by the statement; a stage behind
            # FixedPoint that depends on it (sign, limit) may legitimately refuse
            v.either(stage, "rounding_tie_before_integer_stage")
    else:
        # do not run cases whose packed size explodes (model ints are meaningless for the bad element,
        # use the finite ones)
        dv = M.int_chain([q for q, c in zip(ints, elem_cls) if c in ("ok", "border")], I32, chain[1:])
        if dv.cls == "skip":
            ctx.count("skipped_pack_cap")
            return
    case = {"k": "float", "g": group, "dtype": dtype, "vals": enc_floats(xs), "chain": chain}
    if not ctx.journal(case):
        return
    arr = np.array(xs, dtype=dtype)
    direct, filed, packed = run_paths(arr, chain)
    if direct is None:
        ctx.count("skipped_pack_cap_observed")
        return
    compared = refused = False
    for path, res in (("direct", direct), ("file", filed)):
        if res[0] == "exc":
            if v.cls == "accept":
                ctx.violation("%s|%s_%s_raised_%s|%s" % (chain_sig(chain), path, res[1], res[2],
                                                       "empty" if not xs else "representable"),
                              "round trip of representable floats raised %s in %s" % (res[2], res[1]), case,
                              expected="within tolerance", observed=list(res))
            else:
                refused = True
            continue
        got = as_float_list(res[1])
        if got is None or len(got) != len(xs):
            ctx.violation("%s|%s_wrong_shape_or_dtype|%s" % (chain_sig(chain), path, v.cls),
                          "decoded array has a different length or is not floating point", case,
                          expected=enc_floats(xs), observed=repr(res[1])[:200])
            continue
        bad = judge_elements(xs, got, elem_cls, tol)
        if not bad:
            compared = True
            if path == "file" and not res[2] and v.cls == "accept":
                ctx.violation("%s|file_encoding_not_equal_after_read|float" % chain_sig(chain),
                              "deserialised encodings differ from the written ones", case)
            continue
        i, c = bad[0]
        if c in ("nan", "inf", "overflow"):
            name = {"nan": "nan", "inf": "infinite", "overflow": "product_exceeds_int32"}[c]
            ctx.violation("%s|%s_silently_altered|%s" % (stage, path, name),
                          "float the fixed-point/bin representation cannot hold was neither refused nor kept",
                          case, expected="exception or element %d preserved" % i, observed=enc_floats(got))
        elif v.cls == "accept" or c == "ok":
            ctx.violation("%s|%s_outside_tolerance|%s" % (chain_sig(chain), path,
                                                        "other_element_not_representable" if v.cls != "accept"
                                                        else "representable"),
                          "decoded float differs from the original by more than the stated precision", case,
                          expected={"x": enc_floats(xs), "tolerance": tol(xs[i], got[i]), "index": i},
                          observed=enc_floats(got))
        else:
            ctx.violation("%s|%s_wrong_value|%s" % (stage, path, v.reason),
                          "unspecified input returned a value outside the tolerance instead of an error", case,
                          expected=enc_floats(xs), observed=enc_floats(got))
    ctx.count({"accept": "accepted", "refuse_or_exact": "refusable", "either": "unspecified"}[v.cls])
    if "free" in elem_cls:
        ctx.count("iq_outside_interval_not_judged")
    if refused:
        ctx.count("refused_observed")
    nt = bool(xs) and (compared or (refused and v.cls == "refuse_or_exact"))
    ctx.ev(1, 1 if nt else 0)
    ctx.outcome(packed if packed is not None else (direct[1:], filed[1:]))
    if nt and len(ctx.samples) < 2 and len(xs) >= 2 and len(chain) >= 3:
        ctx.sample({**case, "model": v.cls, "result": "within tolerance" if compared else "refused"})


FACTORS = [1, 10, 1000, 0.1]
IQ_SETTINGS = [(10, 20, 21), (-1.0, 1.0, 3), (0.0, 0.3, 4)]


def iq_palette(setting, seed):
    lo, hi, ns = setting
    step = (hi - lo) / (ns - 1)
    return [lo, hi, lo + step, lo + 0.5 * step, lo + 1.49 * step, hi - 0.25 * step, (lo + hi) / 2 + step / 7,
            lo - step / 4, hi + step / 4, hi + 100 * step, -1e30, math.nan, math.inf, -math.inf,
            lo + (SEED_FLOAT[seed % 5] % 1.0) * (hi - lo)]


def int_tails(maxlen):
    out = [[B()]]
    for c in all_chains(range(1, maxlen + 1)):
        out.append(c + [B()])
    return out


def run_float_shard(shard, ctx):
    g, dtype, part, parts = shard["g"], shard["dtype"], shard["part"], shard["parts"]
    tier, seed = ctx.tier, ctx.seed
    idx = 0
    if g == "fixed":
        f = shard["factor"]
        pal, core = fixed_palette(f, dtype, seed)
        if tier == "quick":
            arrs = itertools.chain(products(pal, (0, 1, 2)), products(core, (3,)))
        else:
            arrs = itertools.chain(products(pal, (0, 1, 2, 3)), products(core, (4,)))
        tails1 = int_tails(1)
        tails2 = [t for t in int_tails(2) if len(t) == 3]
        for xs in uniq_arrays(arrs, dtype):
            idx += 1
            if idx % parts != part:
                continue
            for st in (None, F32, F64):
                for t in tails1:
                    float_case(ctx, dtype, xs, [F(f, st)] + t, g)
                if tier == "thorough" or (st is None and f == 1000):
                    for t in tails2:
                        float_case(ctx, dtype, xs, [F(f, st)] + t, g)
    elif g == "iq":
        setting = IQ_SETTINGS[shard["setting"]]
        pal = iq_palette(setting, seed)
        arrs = products(pal, (0, 1, 2) if tier == "quick" else (0, 1, 2, 3))
        tails = int_tails(1)
        for xs in uniq_arrays(arrs, dtype):
            idx += 1
            if idx % parts != part:
                continue
            for st in (None, F32, F64):
                for t in tails:
                    float_case(ctx, dtype, xs, [Q(*setting, st)] + t, g)
    elif g == "floatba":
        pal = general_floats(dtype, seed, tiny=True) + [3.4028234663852886e38, 1e39, -1e39, 1e300]
        arrs = products(pal, (0, 1, 2) if tier == "quick" else (0, 1, 2, 3))
        for xs in uniq_arrays(arrs, dtype):
            idx += 1
            if idx % parts != part:
                continue
            for t in (None, F32, F64):
                floatba_case(ctx, dtype, xs, t)


def general_floats(dtype, seed, tiny=False):
    pal = [0.0, -0.0, 1e-3, 0.5, 100.0, SEED_FLOAT[seed % 5], -SEED_FLOAT[seed % 5], 2147483.647, 2147483.648,
           3e9, 1e30, 1e-30, math.nan, math.inf, -math.inf]
    if tiny:
        pal.append(5e-324 if dtype == "float64" else 1e-45)
    return pal


def floatba_case(ctx, dtype, xs, t):
    """ByteArray on floats: bit-exact when the type is the array's own (or wider); narrowing float64 ->
    float32: values float32 represents exactly must survive, values beyond the float32 range must be refused
    or kept, others may be refused or come back as the nearest float32."""
    chain = [B(t)]
    data_tc = M.DTYPE_TC[dtype]
    tt = t or data_tc
    elem = []
    v = M.Verdict()
    for x in xs:
        if tt == 32 and data_tc == 33 and x == x and abs(x) != math.inf:
            if abs(x) > 3.4028235677973366e38:
                elem.append("overflow")
                v.problem("ByteArray", "float64_exceeds_float32_range")
            elif f32(x) != x:
                elem.append("round")
            else:
                elem.append("exact")
        else:
            elem.append("exact")
    if v.cls == "accept" and "round" in elem:
        v.either("ByteArray", "float64_not_exact_in_float32")
    case = {"k": "floatba", "g": "floatba", "dtype": dtype, "vals": enc_floats(xs), "chain": chain}
    if not ctx.journal(case):
        return
    arr = np.array(xs, dtype=dtype)
    direct, filed, packed = run_paths(arr, chain)
    compared = refused = False
    for path, res in (("direct", direct), ("file", filed)):
        if res[0] == "exc":
            if v.cls == "accept":
                ctx.violation("B|%s_%s_raised_%s|float" % (path, res[1], res[2]),
                              "ByteArray round trip of floats raised", case, observed=list(res))
            else:
                refused = True
            continue
        got = as_float_list(res[1])
        ok = got is not None and len(got) == len(xs)
        badc = None
        if ok:
            for x, d, c in zip(xs, got, elem):
                if c == "round":
                    good = d == f32(x)
                elif x != x:
                    good = d != d
                else:
                    good = d == x and (x != 0 or math.copysign(1, d) == math.copysign(1, x))
                if not good:
                    ok, badc = False, c
                    break
        if ok:
            compared = True
            continue
        if badc == "overflow":
            ctx.violation("ByteArray|%s_silently_altered|float64_exceeds_float32_range" % path,
                          "float64 beyond the float32 range was stored as float32 without an error", case,
                          expected="exception or %r" % (enc_floats(xs),), observed=enc_floats(got or []))
        else:
            ctx.violation("B|%s_wrong_value|float_%s" % (path, badc or "shape"),
                          "ByteArray round trip of floats is not bit-exact", case, expected=enc_floats(xs),
                          observed=enc_floats(got) if got is not None else repr(res[1])[:200])
    ctx.count({"accept": "accepted", "refuse_or_exact": "refusable", "either": "unspecified"}[v.cls])
    if refused:
        ctx.count("refused_observed")
    nt = bool(xs) and (compared or (refused and v.cls == "refuse_or_exact"))
    ctx.ev(1, 1 if nt else 0)
    ctx.outcome(packed if packed is not None else (direct[1:], filed[1:]))


# ---------------------------------------------------------------------------
# strings
# ---------------------------------------------------------------------------
def string_palette(seed):
    return ["", "a", "ab", SEED_CHAR[seed % 5], "a b", "x" * SEED_LONG[seed % 5]]


STR_CHAINS = {
    "default": None,
    "B": [B()],
    "Bu8": [B(U8)],
    "Bi8": [B(I8)],
    "R": [R(), B()],
    "D": [D(), B()],
    "P1": [P(1), B()],
    "DRP": [D(), R(), P(1), B()],
}


def string_model(strs, table):
    """Returns (table, indices, offsets, missing)."""
    if table is None:
        table = []
        for s in strs:
            if s not in table:
                table.append(s)
    missing = any(s not in table for s in strs)
    idx = [table.index(s) for s in strs if s in table]
    offs = [0]
    for s in table:
        offs.append(offs[-1] + len(s))
    return table, idx, offs, missing


def string_case(ctx, strs, table_kind, dname, oname, pal):
    if table_kind == "derived":
        given = None
    elif table_kind == "given_same":
        given = string_model(strs, None)[0]
    elif table_kind == "given_superset":
        given = sorted(pal, reverse=True)
    else:  # given_missing: drop the first string of the data
        given = [s for s in string_model(strs, None)[0] if s != strs[0]]
    spec = ["S", {"strings": given, "data": STR_CHAINS[dname], "offset": STR_CHAINS[oname]}]
    table, idx, offs, missing = string_model(strs, given)
    dchain = STR_CHAINS[dname] or [B(I32)]
    ochain = STR_CHAINS[oname] or [B(I32)]
    vd = M.int_chain(idx, I32, dchain)
    vo = M.int_chain(offs, I32, ochain)
    if missing:
        vd = M.Verdict()
        vd.problem("StringArray", "string_not_in_given_table")
    if vd.cls == "skip" or vo.cls == "skip":
        ctx.count("skipped_pack_cap")
        return
    # direct path uses only the data chain; the file path both
    vf = vd
    if vd.cls == "accept" and vo.cls != "accept":
        vf = vo
    elif vd.cls == "either" and vo.cls == "refuse_or_exact":
        vf = vo
    case = {"k": "str", "strs": strs, "table": table_kind, "data": dname, "offset": oname}
    if not ctx.journal(case):
        return
    width = max([len(s) for s in strs] + [1])
    arr = np.array(strs, dtype="U%d" % width)
    direct, filed, packed = run_paths(arr, [spec])
    compared = refused = False
    for path, res, v in (("direct", direct, vd), ("file", filed, vf)):
        tag = "SA[%s;%s]" % (chain_sig(dchain), chain_sig(ochain))
        if res[0] == "exc":
            if v.cls == "accept":
                ctx.violation("%s|%s_%s_raised_%s|%s" % (tag, path, res[1], res[2], "empty" if not strs else
                                                       table_kind),
                              "string array round trip raised", case, expected=strs, observed=list(res))
            else:
                refused = True
            continue
        a = res[1]
        got = a.tolist() if isinstance(a, np.ndarray) and a.dtype.kind == "U" and a.ndim == 1 else None
        if got == strs:
            compared = True
            if path == "file" and not res[2] and v.cls == "accept":
                ctx.violation("%s|file_encoding_not_equal_after_read|%s" % (tag, table_kind),
                              "deserialised StringArrayEncoding differs from the written one", case)
            continue
        if v.cls == "accept":
            ctx.violation("%s|%s_wrong_value|%s" % (tag, path, table_kind),
                          "string array came back different", case, expected=strs,
                          observed=got if got is not None else repr(a)[:200])
        else:
            ctx.violation("%s|%s_%s|%s" % (v.stage, path, "silently_altered" if v.cls == "refuse_or_exact" else
                                          "wrong_value", v.reason + "(string_%s)" % ("index" if v is vd else "offset")),
                          "string array altered where a stage cannot hold its indices/offsets", case,
                          expected="exception or %r" % (strs,), observed=got if got is not None else repr(a)[:200])
    ctx.count({"accept": "accepted", "refuse_or_exact": "refusable", "either": "unspecified"}[vf.cls])
    if refused:
        ctx.count("refused_observed")
    nt = bool(strs) and (compared or (refused and vf.cls == "refuse_or_exact"))
    ctx.ev(1, 1 if nt else 0)
    ctx.outcome(packed if packed is not None else (direct[1:], filed[1:]))
    if nt and len(ctx.samples) < 1 and len(set(strs)) >= 3 and dname == "DRP":
        ctx.sample({**case, "strs": [s if len(s) < 20 else "x*%d" % len(s) for s in strs]})


def run_string_shard(shard, ctx):
    part, parts = shard["part"], shard["parts"]
    pal = string_palette(ctx.seed)
    maxlen = 4 if ctx.tier == "quick" else 5
    names = list(STR_CHAINS)
    idx = 0
    for strs in products(pal, range(0, maxlen + 1)):
        idx += 1
        if idx % parts != part:
            continue
        for dn in names:
            for on in names:
                string_case(ctx, strs, "derived", dn, on, pal)
        for tk in ("given_same", "given_superset", "given_missing"):
            if tk == "given_missing" and not strs:
                continue
            for dn, on in (("default", "default"), ("DRP", "P1")):
                string_case(ctx, strs, tk, dn, on, pal)


# ---------------------------------------------------------------------------
# compress()
# ---------------------------------------------------------------------------
TOLS = {"float32": [1e-3, 1e-6], "float64": [1e-3, 1e-6, 1e-9]}


def compress_roundtrip(arr, tol):
    """compress() one BinaryCIFData and send the result through the file representation."""
    env = _enc()
    pdbx, msgpack = env["pdbx"], env["msgpack"]
    try:
        c = pdbx.compress(pdbx.BinaryCIFData(arr), tol)
    except Exception as e:  # noqa: BLE001
        return ("exc", "compress", type(e).__name__)
    try:
        packed = msgpack.packb(c.serialize(), use_bin_type=True, default=env["encode_numpy"])
    except Exception as e:  # noqa: BLE001
        return ("exc", "serialize", type(e).__name__)
    try:
        d2 = pdbx.BinaryCIFData.deserialize(msgpack.unpackb(packed, use_list=True, raw=False))
    except Exception as e:  # noqa: BLE001
        return ("exc", "deserialize", type(e).__name__)
    return ("ok", d2.array, [type(e).__name__.replace("Encoding", "") for e in c.encoding], len(packed))


def tiny_limit(dtype):
    return 1e-30 if dtype == "float32" else 1e-290


def compress_float_verdict(xs, tol, dtype):
    """accept: finite, and the decimal places needed for the smallest magnitude leave the largest one
    far inside int32; refuse_or_exact: non-finite member or dynamic range beyond int32; either: between."""
    v = M.Verdict()
    if not xs:
        v.either("compress", "empty")
        return v
    if any(x != x for x in xs):
        v.problem("compress", "nan")
        return v
    if any(abs(x) == math.inf for x in xs):
        v.problem("compress", "infinite")
        return v
    nz = [abs(x) for x in xs if x != 0]
    if not nz or len(xs) == 1:
        return v
    need = max(nz) / (min(nz) * tol)
    if need * 100 < 2**31:
        return v
    if need > 2**31 * 100:
        v.problem("compress", "dynamic_range_exceeds_int32")
    else:
        v.either("compress", "dynamic_range_near_int32")
    return v


def compress_case(ctx, kind, dtype, vals, tol, isolated=False):
    case = {"k": "compress", "kind": kind, "dtype": dtype,
            "vals": enc_floats(vals) if kind == "float" else vals, "tol": tol, "isolated": isolated}
    if not ctx.journal(case):
        return
    if kind == "float":
        arr = np.array(vals, dtype=dtype)
        v = compress_float_verdict(vals, tol, dtype)
    elif kind == "int":
        arr = np.array(vals, dtype=dtype)
        v = M.Verdict()
        if not vals:
            v.either("compress", "empty")
        elif not (M.fits(vals, I32) or M.fits(vals, U32)):
            v.problem("compress", "integer_exceeds_32_bit")
    else:
        arr = np.array(vals, dtype="U%d" % max([len(s) for s in vals] + [1]))
        v = M.Verdict()
        if not vals:
            v.either("compress", "empty")
    if isolated:
        r = ctx.isolated(compress_roundtrip, arr, tol, timeout=3.0)
        if r[0] == "ok":
            res = r[1]
        elif r[0] == "timeout":
            ctx.violation("compress|did_not_terminate|float_magnitude_below_1e-290(f32:1e-30)",
                          "compress() did not return within 3 s (typical: 0.5 ms)", case,
                          expected="result within tolerance or exception", observed="timeout")
            ctx.ev(1, 1)
            ctx.count("refusable" if v.cls == "refuse_or_exact" else "accepted")
            ctx.outcome("timeout")
            return
        else:
            ctx.violation("compress|process_%s|float_magnitude_below_1e-290(f32:1e-30)" % r[0],
                          "compress() terminated the process", case, observed=list(r))
            ctx.ev(1, 1)
            return
    else:
        res = compress_roundtrip(arr, tol)
    compared = refused = False
    if res[0] == "exc":
        if v.cls == "accept":
            ctx.violation("compress|%s_raised_%s|%s" % (res[1], res[2], kind),
                          "compress() / write / read of a representable array raised", case,
                          expected="array back", observed=list(res))
        else:
            refused = True
    else:
        a = res[1]
        if kind == "int":
            got = as_int_list(a)
            if got == vals:
                compared = True
            else:
                sig = ("compress|wrong_value|int" if v.cls == "accept" else
                       "compress|%s|%s" % ("silently_altered" if v.cls == "refuse_or_exact" else "wrong_value",
                                           v.reason))
                ctx.violation(sig, "compressed integer column reads back different", case, expected=vals,
                              observed={"array": got if got is not None else repr(a)[:200], "encoding": res[2]})
        elif kind == "str":
            got = a.tolist() if isinstance(a, np.ndarray) and a.dtype.kind == "U" else None
            if got == vals:
                compared = True
            else:
                ctx.violation("compress|wrong_value|str" if v.cls == "accept" else "compress|wrong_value|empty",
                              "compressed string column reads back different", case, expected=vals,
                              observed={"array": got if got is not None else repr(a)[:200], "encoding": res[2]})
        else:
            got = as_float_list(a)
            tc = M.DTYPE_TC[dtype]
            if got is None or len(got) != len(vals):
                ctx.violation("compress|wrong_shape_or_dtype|float", "compressed float column changed shape/kind",
                              case, expected=enc_floats(vals), observed=repr(a)[:200])
            else:
                bad = None
                for i, (x, d) in enumerate(zip(vals, got)):
                    if x != x or abs(x) == math.inf:
                        if not same_nonfinite(x, d):
                            bad = (i, "nan" if x != x else "infinite")
                            break
                    elif x == 0:
                        if d != 0:
                            bad = (i, "zero")
                            break
                    elif d != d or abs(d - x) > tol * abs(x) * (1 + 1e-6) + 4 * M.ulp(x, tc):
                        bad = (i, "finite")
                        break
                if bad is None:
                    compared = True
                else:
                    i, c = bad
                    if v.cls == "accept":
                        sig = "compress|outside_tolerance|float_%s" % c
                    elif c in ("nan", "infinite"):
                        sig = "compress|silently_altered|%s" % c
                    elif v.cls == "refuse_or_exact":
                        sig = "compress|silently_altered|%s(%s element)" % (v.reason, c)
                    else:
                        sig = "compress|wrong_value|%s" % v.reason
                    ctx.violation(sig, "compressed float column reads back outside the tolerance / altered", case,
                                  expected={"x": enc_floats(vals), "tol": tol, "index": i},
                                  observed={"array": enc_floats(got), "encoding": res[2]})
    ctx.count({"accept": "accepted", "refuse_or_exact": "refusable", "either": "unspecified"}[v.cls])
    if refused:
        ctx.count("refused_observed")
    nt = bool(vals) and (compared or (refused and v.cls == "refuse_or_exact"))
    ctx.ev(1, 1 if nt else 0)
    ctx.outcome(res[1:] if res[0] == "exc" else (res[1].tobytes(), res[2], res[3]))
    if nt and kind == "float" and len(ctx.samples) < 1 and len(vals) >= 3 and res[0] == "ok" and "FixedPoint" in res[2]:
        ctx.sample({**case, "chosen_encoding": res[2]})


TINY_PARTNERS = [None, 0.0, 1.0, math.nan]


def tiny_arrays(dtype):
    t = 5e-324 if dtype == "float64" else 1e-45
    out = []
    for p in TINY_PARTNERS:
        if p is None:
            out.append([t, t])
        else:
            out.append([t, p])
            out.append([p, t])
    return out


def run_compress_shard(shard, ctx):
    kind, dtype, part, parts = shard["kind"], shard["dtype"], shard["part"], shard["parts"]
    tier, seed = ctx.tier, ctx.seed
    idx = 0
    if kind == "int":
        lengths = (0, 1, 2, 3) if tier == "quick" else (0, 1, 2, 3, 4)
        if tier == "thorough" and dtype == "int64":
            lengths = (0, 1, 2, 3)
        for vals in int_arrays_full(dtype, lengths):
            idx += 1
            if idx % parts != part:
                continue
            compress_case(ctx, "int", dtype, vals, 1e-6)
        if tier == "thorough" and dtype == "int64":
            for vals in products(core_palette(dtype, seed), (4,)):
                idx += 1
                if idx % parts != part:
                    continue
                compress_case(ctx, "int", dtype, vals, 1e-6)
    elif kind == "float":
        pal = general_floats(dtype, seed)
        lengths = (0, 1, 2, 3) if tier == "quick" else (0, 1, 2, 3, 4)
        for xs in uniq_arrays(products(pal, lengths), dtype):
            idx += 1
            if idx % parts != part:
                continue
            for tol in TOLS[dtype]:
                compress_case(ctx, "float", dtype, xs, tol)
    elif kind == "tiny":
        arrs = list(uniq_arrays(tiny_arrays(dtype), dtype))
        tols = [1e-6] if tier == "quick" else TOLS[dtype]
        for xs in arrs:
            for tol in tols:
                idx += 1
                if idx % parts != part:
                    continue
                compress_case(ctx, "float", dtype, xs, tol, isolated=True)
    elif kind == "str":
        pal = string_palette(seed)
        for strs in products(pal, range(0, (4 if tier == "quick" else 5) + 1)):
            idx += 1
            if idx % parts != part:
                continue
            compress_case(ctx, "str", "str", strs, 1e-6)


# ---------------------------------------------------------------------------
# columns with masks, categories, blocks, files
# ---------------------------------------------------------------------------
COL_DATA = {
    # name: (kind, values, chain or None)
    "int_default": ("int", [3, -1, 70000, 3], None),
    "int_chain": ("int", [3, -1, 70000, 3], [D(), R(), P(2), B()]),
    "uint8": ("int", [0, 255, 7, 7], [R(), B()]),
    "float_bytes": ("float", [1.5, -0.0, 1234.5678, 1e30], None),
    "float_nan": ("float", [1.5, math.nan, math.inf, 0.0], None),
    "float_fixed": ("float", [1.5, 0.25, 1234.5, -3.0], [F(100), D(), P(2), B()]),
    "str_default": ("str", ["a", "", "é b", "a"], None),
    "str_chain": ("str", ["a", "", "é b", "a"],
                  [["S", {"strings": None, "data": [R(), P(1), B()], "offset": [D(), B()]}]]),
}
MASK_ENCS = {"default": None, "u8": [B(U8)], "rle": [R(), B()], "pack": [P(1), B()]}
LEVELS = ["column", "category", "block", "file"]


def np_col(kind, vals):
    if kind == "int":
        return np.array(vals, dtype=np.int32)
    if kind == "float":
        return np.array(vals, dtype=np.float64)
    return np.array(vals, dtype="U%d" % max([len(s) for s in vals] + [1]))


def make_column(dname, n, mask, mname):
    pdbx = _enc()["pdbx"]
    kind, vals, chain = COL_DATA[dname]
    arr = np_col(kind, vals[:n])
    data = pdbx.BinaryCIFData(arr, None if chain is None else [build(s) for s in chain])
    m = None
    if mask is not None:
        menc = MASK_ENCS[mname]
        m = pdbx.BinaryCIFData(np.array(mask, dtype=np.int64) if mname == "default" else
                               np.array(mask, dtype=np.uint8), None if menc is None else [build(s) for s in menc])
    return pdbx.BinaryCIFColumn(data, m), kind, vals[:n]


def wrap(col, extra_col, level):
    """Put the column under test into a category (with a second, plain column), block and file."""
    pdbx = _enc()["pdbx"]
    cat = pdbx.BinaryCIFCategory({"col": col, "other": extra_col})
    block = pdbx.BinaryCIFBlock({"cat": cat, "second": pdbx.BinaryCIFCategory({"id": [1, 2]})})
    return pdbx.BinaryCIFFile({"blk": block, "blk2": pdbx.BinaryCIFBlock({"cat": pdbx.BinaryCIFCategory({"x": "v"})})})


def file_roundtrip(f):
    pdbx = _enc()["pdbx"]
    bio = io.BytesIO()
    f.write(bio)
    raw = bio.getvalue()
    return pdbx.BinaryCIFFile.read(io.BytesIO(raw)), raw


def arrays_match(kind, want, got_arr, tol=None):
    if kind == "int":
        return as_int_list(got_arr) == want
    if kind == "str":
        return isinstance(got_arr, np.ndarray) and got_arr.dtype.kind == "U" and got_arr.tolist() == want
    got = as_float_list(got_arr)
    if got is None or len(got) != len(want):
        return False
    for x, d in zip(want, got):
        if x != x or abs(x) == math.inf:
            if not same_nonfinite(x, d):
                return False
        elif tol is None:
            if d != x:
                return False
        elif abs(d - x) > tol(x):
            return False
    return True


def file_case(ctx, dname, n, mask, mname, level, do_compress):
    pdbx = _enc()["pdbx"]
    case = {"k": "file", "data": dname, "n": n, "mask": mask, "menc": mname, "level": level,
            "compress": do_compress}
    if not ctx.journal(case):
        return
    kind, vals_all, chain = COL_DATA[dname]
    vals = vals_all[:n]
    has_nan = kind == "float" and any(x != x for x in vals)
    either = n == 0 and (do_compress or (chain is not None) or (mask is not None and mname in ("rle", "pack")))
    cls = "unspecified" if either else "accepted"
    cpl = "compress" if do_compress else "plain"
    phase = "build"
    try:
        col, _, _ = make_column(dname, n, mask, mname)
        other = pdbx.BinaryCIFColumn(np.arange(n, dtype=np.int32))
        f = wrap(col, other, level)
        if do_compress:
            phase = "compress"
            tolv = 1e-6
            if level == "column":
                f["blk"]["cat"]["col"] = pdbx.compress(f["blk"]["cat"]["col"], tolv)
            elif level == "category":
                f["blk"]["cat"] = pdbx.compress(f["blk"]["cat"], tolv)
            elif level == "block":
                f["blk"] = pdbx.compress(f["blk"], tolv)
            else:
                f = pdbx.compress(f, tolv)
        phase = "write_read"
        g, raw = file_roundtrip(f)
        phase = "access"
        gcol = g["blk"]["cat"]["col"]
        garr = gcol.data.array
        gmask = None if gcol.mask is None else gcol.mask.array
        gother = g["blk"]["cat"]["other"].as_array()
        rc = g["blk"]["cat"].row_count
        phase = "eq"
        eq = bool(g == f)
        eq_col = bool(gcol == f["blk"]["cat"]["col"])
    except Exception as e:  # noqa: BLE001
        if either:
            ctx.count("unspecified")
            ctx.count("refused_observed")
            ctx.ev(1, 0)
            ctx.outcome((phase, type(e).__name__))
            return
        ctx.violation("file|%s_raised_%s|%s,%s,%s" % (phase, type(e).__name__, kind, cpl,
                                                     "empty" if n == 0 else ("masked" if mask is not None else
                                                                             "unmasked")),
                      "writing/reading a file raised %s during %s" % (type(e).__name__, phase), case,
                      observed=str(e)[:200])
        ctx.count(cls)
        ctx.ev(1, 0)
        return
    tolf = None
    lossy = kind == "float" and (do_compress or chain is not None)
    if lossy:
        if do_compress:
            def tolf(x):
                return 1e-6 * abs(x) * (1 + 1e-6) + 4 * math.ulp(x)
        else:
            def tolf(x):
                return 0.005 * (1 + 1e-9) + 4 * math.ulp(x)
    ok_data = arrays_match(kind, vals, garr, tolf)
    ok_mask = (mask is None and gmask is None) or (mask is not None and as_int_list(gmask) == mask)
    ok_other = as_int_list(gother) == list(range(n)) and rc == n
    where = "%s,%s,%s" % (kind, cpl, level)
    if not ok_data:
        ctx.violation("file|data_differs|%s" % where, "column data read back different", case,
                      expected=enc_floats(vals) if kind == "float" else vals, observed=repr(garr)[:200])
    if not ok_mask:
        ctx.violation("file|mask_differs|%s,%s" % (where, mname), "column mask read back different", case,
                      expected=mask, observed=repr(gmask)[:200])
    if not ok_other:
        ctx.violation("file|neighbour_column_or_row_count_differs|%s" % where,
                      "second column / row count read back different", case, expected=[list(range(n)), n],
                      observed=[repr(gother)[:100], rc])
    # == between what was read and what was written: exact kinds only (lossy float encodings change the
    # array within tolerance; NaN never compares equal under array_equal)
    if not lossy and not has_nan and not (eq and eq_col):
        ctx.violation("file|read_not_equal_written|%s" % where, "BinaryCIFFile.read(write(f)) != f", case,
                      expected=True, observed=[eq, eq_col])
    ctx.count(cls)
    ctx.ev(1, 1 if n else 0)
    ctx.outcome(raw)
    if n >= 3 and mask and len(set(mask)) == 3 and len(ctx.samples) < 1 and do_compress:
        ctx.sample(case)


def run_file_shard(shard, ctx):
    dname, level = shard["data"], shard["level"]
    maxn = 3 if ctx.tier == "quick" else 4
    for n in range(0, maxn + 1):
        masks = [None] + [list(t) for t in itertools.product((0, 1, 2), repeat=n)]
        for mask in masks:
            for mname in (MASK_ENCS if mask is not None else ["default"]):
                for do_compress in (False, True):
                    file_case(ctx, dname, n, mask, mname, level, do_compress)


def shapes_case(ctx, shape):
    """File shapes: `shape` is a list of blocks, each a list of categories, each a list of column kinds."""
    pdbx = _enc()["pdbx"]
    case = {"k": "shape", "shape": shape}
    if not ctx.journal(case):
        return
    names = ["b1", "B 2", "é"]
    cnames = ["c1", "c 2"]
    want = {}
    f = pdbx.BinaryCIFFile()
    empty_cat = False
    for bi, cats in enumerate(shape):
        blk = pdbx.BinaryCIFBlock()
        for ci, cols in enumerate(cats):
            cat = pdbx.BinaryCIFCategory()
            if not cols:
                empty_cat = True
            for k, cname in enumerate(cols):
                kind, vals, chain = COL_DATA[cname]
                cat["k%d" % k] = pdbx.BinaryCIFColumn(
                    pdbx.BinaryCIFData(np_col(kind, vals[:2]), None if chain is None else [build(s) for s in chain]))
                want[(names[bi], cnames[ci], "k%d" % k)] = (kind, vals[:2], cname)
            blk[cnames[ci]] = cat
        f[names[bi]] = blk
    try:
        g, raw = file_roundtrip(f)
    except Exception as e:  # noqa: BLE001
        if empty_cat:  # documented: "At least one column is required"
            ctx.count("refusable")
            ctx.count("refused_observed")
            ctx.ev(1, 1)
            ctx.outcome(("exc", type(e).__name__))
            return
        ctx.violation("file_shape|write_read_raised_%s|%s" % (type(e).__name__, "no_blocks" if not shape else "blocks"),
                      "writing/reading a file raised", case, observed=str(e)[:200])
        ctx.ev(1, 0)
        return
    if empty_cat:
        ctx.count("refusable")
        # a category without columns has no representation; writing it silently is not an alteration of data
        ctx.ev(1, 0)
        ctx.outcome(raw)
        return
    ok = list(g.keys()) == names[:len(shape)]
    for bi, cats in enumerate(shape):
        if not ok:
            break
        ok = ok and list(g[names[bi]].keys()) == cnames[:len(cats)]
    bad = None
    if ok:
        for (b, c, k), (kind, vals, cname) in want.items():
            try:
                arr = g[b][c][k].data.array
            except Exception as e:  # noqa: BLE001
                bad = (b, c, k, type(e).__name__)
                break
            tolf = (lambda x: 0.005 * (1 + 1e-9) + 4 * math.ulp(x)) if cname == "float_fixed" else None
            if not arrays_match(kind, vals, arr, tolf):
                bad = (b, c, k, repr(arr)[:80])
                break
    lossy = any(w[2] in ("float_fixed", "float_nan") for w in want.values())
    if not ok or bad:
        ctx.violation("file_shape|content_differs|%s" % ("names" if not ok else "column"),
                      "file structure read back different", case, observed=bad or [list(g.keys())])
    elif not lossy and not (g == f):
        ctx.violation("file_shape|read_not_equal_written|exact_kinds", "BinaryCIFFile.read(write(f)) != f", case)
    ctx.count("accepted")
    ctx.ev(1, 1 if want else 0)
    ctx.outcome(raw)


def run_shape_shard(shard, ctx):
    kinds = list(COL_DATA)
    col_sets = [[]] + [[k] for k in kinds] + [[a, b] for a, b in itertools.permutations(kinds[:5], 2)]
    cat_sets = [[]] + [[c] for c in col_sets] + [[a, b] for a in col_sets[1:9] for b in col_sets[1:9]]
    part, parts = shard["part"], shard["parts"]
    idx = 0
    shapes = [[]] + [[c] for c in cat_sets]
    small = cat_sets[:12]
    shapes += [[a, b] for a in small for b in small]
    if ctx.tier == "thorough":
        shapes += [[a, b, c] for a in small[:6] for b in small[:6] for c in small[:6]]
    for sh in shapes:
        idx += 1
        if idx % parts != part:
            continue
        shapes_case(ctx, sh)


# ---------------------------------------------------------------------------
# contract
# ---------------------------------------------------------------------------
def bounds(tier):
    q = tier == "quick"
    return {
        "int_dtypes": INT_DTYPES,
        "int_palette_sizes_full": {d: len(full_palette(d)) for d in INT_DTYPES},
        "ba_array_len": "0..3" if q else "0..4",
        "single_array_len": "full 0..2, core 3, patterns 4" if q else "full 0..3, core 4, patterns 5-6",
        "single_stage_variants": "8 symbols x 7 ByteArray types + 22 explicit-parameter variants",
        "chain_len": "2..3" if q else "2..4",
        "chain_arrays": "core 0..2, patterns 3-4" if q else "core 0..2, patterns 3-5",
        "fixed_factors": FACTORS,
        "fixed_array_len": "palette(19) 0..2, core(6) 3" if q else "palette(19) 0..3, core(6) 4",
        "fixed_tail_len": "<=1 (<=2 for factor 1000, src_type auto)" if q else "<=2",
        "iq_settings": IQ_SETTINGS,
        "iq_array_len": "0..2" if q else "0..3",
        "floatba_array_len": "0..2" if q else "0..3",
        "string_array_len": "0..4" if q else "0..5",
        "string_chain_pairs": len(STR_CHAINS) ** 2,
        "compress_int_len": "0..3" if q else "0..4 (int64: full 0..3 + core 4)",
        "compress_float_len": "0..3" if q else "0..4",
        "compress_tolerances": TOLS,
        "file_rows": "0..3" if q else "0..4",
        "pack_cap": M.PACK_CAP,
    }


def shards(tier, seed):
    q = tier == "quick"
    out = []

    def add(n, **kw):
        for p in range(n):
            out.append({**kw, "part": p, "parts": n})

    weight_ba = {"int64": 8, "uint64": 2, "int32": 3, "uint32": 2}
    weight_single = {"int64": 6, "uint64": 3, "int32": 4, "uint32": 3, "int16": 3, "uint16": 2}
    for d in INT_DTYPES:
        add(weight_ba.get(d, 1) * (1 if q else 6), s="int", g="ba", dtype=d)
        add(weight_single.get(d, 1) * (1 if q else 6), s="int", g="single", dtype=d)
        add(6 if q else 24, s="int", g="chain", dtype=d)
    for d in ("int32", "int64", "uint32"):
        add(4 if q else 8, s="int", g="ipbig", dtype=d)
    for d in ("float32", "float64"):
        for f in FACTORS:
            add(2 if q else 12, s="float", g="fixed", dtype=d, factor=f)
        for i in range(len(IQ_SETTINGS)):
            add(1 if q else 4, s="float", g="iq", dtype=d, setting=i)
        add(1 if q else 4, s="float", g="floatba", dtype=d)
        add(2 if q else 12, s="compress", kind="float", dtype=d)
        add(7 if q else 14, s="compress", kind="tiny", dtype=d)
    add(8 if q else 32, s="string")
    for d in INT_DTYPES:
        add({"int64": 3, "int32": 2}.get(d, 1) * (1 if q else 6), s="compress", kind="int", dtype=d)
    add(1 if q else 4, s="compress", kind="str", dtype="str")
    for dn in COL_DATA:
        for lv in LEVELS:
            out.append({"s": "file", "data": dn, "level": lv})
    add(2 if q else 8, s="shape")
    # heavy shards first, rotated by seed
    order = {"int": 0, "string": 1, "float": 2, "compress": 3, "file": 4, "shape": 5}
    out.sort(key=lambda s: (order[s["s"]], 0 if s.get("g") == "chain" else 1))
    k = seed % max(1, len(out))
    heavy = [s for s in out if s["s"] == "int"]
    rest = [s for s in out if s["s"] != "int"]
    k = seed % len(heavy)
    return heavy[k:] + heavy[:k] + rest


def run_shard(shard, ctx):
    _enc()
    s = shard["s"]
    if s == "int":
        run_int_shard(shard, ctx)
    elif s == "float":
        run_float_shard(shard, ctx)
    elif s == "string":
        run_string_shard(shard, ctx)
    elif s == "compress":
        run_compress_shard(shard, ctx)
    elif s == "file":
        run_file_shard(shard, ctx)
    elif s == "shape":
        run_shape_shard(shard, ctx)
    else:
        raise ValueError(shard)


def replay(case, ctx):
    _enc()
    if isinstance(case, str):
        case = json.loads(case)
    k = case["k"]
    if k == "int":
        int_case(ctx, case["dtype"], case["vals"], case["chain"], case.get("g", "replay"),
                 allow_big=case.get("g") == "ipbig")
    elif k == "float":
        float_case(ctx, case["dtype"], dec_floats(case["vals"]), case["chain"], case.get("g", "replay"))
    elif k == "floatba":
        floatba_case(ctx, case["dtype"], dec_floats(case["vals"]), case["chain"][0][1].get("type"))
    elif k == "str":
        string_case(ctx, case["strs"], case["table"], case["data"], case["offset"], string_palette(ctx.seed))
    elif k == "compress":
        vals = dec_floats(case["vals"]) if case["kind"] == "float" else case["vals"]
        iso = case.get("isolated") or (case["kind"] == "float" and any(
            x == x and x != 0 and abs(x) < tiny_limit(case["dtype"]) for x in vals))
        compress_case(ctx, case["kind"], case["dtype"], vals, case["tol"], isolated=iso)
    elif k == "file":
        file_case(ctx, case["data"], case["n"], case["mask"], case["menc"], case["level"], case["compress"])
    elif k == "shape":
        shapes_case(ctx, case["shape"])
    else:
        raise ValueError(case)


def crash_class(case):
    if isinstance(case, dict):
        k = case.get("k")
        if k in ("int", "float", "floatba"):
            return "%s|%s" % (k, chain_sig(case.get("chain", [])))
        if k == "compress":
            return "compress|%s" % case.get("kind")
        return str(k)
    return "unclassified"
