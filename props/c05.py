"""C05 - BinaryCIF encodings are invertible; compression stays within tolerance.

E2: bounded exhaustive enumeration of (array, encoding chain) pairs on the real
encoders / decoders, both directly (encode -> decode) and through the file
representation (BinaryCIFData.serialize -> msgpack -> deserialize), against the
round-trip law.  A reference model (mc/models/bcif_codec.py, Python integers and
fractions) decides for every stage of every chain whether the stage's target
representation can hold the values: representable -> the round trip must succeed
and be exact (floats: within the stated precision); not representable -> a clean
exception or lossless survival; everything else is a violation.
"""

import io
import itertools
import json
import math
import warnings

import numpy as np

from mc.models import bcif_codec as M

ID = "C05"
LEVEL = "model_checking"
EXHAUSTIVE = True
SHARD_TIMEOUT = {"quick": 600, "thorough": 3000}  # wall seconds; the box is shared, CPU limits do the real work
RULE = (
    "Every (array, chain) pair of the listed finite spaces is executed twice on the real code: encode_stepwise/"
    "decode_stepwise, and BinaryCIFData.serialize -> msgpack -> BinaryCIFData.deserialize (plus encoding equality "
    "after deserialisation). Groups (disjoint by chain length / kind): 'ba' = ByteArray(auto + each integer type "
    "code) on every integer array over the full boundary palette of its dtype; 'single' = one Delta/RunLength/"
    "IntegerPacking stage (all sign/byte-count variants x every ByteArray type, plus explicit src_type/src_size/"
    "origin variants) on full-palette arrays of length <=2(3), core-palette arrays of length 3(4) and run/"
    "alternation patterns; 'chain' = every sequence of 2..3(4) stages over the 8 stage symbols on core-palette "
    "arrays and patterns (the longer the chain, the shorter the longest array: exact limits under bounds); 'ipbig' = IntegerPacking of +-2^31-scale values; 'fixed'/'iq' = FixedPoint / "
    "IntervalQuantization (factor, interval and src_type variants) followed by every integer chain of length "
    "<=1(2) on float32/float64 arrays over a palette relative to the step; 'floatba' = ByteArray(auto/float32/"
    "float64) on float arrays; 'string' = StringArray with every pair of listed data/offset chains and given/"
    "derived string tables on every string array of length <=4(5) over 6 strings; 'compress' = compress() on "
    "every integer/float/string array at each tolerance (plus the listed column-like arrays of length 8/32/100: "
    "constants, ramps, alternations, runs), then file representation round trip; 'file' = columns "
    "with every mask over {0,1,2}^n, wrapped in category/block/file, written, read back, compared with == and "
    "array-wise, also after compress() at each container level; 'reuse' = ONE encoding object (every class, every "
    "2-stage integer chain, float/string chains, the list compress() returns) encodes array A and then array B for "
    "every ordered pair of a palette whose members determine different parameters (dtype, sign, width, length, "
    "origin, string table): B must come back exactly (floats: within the bound precision) or be refused, and must "
    "not be refused when a fresh object determines equal parameters (==) from B; one object decodes the encoded "
    "forms of A, B, A (same object, deserialised copy, RunLength without src_size); BinaryCIFData arrays overwritten "
    "in place and category columns replaced / overwritten between two writes of one file object (also after "
    "reading it); compress(compress(x)), compress(read(write(compress(x)))); every family also observes that the "
    "caller's array is byte-identical after encode / serialize / compress (also when refused); 'alias' = for each "
    "encoding chain and each column observer (as_array variants, as_item, serialize, deserialize, compress) on the "
    "reuse palette: arguments unchanged, overwriting a returned array changes neither a second result nor the object "
    "(written bytes == those of a twin built from private copies); 'flavour' = strided / negative-stride / read-only "
    "/ big-endian / ndarray-subclass / list / tuple / 0-d versions of the reuse palette and parameters spelled as "
    "numpy scalars or dtype-likes: same bytes and arrays as the plain contiguous native array with Python "
    "parameters; 'sizes' = every length 2..40 and the lengths around 64/128/256/16384/32768/65536 for 11 column "
    "patterns through compress() and 5 chains, string tables whose offsets / indices cross 8 and 16 bit, decimal "
    "places 0..25 for compress(), 9/10/11/99/100/101 blocks, categories, columns; 'lazy' = all 64 subsets of 6 "
    "forcing actions on a file that was read x 2 insertion orders: keys, == and != in both directions against the "
    "written object, an untouched second reading and 7 perturbed files, and the file written again; 'identity' = "
    "compress() at 5 levels x 5 file shapes (incl. no blocks / empty block / single values / uncompressible) x "
    "{plain, already compressed operand}: result is a new object of the same type and re-binding edits of it leave "
    "the operand's keys and written bytes unchanged; 'values' = every value the anchored code branches on that no "
    "palette holds (byte_count outside {1,2}, unknown type codes / encoding kinds / malformed encoding "
    "descriptions, compress() of unsupported types, float16 / longdouble / bool / bytes / complex / datetime "
    "arrays, mask values outside the enum) and integers / strings that combine two awkward features (negative x "
    "exact multiple of a packing limit, non-ASCII x longer than 255, astral x blank, quotes, control characters); "
    "'derived' = arrays / columns the library hands out (decoded through default / chain / compress, as_array "
    "variants, column of a read file) fed into default / chain / compress / a masked column of a new compressed "
    "file; reuse additionally walks A -> B -> A (encodings and category columns) and reads row_count between the "
    "steps; 'operands' = data x mask, column x column (built together / assigned from another category), == of "
    "data / column / category / block / file objects with n vs m rows and n vs m keys for all n, m in 0..3 (second "
    "operand larger and smaller), explicit row_count m vs n rows, explicit src_type / type (6 codes) vs dtype (8) "
    "through Delta / RunLength / ByteArray / a chain; 'ambient' = 9 arrays x chains + compress() under numpy error "
    "state ignore / warn / raise, warnings as errors, and changed print options: same result as under the default, "
    "and the call leaves error state, print options and warning filters as it found them; 'ties' = compress() with "
    "tolerances 0, 1e-12, 0.2, 0.5, 1, 10 on arrays whose rounding error equals the tolerance exactly, all-equal, "
    "all-zero, zero + value; 'levels' = compress(x, float_tolerance) for tolerances 1e-9, 1e-6, 1e-3, 1e-1 applied at "
    "data / column / category / block / file level x 6 arrays (9-digit floats, float32, a 40-row ramp, ints) x {plain, "
    "already compressed operand}: every contained column gets the encodings and decoded values that compress() of "
    "the column alone gives with that tolerance, within the requested tolerance. A case counts as non-trivial when the array is "
    "non-empty and the oracle either compared a decoded non-empty array element-wise with the original or "
    "observed the refusal of a value that the model says the representation cannot hold."
)
ASSUMPTIONS = [
    "the oracle demands only the round-trip law; the encoded byte layout is not compared with the format text",
    "a stage may refuse (any Exception) exactly when the reference model finds a value its target representation "
    "cannot hold; it may never return a different value",
    "empty arrays into RunLength / Delta(origin omitted) / IntegerPacking(sign omitted) and into compress(): "
    "statement silent -> clean exception or exact result (counted as unspecified)",
    "IntervalQuantization: values inside [min,max] must come back within one step; finite values outside the "
    "interval and +-inf are clamped by the format definition and are not judged; NaN must be refused or stay NaN",
    "FixedPoint tolerance: 0.5/factor plus 4 ulp of the value in the narrower of data/src_type precision; products "
    "within 1e-12 (float32: 1e-6) relative of the int32 limit or of a rounding tie are judged as unspecified",
    "reuse: every auto-determined parameter is documented as taken from the data of the first encode() call, so "
    "an object that has seen A may refuse B (any Exception) unless a fresh object determines equal parameters from "
    "B; a float array is never the FIRST array of a Delta/RunLength/IntegerPacking object (documented integer input)",
    "aliasing that the unchanged tree has and the statement does not forbid is counted, not judged: BinaryCIFData "
    "keeps the caller's array, BinaryCIFColumn.as_array() without mask/conversion hands out the stored array "
    "(documented shortcut for data.array), compress() is documented as no deep copy",
    "array flavours the statement does not name may be refused (0-d arrays; big-endian: 64-bit integers raise "
    "KeyError in TypeCode.from_dtype), but never give a different result than the plain array",
    "a refused first encode() may leave automatically determined parameters behind that make the object refuse a "
    "later array (counted as unspecified_refusal_after_refused_first_call); it may never alter one",
    "integer arrays are not sent to float ByteArray types nor float arrays to integer ByteArray types "
    "(statement silent on cross-kind casts)",
    "files whose arrays contain NaN are compared array-wise (bit pattern class) instead of with ==, because "
    "== is defined through numpy.array_equal",
    "cases whose IntegerPacking output would exceed %d elements are not executed in the product groups "
    "(counted as skipped_pack_cap); +-2^31-scale packing is covered by the 'ipbig' group" % M.PACK_CAP,
    "float arrays for which the decimal places demanded by the tolerance cannot be formed in the array's own "
    "float type (-log10(min|x|*tol) + log10(max|x|) + 2 > log10(finfo.max)) are passed to compress() only in "
    "the listed 'range' arrays (counted as skipped_beyond_float_range_unlisted otherwise); every compress() call "
    "runs under a CPU-time limit of 0.5 s",
]

I8, I16, I32, U8, U16, U32, F32, F64 = 1, 2, 3, 4, 5, 6, 32, 33
INT_DTYPES = ["int8", "uint8", "int16", "uint16", "int32", "uint32", "int64", "uint64"]
INT_TCS = [I8, I16, I32, U8, U16, U32]

# seed-selected palette members (every choice is listed here; all must be clean)
SEED_MID = [255, 128, 256, 127, 254]
SEED_FLOAT = [1234.5678, 987.654321, 42.4242, 0.333333, 7777.125]
SEED_CHAR = ["é", "ß", "中", "\U0001d6fc", "ñ"]
SEED_LONG = [300, 256, 513, 1000, 301]


# ---------------------------------------------------------------------------
# palettes
# ---------------------------------------------------------------------------
BASE = [-(2**31) - 1, -(2**31), -(2**31) + 1, -32769, -32768, -129, -128, -1, 0, 1, 127, 128, 255, 256,
        32767, 32768, 65535, 65536, 2**31 - 1, 2**31, 2**32 - 1, 2**32]


def full_palette(dtype):
    lo, hi = M.DTYPE_RANGE[dtype]
    s = {v for v in BASE if lo <= v <= hi} | {lo, lo + 1, hi - 1, hi}
    return sorted(s)


def core_palette(dtype, seed):
    lo, hi = M.DTYPE_RANGE[dtype]
    mid = SEED_MID[seed % 5]
    if mid > hi:
        mid = 127 if hi == 127 else mid
    if dtype == "int64":
        s = {-(2**31) - 1, -(2**31), -1, 0, 1, mid, 2**31 - 1, 2**31}
    elif dtype == "uint64":
        s = {0, 1, mid, 2**31 - 1, 2**32 - 1, 2**32}
    elif lo < 0:
        s = {lo, -1, 0, 1, min(mid, hi), hi}
    else:
        s = {0, 1, min(mid, hi - 1), hi // 2 + 1, hi}
    return sorted(s)


def patterns(core, length):
    """Run / alternation patterns over ordered pairs of core values."""
    out = []
    shapes = {
        3: ["aaa", "aab", "aba", "abb"],
        4: ["aaaa", "aaab", "abbb", "aabb", "abab", "abba"],
        5: ["aaaaa", "ababa", "aabbb", "aaabb", "abbba"],
        6: ["aaaaaa", "ababab", "aaabbb", "aabbaa"],
    }[length]
    for sh in shapes:
        if "b" not in sh:
            for a in core:
                out.append([a] * length)
        else:
            for a, b in itertools.permutations(core, 2):
                out.append([a if c == "a" else b for c in sh])
    return out


def products(pal, lengths):
    for n in lengths:
        for t in itertools.product(pal, repeat=n):
            yield list(t)


# ---------------------------------------------------------------------------
# encoding specs -> biotite objects
# ---------------------------------------------------------------------------
def B(t=None):
    return ["B", {"type": t}]


def D(src_type=None, origin=None):
    return ["D", {"src_type": src_type, "origin": origin}]


def R(src_type=None, src_size=None):
    return ["R", {"src_type": src_type, "src_size": src_size}]


def P(bc, uns=None, src_size=None):
    return ["P", {"byte_count": bc, "is_unsigned": uns, "src_size": src_size}]


def F(factor, src_type=None):
    return ["F", {"factor": factor, "src_type": src_type}]


def Q(lo, hi, steps, src_type=None):
    return ["Q", {"min": lo, "max": hi, "num_steps": steps, "src_type": src_type}]


SYMBOLS = {
    "D": D(), "R": R(),
    "P1a": P(1), "P1u": P(1, True), "P1s": P(1, False),
    "P2a": P(2), "P2u": P(2, True), "P2s": P(2, False),
}
SYM_ORDER = ["D", "R", "P1a", "P1u", "P1s", "P2a", "P2u", "P2s"]

_ENC = {}


def _enc():
    if not _ENC:
        import msgpack

        import biotite.structure.io.pdbx as pdbx
        from biotite.structure.io.pdbx import bcif
        from biotite.structure.io.pdbx import encoding as E

        _ENC.update(E=E, pdbx=pdbx, msgpack=msgpack, encode_numpy=bcif._encode_numpy)
        warnings.simplefilter("ignore")
        np.seterr(all="ignore")
    return _ENC


def build(spec):
    E = _enc()["E"]
    k, p = spec
    if k == "B":
        return E.ByteArrayEncoding(type=p.get("type"))
    if k == "D":
        return E.DeltaEncoding(src_type=p.get("src_type"), origin=p.get("origin"))
    if k == "R":
        return E.RunLengthEncoding(src_size=p.get("src_size"), src_type=p.get("src_type"))
    if k == "P":
        return E.IntegerPackingEncoding(byte_count=p["byte_count"], src_size=p.get("src_size"),
                                        is_unsigned=p.get("is_unsigned"))
    if k == "F":
        return E.FixedPointEncoding(factor=p["factor"], src_type=p.get("src_type"))
    if k == "Q":
        return E.IntervalQuantizationEncoding(min=p["min"], max=p["max"], num_steps=p["num_steps"],
                                              src_type=p.get("src_type"))
    if k == "S":
        strings = p.get("strings")
        if strings is not None:
            strings = np.array(strings, dtype="U") if strings else np.array([], dtype="U1")
        de = p.get("data")
        oe = p.get("offset")
        return E.StringArrayEncoding(
            strings=strings,
            data_encoding=None if de is None else [build(s) for s in de],
            offset_encoding=None if oe is None else [build(s) for s in oe],
        )
    raise ValueError(spec)


def chain_sig(chain):
    return "+".join(s[0] for s in chain)


# ---------------------------------------------------------------------------
# the two observation paths
# ---------------------------------------------------------------------------
def pack_cost(data, byte_count):
    """Number of elements IntegerPacking would emit for what actually arrives at it (after a possible
    wrap to 32 bit).  Cost guard only: an earlier stage may have produced values the model did not
    foresee (that is reported as a violation of that stage where it is observable)."""
    if not isinstance(data, np.ndarray) or data.dtype.kind not in "iu" or data.size == 0:
        return 0
    w = data.astype(np.int64)
    w = ((w + 2**31) % 2**32) - 2**31
    return int(np.abs(w).sum() // (127 if byte_count == 1 else 32767)) + len(w)


_INPUT_STATE = {"modified": False}


def run_paths(arr, chain, allow_big=False):
    """_run_paths plus the aliasing observation every family shares: neither path may modify the array it
    is given, whether it succeeds or refuses (recorded in _INPUT_STATE, reported by input_check)."""
    snap = arr.tobytes()
    out = _run_paths(arr, chain, allow_big)
    _INPUT_STATE["modified"] = arr.tobytes() != snap
    return out


def input_check(ctx, case, chain):
    if _INPUT_STATE["modified"]:
        _INPUT_STATE["modified"] = False
        ctx.violation("%s|input_array_modified|%s" % (chain_sig(chain), case.get("dtype", case.get("k"))),
                      "encoding / serialising changed the caller's array", case)


def _run_paths(arr, chain, allow_big=False):
    """Returns (direct, filed, packed): direct/filed are ('ok', decoded ndarray[, encodings equal]) or
    ('exc', phase, class name); (None, None, None) when the cost guard stopped the case."""
    env = _enc()
    E, pdbx, msgpack = env["E"], env["pdbx"], env["msgpack"]
    encs = [build(s) for s in chain]
    direct = None
    try:
        # encode_stepwise, stage by stage, so that the cost guard can look at what enters a packing stage
        # (encode_stepwise itself runs inside BinaryCIFData.serialize below)
        data = arr
        for spec, enc in zip(chain, encs):
            if spec[0] == "P" and pack_cost(data, spec[1]["byte_count"]) > M.PACK_CAP and not allow_big:
                return None, None, None
            data = enc.encode(data)
    except Exception as e:  # noqa: BLE001
        direct = ("exc", "encode", type(e).__name__)
        encs = [build(s) for s in chain]
    if direct is None:
        try:
            direct = ("ok", E.decode_stepwise(data, encs))
        except Exception as e:  # noqa: BLE001
            direct = ("exc", "decode", type(e).__name__)
    # file representation; the encodings now carry the parameters determined in the first pass,
    # as they do when a BinaryCIFData object is written (again) after having been encoded once
    try:
        d = pdbx.BinaryCIFData(arr, encs)
        ser = d.serialize()
    except Exception as e:  # noqa: BLE001
        return direct, ("exc", "encode", type(e).__name__), None
    try:
        packed = msgpack.packb(ser, use_bin_type=True, default=env["encode_numpy"])
    except Exception as e:  # noqa: BLE001
        return direct, ("exc", "msgpack", type(e).__name__), None
    try:
        d2 = pdbx.BinaryCIFData.deserialize(msgpack.unpackb(packed, use_list=True, raw=False))
    except Exception as e:  # noqa: BLE001
        return direct, ("exc", "decode", type(e).__name__), packed
    try:
        eq = bool(d2.encoding == d.encoding)
    except Exception:  # noqa: BLE001
        eq = False
    return direct, ("ok", d2.array, eq), packed


def as_int_list(a):
    if not isinstance(a, np.ndarray) or a.dtype.kind not in "iu" or a.ndim != 1:
        return None
    return a.tolist()


# ---------------------------------------------------------------------------
# integer cases
# ---------------------------------------------------------------------------
KIND_NAME = {"B": "ByteArray", "D": "Delta", "R": "RunLength", "P": "IntegerPacking", "F": "FixedPoint",
             "Q": "IntervalQuantization", "S": "StringArray"}


def int_features(vals, dtype, v):
    if v.ba_vs_packed:
        # one root cause whatever else is special about the input
        return "bytearray_type_differs_from_packed_type"
    if v.pp:
        return "packing_of_packed_array_with_multi_element_value"
    f = [dtype]
    if not vals:
        f.append("empty")
    if v.packed_limit:
        f.append("multi_element_value")
    return ",".join(f)


def culprit(chain, v):
    """Attribution of a failed round trip of representable values: the first stage that does not
    invert its own (model-computed) input when used alone; the whole chain if every stage does."""
    if v.cls != "accept" or len(v.inputs) != len(chain):
        return chain_sig(chain)
    if v.pp:
        return "P+P"
    for spec, (ivals, dt) in zip(chain, v.inputs):
        try:
            enc = build(spec)
            out = enc.decode(enc.encode(np.array(ivals, dtype=dt)))
            ok = as_int_list(np.asarray(out)) == list(ivals)
        except Exception:  # noqa: BLE001
            ok = False
        if not ok:
            return KIND_NAME[spec[0]]
    return chain_sig(chain)


def report(ctx, case, fails):
    """fails: list of (path, site, mode, input class, what, expected, observed).  The same failure on
    both observation paths is one violation ('both'); otherwise the path is part of the signature."""
    if len(fails) == 2 and fails[0][1:4] == fails[1][1:4]:
        fails = [("both",) + fails[0][1:]]
    for path, site, mode, cls, what, exp, obs in fails:
        ctx.violation("%s|%s_%s|%s" % (site, path, mode, cls), what, case, expected=exp, observed=obs)


def judge_int(ctx, case, vals, dtype, chain, v, direct, filed):
    compared = refused = False
    fails = []
    for path, res in (("direct", direct), ("file", filed)):
        if res[0] == "exc":
            if v.cls == "accept":
                fails.append((path, culprit(chain, v), "%s_raised_%s" % (res[1], res[2]),
                              int_features(vals, dtype, v),
                              "round trip of representable values raised %s in %s" % (res[2], res[1]),
                              vals, list(res)))
            else:
                refused = True
            continue
        got = as_int_list(res[1])
        if got == vals:
            compared = True
            if path == "file" and not res[2] and v.cls == "accept":
                fails.append((path, chain_sig(chain), "encoding_not_equal_after_read", int_features(vals, dtype, v),
                              "deserialised encodings differ from the written ones", None, None))
            continue
        shown = got if got is not None else repr(res[1])[:200]
        if v.cls == "accept":
            fails.append((path, culprit(chain, v), "wrong_value", int_features(vals, dtype, v),
                          "round trip of representable values returned a different array", vals, shown))
        elif v.cls == "refuse_or_exact":
            fails.append((path, v.stage, "silently_altered", "%s,%s" % (v.reason, dtype),
                          "value the representation cannot hold was neither refused nor kept",
                          "exception or %r" % (vals,), shown))
        else:
            fails.append((path, v.stage, "wrong_value", "%s,%s" % (v.reason, dtype),
                          "unspecified input returned a different array instead of an error",
                          "exception or %r" % (vals,), shown))
    report(ctx, case, fails)
    return compared, refused


def int_case(ctx, dtype, vals, chain, group, allow_big=False):
    v = M.int_chain(vals, M.DTYPE_TC[dtype], chain, allow_big=allow_big, np_range=M.DTYPE_RANGE[dtype], np_name=dtype)
    if v.cls == "skip":
        ctx.count("skipped_pack_cap")
        return
    case = {"k": "int", "g": group, "dtype": dtype, "vals": vals, "chain": chain}
    if not ctx.journal(case):
        return
    arr = np.array(vals, dtype=dtype)
    direct, filed, packed = run_paths(arr, chain, allow_big)
    input_check(ctx, case, chain)
    if direct is None:
        ctx.count("skipped_pack_cap_observed")
        return
    compared, refused = judge_int(ctx, case, vals, dtype, chain, v, direct, filed)
    ctx.count({"accept": "accepted", "refuse_or_exact": "refusable", "either": "unspecified"}[v.cls])
    if refused:
        ctx.count("refused_observed")
    nt = bool(vals) and (compared or (refused and v.cls == "refuse_or_exact"))
    ctx.ev(1, 1 if nt else 0)
    ctx.outcome(packed if packed is not None else (direct[1:], filed[1:]))
    if (nt and len(ctx.samples) < 2 and len(chain) >= 2 and len(set(vals)) >= 2 and dtype in ("int32", "uint32")
            and (ctx.shard or {}).get("part") == 0):
        ctx.sample({**case, "model": v.cls, "result": "round trip exact" if compared else "refused"})


def int_arrays_full(dtype, lengths):
    return products(full_palette(dtype), lengths)


def single_arrays(dtype, tier, seed):
    core = core_palette(dtype, seed)
    if tier == "quick":
        yield from products(full_palette(dtype), (0, 1, 2))
        yield from products(core, (3,))
        yield from patterns(core, 4)
    else:
        yield from products(full_palette(dtype), (0, 1, 2, 3))
        yield from products(core, (4,))
        yield from patterns(core, 5)
        yield from patterns(core, 6)


def chain_arrays(dtype, tier, seed):
    core = core_palette(dtype, seed)
    yield from products(core, (0, 1, 2))
    yield from patterns(core, 3)
    yield from patterns(core, 4)
    if tier == "thorough":
        yield from patterns(core, 5)


def single_variants(n, first, dtype):
    """Explicit-parameter variants of one stage (terminated by ByteArray(auto)).  Delta documents src_type
    as 'the data type of the array to be encoded' and does not convert: only the truthful value is
    generated for it; RunLength converts to src_type, every type code is generated."""
    out = [[D(src_type=M.DTYPE_TC[dtype]), B()]]
    for t in INT_TCS:
        out.append([R(src_type=t), B()])
    out.append([D(origin=0), B()])
    out.append([D(origin=first), B()])
    out.append([D(origin=-1), B()])
    for size in (n, n + 1):
        out.append([R(src_size=size), B()])
        out.append([P(1, None, size), B()])
        out.append([P(2, False, size), B()])
    return out


def all_chains(lengths):
    for n in lengths:
        for t in itertools.product(SYM_ORDER, repeat=n):
            yield [SYMBOLS[s] for s in t]


IPBIG_VALUES = [-(2**31) - 1, -(2**31), -(2**31) + 1, -(2**24), 2**24, 2**31 - 2, 2**31 - 1, 2**31, 0, 1]


def run_int_shard(shard, ctx):
    g, dtype, part, parts = shard["g"], shard["dtype"], shard["part"], shard["parts"]
    tier, seed = ctx.tier, ctx.seed
    idx = 0
    if g == "ba":
        chains = [[B()]] + [[B(t)] for t in INT_TCS]
        if tier == "quick":
            arrs = int_arrays_full(dtype, (0, 1, 2, 3))
        elif dtype == "int64":  # 26^4 arrays would dominate the tier
            arrs = itertools.chain(int_arrays_full(dtype, (0, 1, 2, 3)), products(core_palette(dtype, seed), (4,)))
        else:
            arrs = int_arrays_full(dtype, (0, 1, 2, 3, 4))
        for vals in arrs:
            idx += 1
            if idx % parts != part:
                continue
            for ch in chains:
                int_case(ctx, dtype, vals, ch, g)
    elif g == "single":
        bas = [B()] + [B(t) for t in INT_TCS]
        for vals in single_arrays(dtype, tier, seed):
            idx += 1
            if idx % parts != part:
                continue
            for s in SYM_ORDER:
                for b in bas:
                    int_case(ctx, dtype, vals, [SYMBOLS[s], b], g)
            for ch in single_variants(len(vals), vals[0] if vals else 0, dtype):
                int_case(ctx, dtype, vals, ch, g)
    elif g == "chain":
        chains2 = [c + [B()] for c in all_chains((2,))]
        chains3 = [c + [B()] for c in all_chains((3,))]
        chains4 = [c + [B()] for c in all_chains((4,))] if tier == "thorough" else []
        max3 = 2 if tier == "quick" else 5  # longest array sent through the 512 three-stage chains
        for vals in chain_arrays(dtype, tier, seed):
            idx += 1
            if idx % parts != part:
                continue
            for ch in chains2:
                int_case(ctx, dtype, vals, ch, g)
            if len(vals) <= max3:
                for ch in chains3:
                    int_case(ctx, dtype, vals, ch, g)
            if len(vals) <= 2:
                for ch in chains4:
                    int_case(ctx, dtype, vals, ch, g)
    elif g == "ipbig":
        lo, hi = M.DTYPE_RANGE[dtype]
        pal = [x for x in IPBIG_VALUES if lo <= x <= hi]
        for vals in products(pal, (1, 2)):
            if not any(abs(x) >= 2**24 for x in vals):
                continue
            idx += 1
            if idx % parts != part:
                continue
            for s in SYM_ORDER[2:]:
                if s in ("P1a", "P1u", "P1s") and ctx.tier == "quick" and len(vals) == 2:
                    continue
                int_case(ctx, dtype, vals, [SYMBOLS[s], B()], g, allow_big=True)


# ---------------------------------------------------------------------------
# float cases
# ---------------------------------------------------------------------------
def f32(x):
    return float(np.float32(x))


def fixed_palette(factor, dtype, seed):
    step = 1.0 / factor
    tiny = 5e-324 if dtype == "float64" else 1e-45
    vals = [0.0, -0.0, 0.5 * step, -0.5 * step, 1.5 * step, -1.5 * step, 1e-3, SEED_FLOAT[seed % 5],
            (2**31 - 1) / factor, -(2**31 - 1) / factor, 2**31 / factor, -(2**31) / factor, (2**31 + 4096) / factor,
            -(2**31 + 4096) / factor, 1e30, tiny, math.nan, math.inf, -math.inf]
    core = [0.0, -1.5 * step, SEED_FLOAT[seed % 5], -(2**31 - 1) / factor, 2**31 / factor, math.nan]
    return vals, core


def canon_floats(vals, dtype):
    """The exact values the array elements have in `dtype`, as Python floats."""
    if dtype == "float32":
        return [f32(x) for x in vals]
    return [float(x) for x in vals]


def fkey(x):
    if x != x:
        return "nan"
    if x == 0:
        return "-0" if math.copysign(1, x) < 0 else "0"
    return repr(x)


def uniq_arrays(arrs, dtype):
    """Drop arrays that coincide after conversion to dtype (e.g. two float64 palette members that
    round to the same float32), so that no case is executed twice."""
    seen = set()
    for a in arrs:
        c = canon_floats(a, dtype)
        k = tuple(fkey(x) for x in c)
        if k in seen:
            continue
        seen.add(k)
        yield c


def enc_floats(vals):
    return [x if (x == x and abs(x) != math.inf) else fkey(x) if x != x else ("inf" if x > 0 else "-inf")
            for x in vals]


def dec_floats(vals):
    m = {"nan": math.nan, "inf": math.inf, "-inf": -math.inf}
    return [m[x] if isinstance(x, str) else float(x) for x in vals]


def as_float_list(a):
    if not isinstance(a, np.ndarray) or a.dtype.kind != "f" or a.ndim != 1:
        return None
    return [float(x) for x in a]


def same_nonfinite(x, d):
    if x != x:
        return d != d
    return d == x


def judge_elements(xs, got, elem_cls, tol_fn):
    """Per element: ok -> within tolerance; nan/inf -> preserved; overflow/border -> within tolerance
    (kept losslessly); free -> not judged.  Returns list of (index, class) that fail."""
    bad = []
    for i, (x, d, c) in enumerate(zip(xs, got, elem_cls)):
        if c == "free":
            continue
        if c in ("nan", "inf"):
            if not same_nonfinite(x, d):
                bad.append((i, c))
            continue
        if d != d or abs(d) == math.inf or abs(d - x) > tol_fn(x, d):
            bad.append((i, c))
    return bad


def float_case(ctx, dtype, xs, chain, group):
    """chain[0] is FixedPoint or IntervalQuantization, the rest an integer chain ending in ByteArray."""
    head, p = chain[0]
    data_tc = M.DTYPE_TC[dtype]
    dec_tc = p.get("src_type") or data_tc
    narrow = 32 if 32 in (data_tc, dec_tc) else 33
    if head == "F":
        f = p["factor"]
        ec = [M.fixed_point_element(x, f, data_tc) for x in xs]
        elem_cls = [c[0] for c in ec]
        ints = [c[1] for c in ec]
        tie = any(c[2] for c in ec)
        half = 0.5 / f

        def tol(x, d):
            return half * (1 + 1e-9) + 4 * M.ulp(max(abs(x), abs(d)), narrow)

        stage = "FixedPoint"
    else:
        lo, hi, ns = float(p["min"]), float(p["max"]), p["num_steps"]
        step = (hi - lo) / (ns - 1)
        elem_cls, ints = [], []
        for x in xs:
            if x != x:
                elem_cls.append("nan")
                ints.append(0)
            elif lo <= x <= hi:
                elem_cls.append("ok")
                ints.append(int(math.ceil((x - lo) / step - 1e-9)))
            else:
                elem_cls.append("free")
                ints.append(0 if x < lo else ns)
        tie = False
        scale = max(abs(lo), abs(hi))

        def tol(x, d):
            return step * (1 + 1e-9) + 4 * M.ulp(max(abs(x), abs(d), scale), narrow)

        stage = "IntervalQuantization"
    # verdict
    v = M.Verdict()
    dv = None
    for c, name in (("nan", "nan"), ("inf", "infinite"), ("overflow", "product_exceeds_int32")):
        if c in elem_cls:
            v.problem(stage, name)
            break
    if v.cls == "accept" and "border" in elem_cls:
        v.either(stage, "product_at_int32_limit")
    if v.cls != "refuse_or_exact":
        dv = M.int_chain(ints, I32, chain[1:])
        if dv.cls == "skip":
            ctx.count("skipped_pack_cap")
            return
        if dv.cls == "refuse_or_exact":
            v.problem(dv.stage, dv.reason)
        elif dv.cls == "either":
            v.either(dv.stage, dv.reason)
        if tie and v.cls == "accept" and len(chain) > 2:
            # the integer behind a rounding tie is not determined by the statement; a stage behind
            # FixedPoint that depends on it (sign, limit) may legitimately refuse
            v.either(stage, "rounding_tie_before_integer_stage")
    else:
        # do not run cases whose packed size explodes (model ints are meaningless for the bad element,
        # use the finite ones)
        dv = M.int_chain([q for q, c in zip(ints, elem_cls) if c in ("ok", "border")], I32, chain[1:])
        if dv.cls == "skip":
            ctx.count("skipped_pack_cap")
            return
    case = {"k": "float", "g": group, "dtype": dtype, "vals": enc_floats(xs), "chain": chain}
    if not ctx.journal(case):
        return
    arr = np.array(xs, dtype=dtype)
    direct, filed, packed = run_paths(arr, chain)
    input_check(ctx, case, chain)
    if direct is None:
        ctx.count("skipped_pack_cap_observed")
        return
    compared = refused = False
    fails = []
    head_name = KIND_NAME[head]

    def site():
        # attribution of a failure on representable input: the integer tail alone, if it is to blame
        if dv is not None and dv.cls == "accept":
            c = culprit(chain[1:], dv)
            if c != chain_sig(chain[1:]):
                return c
        return chain_sig(chain)

    for path, res in (("direct", direct), ("file", filed)):
        if res[0] == "exc":
            if v.cls == "accept":
                fails.append((path, site(), "%s_raised_%s" % (res[1], res[2]),
                              int_features(ints, dtype, dv) if site() != chain_sig(chain) else
                              ("empty" if not xs else dtype),
                              "round trip of representable floats raised %s in %s" % (res[2], res[1]),
                              "within tolerance", list(res)))
            else:
                refused = True
            continue
        got = as_float_list(res[1])
        if got is None or len(got) != len(xs):
            fails.append((path, chain_sig(chain), "wrong_shape_or_dtype", v.cls,
                          "decoded array has a different length or is not floating point",
                          enc_floats(xs), repr(res[1])[:200]))
            continue
        bad = judge_elements(xs, got, elem_cls, tol)
        if not bad:
            compared = True
            if path == "file" and not res[2] and v.cls == "accept":
                fails.append((path, chain_sig(chain), "encoding_not_equal_after_read", dtype,
                              "deserialised encodings differ from the written ones", None, None))
            continue
        i, c = bad[0]
        if c in ("nan", "inf", "overflow", "border"):
            name = {"nan": "nan", "inf": "infinite", "overflow": "product_exceeds_int32",
                    "border": "product_exceeds_int32"}[c]
            fails.append((path, head_name, "silently_altered", "%s,%s" % (name, dtype),
                          "float the fixed-point/bin representation cannot hold was neither refused nor kept",
                          "exception or element %d preserved" % i, enc_floats(got)))
        elif v.cls == "accept":
            fails.append((path, site(), "outside_tolerance", dtype,
                          "decoded float differs from the original by more than the stated precision",
                          {"x": enc_floats(xs), "tolerance": tol(xs[i], got[i]), "index": i}, enc_floats(got)))
        else:
            # a representable element is wrong although another element / a later stage allowed refusal
            fails.append((path, head_name, "representable_element_outside_tolerance", "%s,%s" % (v.reason, dtype),
                          "a representable element came back outside the tolerance", 
                          {"x": enc_floats(xs), "tolerance": tol(xs[i], got[i]), "index": i}, enc_floats(got)))
    report(ctx, case, fails)
    ctx.count({"accept": "accepted", "refuse_or_exact": "refusable", "either": "unspecified"}[v.cls])
    if "free" in elem_cls:
        ctx.count("iq_outside_interval_not_judged")
    if refused:
        ctx.count("refused_observed")
    nt = bool(xs) and (compared or (refused and v.cls == "refuse_or_exact"))
    ctx.ev(1, 1 if nt else 0)
    ctx.outcome(packed if packed is not None else (direct[1:], filed[1:]))
    if nt and len(ctx.samples) < 2 and len(xs) >= 2 and len(chain) >= 3:
        ctx.sample({**case, "model": v.cls, "result": "within tolerance" if compared else "refused"})


FACTORS = [1, 10, 1000, 0.1]
IQ_SETTINGS = [(10, 20, 21), (-1.0, 1.0, 3), (0.0, 0.3, 4)]


def iq_palette(setting, seed):
    lo, hi, ns = setting
    step = (hi - lo) / (ns - 1)
    return [lo, hi, lo + step, lo + 0.5 * step, lo + 1.49 * step, hi - 0.25 * step, (lo + hi) / 2 + step / 7,
            lo - step / 4, hi + step / 4, hi + 100 * step, -1e30, math.nan, math.inf, -math.inf,
            lo + (SEED_FLOAT[seed % 5] % 1.0) * (hi - lo)]


def int_tails(maxlen):
    out = [[B()]]
    for c in all_chains(range(1, maxlen + 1)):
        out.append(c + [B()])
    return out


def run_float_shard(shard, ctx):
    g, dtype, part, parts = shard["g"], shard["dtype"], shard["part"], shard["parts"]
    tier, seed = ctx.tier, ctx.seed
    idx = 0
    if g == "fixed":
        f = shard["factor"]
        pal, core = fixed_palette(f, dtype, seed)
        if tier == "quick":
            wide = list(uniq_arrays(itertools.chain(products(pal, (0, 1, 2)), products(core, (3,))), dtype))
            deep = wide if f == 1000 else []
            deep_src = (None,)
        else:
            wide = list(uniq_arrays(itertools.chain(products(pal, (0, 1, 2, 3)), products(core, (4,))), dtype))
            deep = list(uniq_arrays(itertools.chain(products(pal, (0, 1, 2)), products(core, (3,))), dtype))
            deep_src = (None, F32, F64)
        tails1 = int_tails(1)
        tails2 = [t for t in int_tails(2) if len(t) == 3]
        for xs in wide:
            idx += 1
            if idx % parts != part:
                continue
            for st in (None, F32, F64):
                for t in tails1:
                    float_case(ctx, dtype, xs, [F(f, st)] + t, g)
        for xs in deep:
            idx += 1
            if idx % parts != part:
                continue
            for st in deep_src:
                for t in tails2:
                    float_case(ctx, dtype, xs, [F(f, st)] + t, g)
    elif g == "iq":
        setting = IQ_SETTINGS[shard["setting"]]
        pal = iq_palette(setting, seed)
        if tier == "quick":
            arrs = products(pal, (0, 1, 2))
        else:
            arrs = itertools.chain(products(pal, (0, 1, 2)), products(pal[:6] + pal[7:9] + pal[11:12], (3,)))
        tails = int_tails(1)
        for xs in uniq_arrays(arrs, dtype):
            idx += 1
            if idx % parts != part:
                continue
            for st in (None, F32, F64):
                for t in tails:
                    float_case(ctx, dtype, xs, [Q(*setting, st)] + t, g)
    elif g == "floatba":
        pal = general_floats(dtype, seed, tiny=True) + [3.4028234663852886e38, 1e39, -1e39, 1e300]
        arrs = products(pal, (0, 1, 2) if tier == "quick" else (0, 1, 2, 3))
        for xs in uniq_arrays(arrs, dtype):
            idx += 1
            if idx % parts != part:
                continue
            for t in (None, F32, F64):
                floatba_case(ctx, dtype, xs, t)


def general_floats(dtype, seed, tiny=False):
    pal = [0.0, -0.0, 1e-3, 0.5, 100.0, SEED_FLOAT[seed % 5], -SEED_FLOAT[seed % 5], 2147483.647, 2147483.648,
           3e9, 1e30, 1e-30, math.nan, math.inf, -math.inf]
    if tiny:
        pal.append(5e-324 if dtype == "float64" else 1e-45)
    return pal


def floatba_case(ctx, dtype, xs, t):
    """ByteArray on floats: bit-exact when the type is the array's own (or wider); narrowing float64 ->
    float32: values float32 represents exactly must survive, values beyond the float32 range must be refused
    or kept, others may be refused or come back as the nearest float32."""
    chain = [B(t)]
    data_tc = M.DTYPE_TC[dtype]
    tt = t or data_tc
    elem = []
    v = M.Verdict()
    for x in xs:
        if tt == 32 and data_tc == 33 and x == x and abs(x) != math.inf:
            if abs(x) > 3.4028235677973366e38:
                elem.append("overflow")
                v.problem("ByteArray", "float64_exceeds_float32_range")
            elif f32(x) != x:
                elem.append("round")
            else:
                elem.append("exact")
        else:
            elem.append("exact")
    if v.cls == "accept" and "round" in elem:
        v.either("ByteArray", "float64_not_exact_in_float32")
    case = {"k": "floatba", "g": "floatba", "dtype": dtype, "vals": enc_floats(xs), "chain": chain}
    if not ctx.journal(case):
        return
    arr = np.array(xs, dtype=dtype)
    direct, filed, packed = run_paths(arr, chain)
    input_check(ctx, case, chain)
    compared = refused = False
    fails = []
    for path, res in (("direct", direct), ("file", filed)):
        if res[0] == "exc":
            if v.cls == "accept":
                fails.append((path, "ByteArray", "%s_raised_%s" % (res[1], res[2]), dtype,
                              "ByteArray round trip of floats raised", enc_floats(xs), list(res)))
            else:
                refused = True
            continue
        got = as_float_list(res[1])
        ok = got is not None and len(got) == len(xs)
        badc = None
        if ok:
            for x, d, c in zip(xs, got, elem):
                if c == "round":
                    good = d == f32(x)
                elif x != x:
                    good = d != d
                else:
                    good = d == x and (x != 0 or math.copysign(1, d) == math.copysign(1, x))
                if not good:
                    ok, badc = False, c
                    break
        if ok:
            compared = True
            if path == "file" and not res[2]:
                fails.append((path, "ByteArray", "encoding_not_equal_after_read", dtype,
                              "deserialised encodings differ from the written ones", None, None))
            continue
        if badc == "overflow":
            fails.append((path, "ByteArray", "silently_altered", "float64_exceeds_float32_range",
                          "float64 beyond the float32 range was stored as float32 without an error",
                          "exception or %r" % (enc_floats(xs),), enc_floats(got or [])))
        else:
            fails.append((path, "ByteArray", "wrong_value", "%s,%s" % (badc or "shape", dtype),
                          "ByteArray round trip of floats is not bit-exact", enc_floats(xs),
                          enc_floats(got) if got is not None else repr(res[1])[:200]))
    report(ctx, case, fails)
    ctx.count({"accept": "accepted", "refuse_or_exact": "refusable", "either": "unspecified"}[v.cls])
    if refused:
        ctx.count("refused_observed")
    nt = bool(xs) and (compared or (refused and v.cls == "refuse_or_exact"))
    ctx.ev(1, 1 if nt else 0)
    ctx.outcome(packed if packed is not None else (direct[1:], filed[1:]))


# ---------------------------------------------------------------------------
# strings
# ---------------------------------------------------------------------------
def string_palette(seed):
    return ["", "a", "ab", SEED_CHAR[seed % 5], "a b", "x" * SEED_LONG[seed % 5]]


STR_CHAINS = {
    "default": None,
    "B": [B()],
    "Bu8": [B(U8)],
    "Bi8": [B(I8)],
    "R": [R(), B()],
    "D": [D(), B()],
    "P1": [P(1), B()],
    "DRP": [D(), R(), P(1), B()],
}


def string_model(strs, table):
    """Returns (table, indices, offsets, missing)."""
    if table is None:
        table = []
        for s in strs:
            if s not in table:
                table.append(s)
    missing = any(s not in table for s in strs)
    idx = [table.index(s) for s in strs if s in table]
    offs = [0]
    for s in table:
        offs.append(offs[-1] + len(s))
    return table, idx, offs, missing


def string_case(ctx, strs, table_kind, dname, oname, pal):
    if table_kind == "derived":
        given = None
    elif table_kind == "given_same":
        given = string_model(strs, None)[0]
    elif table_kind == "given_superset":
        given = sorted(pal, reverse=True)
    else:  # given_missing: drop the first string of the data
        given = [s for s in string_model(strs, None)[0] if s != strs[0]]
    spec = ["S", {"strings": given, "data": STR_CHAINS[dname], "offset": STR_CHAINS[oname]}]
    table, idx, offs, missing = string_model(strs, given)
    dchain = STR_CHAINS[dname] or [B(I32)]
    ochain = STR_CHAINS[oname] or [B(I32)]
    vd = M.int_chain(idx, I32, dchain)
    vo = M.int_chain(offs, I32, ochain, np_range=M.DTYPE_RANGE["int64"], np_name="int64")
    if missing:
        vd = M.Verdict()
        vd.problem("StringArray", "string_not_in_given_table")
    if vd.cls == "skip" or vo.cls == "skip":
        ctx.count("skipped_pack_cap")
        return
    # direct path uses only the data chain; the file path both
    vf = vd
    if vd.cls == "accept" and vo.cls != "accept":
        vf = vo
    elif vd.cls == "either" and vo.cls == "refuse_or_exact":
        vf = vo
    case = {"k": "str", "strs": strs, "table": table_kind, "data": dname, "offset": oname}
    if not ctx.journal(case):
        return
    width = max([len(s) for s in strs] + [1])
    arr = np.array(strs, dtype="U%d" % width)
    direct, filed, packed = run_paths(arr, [spec])
    input_check(ctx, case, [spec])
    compared = refused = False
    fails = []
    tag = "StringArray[%s;%s]" % (chain_sig(dchain), chain_sig(ochain))
    for path, res, v in (("direct", direct, vd), ("file", filed, vf)):
        if res[0] == "exc":
            if v.cls == "accept":
                fails.append((path, tag, "%s_raised_%s" % (res[1], res[2]), "empty" if not strs else table_kind,
                              "string array round trip raised", strs, list(res)))
            else:
                refused = True
            continue
        a = res[1]
        got = a.tolist() if isinstance(a, np.ndarray) and a.dtype.kind == "U" and a.ndim == 1 else None
        if got == strs:
            compared = True
            if path == "file" and not res[2] and v.cls == "accept":
                fails.append((path, tag, "encoding_not_equal_after_read", table_kind,
                              "deserialised StringArrayEncoding differs from the written one", None, None))
            continue
        shown = got if got is not None else repr(a)[:200]
        if v.cls == "accept":
            fails.append((path, tag, "wrong_value", "empty" if not strs else table_kind,
                          "string array came back different", strs, shown))
        else:
            fails.append((path, v.stage, "silently_altered" if v.cls == "refuse_or_exact" else "wrong_value",
                          "%s,string_%s" % (v.reason, "indices" if v is vd else "offsets"),
                          "string array altered where a stage cannot hold its indices/offsets",
                          "exception or %r" % (strs,), shown))
    report(ctx, case, fails)
    ctx.count({"accept": "accepted", "refuse_or_exact": "refusable", "either": "unspecified"}[vf.cls])
    if refused:
        ctx.count("refused_observed")
    nt = bool(strs) and (compared or (refused and vf.cls == "refuse_or_exact"))
    ctx.ev(1, 1 if nt else 0)
    ctx.outcome(packed if packed is not None else (direct[1:], filed[1:]))
    if nt and len(ctx.samples) < 1 and len(set(strs)) >= 3 and dname == "DRP":
        ctx.sample({**case, "strs": [s if len(s) < 20 else "x*%d" % len(s) for s in strs]})


def run_string_shard(shard, ctx):
    part, parts = shard["part"], shard["parts"]
    pal = string_palette(ctx.seed)
    maxlen = 4 if ctx.tier == "quick" else 5
    names = list(STR_CHAINS)
    idx = 0
    for strs in products(pal, range(0, maxlen + 1)):
        idx += 1
        if idx % parts != part:
            continue
        full = len(strs) < maxlen  # the longest arrays get the 8 diagonal pairs only
        for dn in names:
            for on in names:
                if full or dn == on:
                    string_case(ctx, strs, "derived", dn, on, pal)
        for tk in ("given_same", "given_superset", "given_missing"):
            if tk == "given_missing" and not strs:
                continue
            for dn, on in (("default", "default"), ("DRP", "P1")):
                string_case(ctx, strs, tk, dn, on, pal)


# ---------------------------------------------------------------------------
# compress()
# ---------------------------------------------------------------------------
TOLS = {"float32": [1e-3, 1e-6], "float64": [1e-3, 1e-6, 1e-9]}


def compress_roundtrip(arr, tol):
    """compress() one BinaryCIFData and send the result through the file representation."""
    env = _enc()
    pdbx, msgpack = env["pdbx"], env["msgpack"]
    try:
        c = pdbx.compress(pdbx.BinaryCIFData(arr), tol)
    except Exception as e:  # noqa: BLE001
        return ("exc", "compress", type(e).__name__)
    try:
        packed = msgpack.packb(c.serialize(), use_bin_type=True, default=env["encode_numpy"])
    except Exception as e:  # noqa: BLE001
        return ("exc", "serialize", type(e).__name__)
    try:
        d2 = pdbx.BinaryCIFData.deserialize(msgpack.unpackb(packed, use_list=True, raw=False))
    except Exception as e:  # noqa: BLE001
        return ("exc", "deserialize", type(e).__name__)
    return ("ok", d2.array, [type(e).__name__.replace("Encoding", "") for e in c.encoding], len(packed))


class _CpuLimit(BaseException):
    """Raised by the CPU-time watchdog; BaseException so that no `except Exception` absorbs it."""


def _on_vtalrm(signum, frame):
    raise _CpuLimit()


def with_cpu_limit(seconds, fn, *args):
    """Run fn(*args) with a limit on the *CPU* time of this process (the box is shared, wall time
    means little).  Interrupts Python-level loops; a loop inside compiled code is left to the
    shard time-out.  Returns ('ok', value) or ('cpu_limit',)."""
    import signal

    old = signal.signal(signal.SIGVTALRM, _on_vtalrm)
    try:
        signal.setitimer(signal.ITIMER_VIRTUAL, seconds)
        try:
            val = fn(*args)
        finally:
            signal.setitimer(signal.ITIMER_VIRTUAL, 0)
        return ("ok", val)
    except _CpuLimit:
        return ("cpu_limit",)
    finally:
        signal.signal(signal.SIGVTALRM, old)


CPU_LIMIT = 0.5  # seconds of CPU for one compress() + write + read (measured: 0.3 - 3 ms)
FMAX_LOG10 = {"float32": 38.5, "float64": 308.2}


def float_span(xs, tol, dtype):
    """(decimal places needed for the smallest magnitude, log10 of largest magnitude), both rough."""
    nz = [abs(x) for x in xs if x == x and x != 0 and abs(x) != math.inf]
    if not nz:
        return None
    d = -math.log10(min(nz)) - math.log10(tol)
    return d, math.log10(max(nz))


def beyond_float_range(xs, tol, dtype):
    """The decimal places the tolerance asks for cannot be formed in the array's own float type
    (10**d or x*10**d is not finite there).  Such arrays are enumerated in the 'range' list only."""
    sp = float_span(xs, tol, dtype)
    if sp is None or len(xs) < 2:
        return False
    d, top = sp
    return d + max(0.0, top) + 2 > FMAX_LOG10[dtype]


def compress_float_verdict(xs, tol, dtype):
    """accept: finite, and the decimal places needed for the smallest magnitude leave the largest one
    far inside int32; refuse_or_exact: non-finite member or dynamic range beyond int32; either: between."""
    v = M.Verdict()
    if not xs:
        v.either("compress", "empty")
        return v
    if any(x != x for x in xs):
        v.problem("compress", "nan")
        return v
    if any(abs(x) == math.inf for x in xs):
        v.problem("compress", "infinite")
        return v
    nz = [abs(x) for x in xs if x != 0]
    if not nz or len(xs) == 1:
        return v
    need = math.log10(max(nz)) - math.log10(min(nz)) - math.log10(tol)
    lim = math.log10(2**31)
    if need + 2 < lim:
        return v
    if need - 2 > lim:
        v.problem("compress", "dynamic_range_exceeds_int32")
    else:
        v.either("compress", "dynamic_range_exceeds_int32")
    return v


def compress_case(ctx, kind, dtype, vals, tol, listed=False):
    case = {"k": "compress", "kind": kind, "dtype": dtype,
            "vals": enc_floats(vals) if kind == "float" else vals, "tol": tol}
    if kind == "float":
        if not listed and beyond_float_range(vals, tol, dtype):
            ctx.count("skipped_beyond_float_range_unlisted")
            return
        arr = np.array(vals, dtype=dtype)
        v = compress_float_verdict(vals, tol, dtype)
        sp = float_span(vals, tol, dtype)
        icls = dtype + (",needs_20_or_more_decimal_places" if sp and len(vals) > 1 and sp[0] >= 19.5 else "")
    elif kind == "int":
        arr = np.array(vals, dtype=dtype)
        v = M.Verdict()
        icls = dtype
        if not vals:
            v.either("compress", "empty")
        elif not (M.fits(vals, I32) or M.fits(vals, U32)):
            v.problem("compress", "integer_exceeds_32_bit")
        elif not M.fits(vals, M.DTYPE_TC[dtype]):
            # representable, but not in the type the format offers for this dtype by default
            # (a single value is documented to keep the default encoding)
            v.either("compress", "needs_other_32_bit_type_than_dtype_default")
    else:
        arr = np.array(vals, dtype="U%d" % max([len(s) for s in vals] + [1]))
        v = M.Verdict()
        icls = "str"
        if not vals:
            v.either("compress", "empty")
    if not ctx.journal(case):
        return
    snap = arr.tobytes()
    r = with_cpu_limit(CPU_LIMIT, compress_roundtrip, arr, tol)
    if arr.tobytes() != snap:
        ctx.violation("compress|input_array_modified|%s" % icls, "compress() / serialising changed the caller's array",
                      case)
    if r[0] != "ok":
        ctx.violation("compress|did_not_terminate|%s" % ("decimal_places_beyond_float_range" if kind == "float" and
                                                        beyond_float_range(vals, tol, dtype) else icls),
                      "compress() used more than %.1f s CPU without returning (typical: 1 ms)" % CPU_LIMIT, case,
                      expected="result within tolerance or exception", observed="cpu limit")
        ctx.ev(1, 1)
        ctx.count({"accept": "accepted", "refuse_or_exact": "refusable", "either": "unspecified"}[v.cls])
        ctx.outcome("cpu_limit")
        return
    res = r[1]
    compared = refused = False
    if res[0] == "ok":
        ctx.count("compress_chose:" + "+".join(res[2]))
    if res[0] == "exc":
        if v.cls == "accept":
            ctx.violation("compress|%s_raised_%s|%s" % (res[1], res[2], icls),
                          "compress() / write / read of a representable array raised", case,
                          expected="array back", observed=list(res))
        else:
            refused = True
    else:
        a = res[1]
        mode = {"accept": "wrong_value", "refuse_or_exact": "silently_altered", "either": "wrong_value"}[v.cls]
        cls = icls if v.cls == "accept" else "%s,%s" % (v.reason, dtype)
        if kind == "int":
            got = as_int_list(a)
            if got == vals:
                compared = True
            else:
                ctx.violation("compress|%s|%s" % (mode, cls), "compressed integer column reads back different",
                              case, expected=vals,
                              observed={"array": got if got is not None else repr(a)[:200], "encoding": res[2]})
        elif kind == "str":
            got = a.tolist() if isinstance(a, np.ndarray) and a.dtype.kind == "U" else None
            if got == vals:
                compared = True
            else:
                ctx.violation("compress|%s|%s" % (mode, cls), "compressed string column reads back different",
                              case, expected=vals,
                              observed={"array": got if got is not None else repr(a)[:200], "encoding": res[2]})
        else:
            got = as_float_list(a)
            tc = M.DTYPE_TC[dtype]
            if got is None or len(got) != len(vals):
                ctx.violation("compress|wrong_shape_or_dtype|%s" % dtype, "compressed float column changed shape/kind",
                              case, expected=enc_floats(vals), observed=repr(a)[:200])
            else:
                bad = None
                for i, (x, d) in enumerate(zip(vals, got)):
                    if x != x or abs(x) == math.inf:
                        if not same_nonfinite(x, d):
                            bad = (i, "nan" if x != x else "infinite")
                            break
                    elif x == 0:
                        if d != 0:
                            bad = (i, "zero")
                            break
                    elif d != d or abs(d - x) > tol * abs(x) * (1 + 1e-6) + 4 * M.ulp(x, tc):
                        bad = (i, "finite")
                        break
                if bad is None:
                    compared = True
                else:
                    i, c = bad
                    if v.cls == "accept":
                        sig = "compress|outside_tolerance|%s,%s_element" % (icls, c)
                    else:
                        # one class per reason the model gives for the array (nan / infinite member,
                        # dynamic range), whichever element shows the damage first
                        sig = "compress|silently_altered|%s,%s" % (v.reason, dtype)
                    ctx.violation(sig, "compressed float column reads back outside the tolerance / altered", case,
                                  expected={"x": enc_floats(vals), "tol": tol, "index": i},
                                  observed={"array": enc_floats(got), "encoding": res[2]})
    ctx.count({"accept": "accepted", "refuse_or_exact": "refusable", "either": "unspecified"}[v.cls])
    if refused:
        ctx.count("refused_observed")
    nt = bool(vals) and (compared or (refused and v.cls == "refuse_or_exact"))
    ctx.ev(1, 1 if nt else 0)
    ctx.outcome(res[1:] if res[0] == "exc" else (res[1].tobytes(), res[2], res[3]))
    if nt and kind == "float" and len(ctx.samples) < 1 and len(vals) >= 3 and res[0] == "ok" and "FixedPoint" in res[2]:
        ctx.sample({**case, "chosen_encoding": res[2]})


def long_arrays(seed):
    """Column-like arrays (length 8/32/100) on which compress() actually prefers Delta / RunLength /
    IntegerPacking chains: constants, ramps, alternations, runs, saw-teeth at the dtype boundaries.
    Yields (kind, dtype, values)."""
    for L in (8, 32, 100):
        for dtype in INT_DTYPES:
            lo, hi = M.DTYPE_RANGE[dtype]
            lo32, hi32 = max(lo, -(2**31)), min(hi, 2**32 - 1 if lo == 0 else 2**31 - 1)
            mid = SEED_MID[seed % 5] if hi > 255 else 100
            for c in sorted({lo32, 0, mid, hi32}):
                yield "int", dtype, [c] * L
            for start, step in ((lo32, 1), (hi32 - L + 1, 1), (hi32, -1), (0, 1), (0, 2), (mid, 0)):
                vals = [start + i * step for i in range(L)]
                if step and lo <= min(vals) and max(vals) <= hi:
                    yield "int", dtype, vals
            yield "int", dtype, [lo32 if i % 2 else hi32 for i in range(L)]
            yield "int", dtype, [0 if i % 2 else 1 for i in range(L)]
            yield "int", dtype, [mid] * (L // 2) + [0] * (L - L // 2)
            yield "int", dtype, [hi32] * (L // 4) + [lo32] * (L // 4) + list(range(L - 2 * (L // 4)))
            yield "int", dtype, [(i * 37) % (mid + 1) for i in range(L)]
            if hi >= 2**32:
                yield "int", dtype, [hi] + [0] * (L - 1)
        base = SEED_FLOAT[seed % 5]
        for dtype in ("float32", "float64"):
            yield "float", dtype, [i * 0.001 for i in range(L)]
            yield "float", dtype, [base] * L
            yield "float", dtype, [base + i * 0.5 for i in range(L)]
            yield "float", dtype, [-base if i % 2 else base for i in range(L)]
            yield "float", dtype, [float(i) for i in range(L)]
            yield "float", dtype, [base + i * 0.5 for i in range(L - 1)] + [math.nan]
            yield "float", dtype, [0.0] * (L - 1) + [math.inf]
            yield "float", dtype, [1e-3 * i for i in range(L - 1)] + [3e9]
        ch = SEED_CHAR[seed % 5]
        yield "str", "str", ["s%02d" % i for i in range(L)]
        yield "str", "str", ["x" * i for i in range(L)]
        yield "str", "str", ["a"] * L
        yield "str", "str", ["a" if i % 2 else ch for i in range(L)]
        yield "str", "str", ["ab"] * (L // 2) + [""] * (L - L // 2)
        yield "str", "str", [ch * (i % 5) + "k%d" % (i // 3) for i in range(L)]
        yield "str", "str", ["x" * SEED_LONG[seed % 5]] + ["y%d" % i for i in range(L - 1)]


TINY_PARTNERS = [None, 0.0, 1.0, math.nan]


def range_arrays(dtype):
    """The listed arrays whose required decimal places leave the float type's own range."""
    t = 5e-324 if dtype == "float64" else 1e-45
    out = []
    for p in TINY_PARTNERS:
        if p is None:
            out.append([t, t])
        else:
            out.append([t, p])
            out.append([p, t])
    if dtype == "float32":
        out += [[1e-30, 1234.5678], [1e30, 1e-3], [1e30, 1.0, 1e-30]]
    else:
        out += [[1e-300, 1e10], [1e300, 1e-3, 1e-10]]
    return out


def run_compress_shard(shard, ctx):
    kind, dtype, part, parts = shard["kind"], shard["dtype"], shard["part"], shard["parts"]
    tier, seed = ctx.tier, ctx.seed
    idx = 0
    if kind == "int":
        lengths = (0, 1, 2, 3) if tier == "quick" else (0, 1, 2, 3, 4)
        if tier == "thorough" and dtype == "int64":
            lengths = (0, 1, 2, 3)
        for vals in int_arrays_full(dtype, lengths):
            idx += 1
            if idx % parts != part:
                continue
            compress_case(ctx, "int", dtype, vals, 1e-6)
        if tier == "thorough" and dtype == "int64":
            for vals in products(core_palette(dtype, seed), (4,)):
                idx += 1
                if idx % parts != part:
                    continue
                compress_case(ctx, "int", dtype, vals, 1e-6)
    elif kind == "float":
        pal = general_floats(dtype, seed)
        lengths = (0, 1, 2, 3) if tier == "quick" else (0, 1, 2, 3, 4)
        for xs in uniq_arrays(products(pal, lengths), dtype):
            idx += 1
            if idx % parts != part:
                continue
            for tol in TOLS[dtype]:
                compress_case(ctx, "float", dtype, xs, tol)
    elif kind == "range":
        arrs = list(uniq_arrays(range_arrays(dtype), dtype))
        tols = [1e-6] if tier == "quick" else TOLS[dtype]
        for xs in arrs:
            for tol in tols:
                idx += 1
                if idx % parts != part:
                    continue
                compress_case(ctx, "float", dtype, xs, tol, listed=True)
    elif kind == "long":
        for k, dt, vals in long_arrays(seed):
            idx += 1
            if idx % parts != part:
                continue
            if k == "float":
                vals = canon_floats(vals, dt)
                for tol in TOLS[dt]:
                    compress_case(ctx, k, dt, vals, tol)
            else:
                compress_case(ctx, k, dt, vals, 1e-6)
    elif kind == "str":
        pal = string_palette(seed)
        for strs in products(pal, range(0, (4 if tier == "quick" else 5) + 1)):
            idx += 1
            if idx % parts != part:
                continue
            compress_case(ctx, "str", "str", strs, 1e-6)


# ---------------------------------------------------------------------------
# columns with masks, categories, blocks, files
# ---------------------------------------------------------------------------
COL_DATA = {
    # name: (kind, values, chain or None)
    "int_default": ("int", [3, -1, 70000, 3], None),
    "int_chain": ("int", [3, -1, 70000, 3], [D(), R(), P(2), B()]),
    "uint8": ("int", [0, 255, 7, 7], [R(), B()]),
    "float_bytes": ("float", [1.5, -0.0, 1234.5678, 100.25], None),
    "float_nan": ("float", [1.5, math.nan, math.inf, 0.0], None),
    "float_fixed": ("float", [1.5, 0.25, 1234.5, -3.0], [F(100), D(), P(2), B()]),
    "str_default": ("str", ["a", "", "é b", "a"], None),
    "str_chain": ("str", ["a", "", "é b", "a"],
                  [["S", {"strings": None, "data": [R(), P(1), B()], "offset": [D(), B()]}]]),
}
MASK_ENCS = {"default": None, "u8": [B(U8)], "rle": [R(), B()], "pack": [P(1), B()]}
LEVELS = ["column", "category", "block", "file"]


def np_col(kind, vals):
    if kind == "int":
        return np.array(vals, dtype=np.int32)
    if kind == "float":
        return np.array(vals, dtype=np.float64)
    return np.array(vals, dtype="U%d" % max([len(s) for s in vals] + [1]))


def make_column(dname, n, mask, mname):
    pdbx = _enc()["pdbx"]
    kind, vals, chain = COL_DATA[dname]
    arr = np_col(kind, vals[:n])
    data = pdbx.BinaryCIFData(arr, None if chain is None else [build(s) for s in chain])
    m = None
    if mask is not None:
        menc = MASK_ENCS[mname]
        m = pdbx.BinaryCIFData(np.array(mask, dtype=np.int64) if mname == "default" else
                               np.array(mask, dtype=np.uint8), None if menc is None else [build(s) for s in menc])
    return pdbx.BinaryCIFColumn(data, m), kind, vals[:n]


def wrap(col, extra_col, level):
    """Put the column under test into a category (with a second, plain column), block and file."""
    pdbx = _enc()["pdbx"]
    cat = pdbx.BinaryCIFCategory({"col": col, "other": extra_col})
    block = pdbx.BinaryCIFBlock({"cat": cat, "second": pdbx.BinaryCIFCategory({"id": [1, 2]})})
    return pdbx.BinaryCIFFile({"blk": block, "blk2": pdbx.BinaryCIFBlock({"cat": pdbx.BinaryCIFCategory({"x": "v"})})})


def file_roundtrip(f):
    pdbx = _enc()["pdbx"]
    bio = io.BytesIO()
    f.write(bio)
    raw = bio.getvalue()
    return pdbx.BinaryCIFFile.read(io.BytesIO(raw)), raw


def arrays_match(kind, want, got_arr, tol=None):
    if kind == "int":
        return as_int_list(got_arr) == want
    if kind == "str":
        return isinstance(got_arr, np.ndarray) and got_arr.dtype.kind == "U" and got_arr.tolist() == want
    got = as_float_list(got_arr)
    if got is None or len(got) != len(want):
        return False
    for x, d in zip(want, got):
        if x != x or abs(x) == math.inf:
            if not same_nonfinite(x, d):
                return False
        elif tol is None:
            if d != x:
                return False
        elif abs(d - x) > tol(x):
            return False
    return True


def file_case(ctx, dname, n, mask, mname, level, do_compress):
    pdbx = _enc()["pdbx"]
    case = {"k": "file", "data": dname, "n": n, "mask": mask, "menc": mname, "level": level,
            "compress": do_compress}
    if not ctx.journal(case):
        return
    kind, vals_all, chain = COL_DATA[dname]
    vals = vals_all[:n]
    has_nan = kind == "float" and any(x != x for x in vals)
    either = n == 0 and (do_compress or (chain is not None) or (mask is not None and mname in ("rle", "pack")))
    cls = "unspecified" if either else "accepted"
    cpl = "compress" if do_compress else "plain"
    phase = "build"
    try:
        col, _, _ = make_column(dname, n, mask, mname)
        other = pdbx.BinaryCIFColumn(np.arange(n, dtype=np.int32))
        f = wrap(col, other, level)
        if do_compress:
            phase = "compress"
            tolv = 1e-6
            if level == "column":
                f["blk"]["cat"]["col"] = pdbx.compress(f["blk"]["cat"]["col"], tolv)
            elif level == "category":
                f["blk"]["cat"] = pdbx.compress(f["blk"]["cat"], tolv)
            elif level == "block":
                f["blk"] = pdbx.compress(f["blk"], tolv)
            else:
                f = pdbx.compress(f, tolv)
        phase = "write_read"
        g, raw = file_roundtrip(f)
        phase = "access"
        gcol = g["blk"]["cat"]["col"]
        garr = gcol.data.array
        gmask = None if gcol.mask is None else gcol.mask.array
        gother = g["blk"]["cat"]["other"].as_array()
        rc = g["blk"]["cat"].row_count
        phase = "eq"
        eq = bool(g == f)
        eq_col = bool(gcol == f["blk"]["cat"]["col"])
    except Exception as e:  # noqa: BLE001
        if either:
            ctx.count("unspecified")
            ctx.count("refused_observed")
            ctx.ev(1, 0)
            ctx.outcome((phase, type(e).__name__))
            return
        ctx.violation("file|%s_raised_%s|%s,%s,%s" % (phase, type(e).__name__, kind, cpl,
                                                     "empty" if n == 0 else ("masked" if mask is not None else
                                                                             "unmasked")),
                      "writing/reading a file raised %s during %s" % (type(e).__name__, phase), case,
                      observed=str(e)[:200])
        ctx.count(cls)
        ctx.ev(1, 0)
        return
    tolf = None
    lossy = kind == "float" and (do_compress or chain is not None)
    if lossy:
        if do_compress:
            def tolf(x):
                return 1e-6 * abs(x) * (1 + 1e-6) + 4 * math.ulp(x)
        else:
            def tolf(x):
                return 0.005 * (1 + 1e-9) + 4 * math.ulp(x)
    ok_data = arrays_match(kind, vals, garr, tolf)
    ok_mask = (mask is None and gmask is None) or (mask is not None and as_int_list(gmask) == mask)
    ok_other = as_int_list(gother) == list(range(n)) and rc == n
    where = "%s,%s,%s" % (kind, cpl, level)
    if not ok_data:
        ctx.violation("file|data_differs|%s,%s" % (dname, cpl), "column data read back different", case,
                      expected=enc_floats(vals) if kind == "float" else vals, observed=repr(garr)[:200])
    if not ok_mask:
        ctx.violation("file|mask_differs|%s,%s" % (where, mname), "column mask read back different", case,
                      expected=mask, observed=repr(gmask)[:200])
    if not ok_other:
        ctx.violation("file|neighbour_column_or_row_count_differs|%s" % where,
                      "second column / row count read back different", case, expected=[list(range(n)), n],
                      observed=[repr(gother)[:100], rc])
    # == between what was read and what was written: exact kinds only (lossy float encodings change the
    # array within tolerance; NaN never compares equal under array_equal)
    if not lossy and not has_nan and not (eq and eq_col):
        ctx.violation("file|read_not_equal_written|%s" % where, "BinaryCIFFile.read(write(f)) != f", case,
                      expected=True, observed=[eq, eq_col])
    ctx.count(cls)
    ctx.ev(1, 1 if n else 0)
    ctx.outcome(raw)
    if n >= 3 and mask and len(set(mask)) == 3 and len(ctx.samples) < 1 and do_compress:
        ctx.sample(case)


def run_file_shard(shard, ctx):
    dname, level = shard["data"], shard["level"]
    maxn = 3 if ctx.tier == "quick" else 4
    for n in range(0, maxn + 1):
        masks = [None] + [list(t) for t in itertools.product((0, 1, 2), repeat=n)]
        for mask in masks:
            for mname in (MASK_ENCS if mask is not None else ["default"]):
                for do_compress in (False, True):
                    file_case(ctx, dname, n, mask, mname, level, do_compress)


def shapes_case(ctx, shape):
    """File shapes: `shape` is a list of blocks, each a list of categories, each a list of column kinds."""
    pdbx = _enc()["pdbx"]
    case = {"k": "shape", "shape": shape}
    if not ctx.journal(case):
        return
    names = ["b1", "B 2", "é"]
    cnames = ["c1", "c 2"]
    want = {}
    f = pdbx.BinaryCIFFile()
    empty_cat = False
    for bi, cats in enumerate(shape):
        blk = pdbx.BinaryCIFBlock()
        for ci, cols in enumerate(cats):
            cat = pdbx.BinaryCIFCategory()
            if not cols:
                empty_cat = True
            for k, cname in enumerate(cols):
                kind, vals, chain = COL_DATA[cname]
                cat["k%d" % k] = pdbx.BinaryCIFColumn(
                    pdbx.BinaryCIFData(np_col(kind, vals[:2]), None if chain is None else [build(s) for s in chain]))
                want[(names[bi], cnames[ci], "k%d" % k)] = (kind, vals[:2], cname)
            blk[cnames[ci]] = cat
        f[names[bi]] = blk
    try:
        g, raw = file_roundtrip(f)
    except Exception as e:  # noqa: BLE001
        if empty_cat:  # documented: "At least one column is required"
            ctx.count("refusable")
            ctx.count("refused_observed")
            ctx.ev(1, 1)
            ctx.outcome(("exc", type(e).__name__))
            return
        ctx.violation("file_shape|write_read_raised_%s|%s" % (type(e).__name__, "no_blocks" if not shape else "blocks"),
                      "writing/reading a file raised", case, observed=str(e)[:200])
        ctx.ev(1, 0)
        return
    if empty_cat:
        ctx.count("refusable")
        # a category without columns has no representation; writing it silently is not an alteration of data
        ctx.ev(1, 0)
        ctx.outcome(raw)
        return
    ok = list(g.keys()) == names[:len(shape)]
    for bi, cats in enumerate(shape):
        if not ok:
            break
        ok = ok and list(g[names[bi]].keys()) == cnames[:len(cats)]
    bad = None
    if ok:
        for (b, c, k), (kind, vals, cname) in want.items():
            try:
                arr = g[b][c][k].data.array
            except Exception as e:  # noqa: BLE001
                bad = (b, c, k, type(e).__name__)
                break
            tolf = (lambda x: 0.005 * (1 + 1e-9) + 4 * math.ulp(x)) if cname == "float_fixed" else None
            if not arrays_match(kind, vals, arr, tolf):
                bad = (b, c, k, repr(arr)[:80])
                break
    lossy = any(w[2] in ("float_fixed", "float_nan") for w in want.values())
    if not ok or bad:
        ctx.violation("file_shape|content_differs|%s" % ("names" if not ok else "column"),
                      "file structure read back different", case, observed=bad or [list(g.keys())])
    elif not lossy and not (g == f):
        ctx.violation("file_shape|read_not_equal_written|exact_kinds", "BinaryCIFFile.read(write(f)) != f", case)
    ctx.count("accepted")
    ctx.ev(1, 1 if want else 0)
    ctx.outcome(raw)


def run_shape_shard(shard, ctx):
    kinds = list(COL_DATA)
    col_sets = [[]] + [[k] for k in kinds] + [[a, b] for a, b in itertools.permutations(kinds[:5], 2)]
    cat_sets = [[]] + [[c] for c in col_sets] + [[a, b] for a in col_sets[1:9] for b in col_sets[1:9]]
    part, parts = shard["part"], shard["parts"]
    idx = 0
    shapes = [[]] + [[c] for c in cat_sets]
    small = cat_sets[:12]
    shapes += [[a, b] for a in small for b in small]
    if ctx.tier == "thorough":
        shapes += [[a, b, c] for a in small[:6] for b in small[:6] for c in small[:6]]
    for sh in shapes:
        idx += 1
        if idx % parts != part:
            continue
        shapes_case(ctx, sh)


# ---------------------------------------------------------------------------
# object reuse: one encoding / data / container object used for a second array
# ---------------------------------------------------------------------------
# Every auto-determined parameter (ByteArray.type, Delta.src_type/origin, RunLength.src_type/src_size,
# IntegerPacking.src_size/is_unsigned, FixedPoint/IntervalQuantization.src_type, StringArray.strings) is
# documented as "determined from the data the first time encode() is called".  An object that has seen
# array A is therefore bound to A's parameters; when it is then given B it must refuse or reproduce B
# exactly -- and when a fresh object would have determined the very same parameters from B (compared
# with ==), refusal is not acceptable either.
REUSE_INT = {
    "i8": ("int8", [-128, 5, 5]),
    "u8": ("uint8", [0, 255, 7]),
    "i16run": ("int16", [300, 300, 300]),
    "i32": ("int32", [70000, -1, -1]),
    "i32pos": ("int32", [5, 6, 7]),
    "u32": ("uint32", [4294967295, 0, 1]),
    "i64": ("int64", [100000, 3, 3]),
    "u16len2": ("uint16", [1, 2]),
    "u8len1": ("uint8", [200]),
    "i32empty": ("int32", []),
    "f64ints": ("float64", [1.0, 2.0, 3.0]),
}
REUSE_FLOAT = {
    "f32": ("float32", [1.5, -2.25, 0.0]),
    "f64": ("float64", [1234.5678, 0.001, -3.0]),
    "f64b": ("float64", [0.5, 0.25, 4.75]),
    "f64len2": ("float64", [1e6, 2e6]),
    "f64nan": ("float64", [math.nan, 1.0, 2.0]),
    "f32len1": ("float32", [100.125]),
    "f64empty": ("float64", []),
    "i32": ("int32", [1, 2, 3]),
}
REUSE_STR = {
    "aba": ["a", "b", "a"],
    "bc": ["b", "c"],
    "uni": ["", "é", "é"],
    "a": ["a"],
    "empty": [],
    "long": ["x" * 300, "a", "b"],
    "cab": ["c", "a", "b"],
}
_RS = ["D", "R", "P1a", "P2a"]
REUSE_INT_CHAINS = ([[B()]] + [[SYMBOLS[s], B()] for s in _RS]
                    + [[SYMBOLS[a], SYMBOLS[b], B()] for a in _RS for b in _RS])
REUSE_FLOAT_CHAINS = [
    [B()],
    [F(1000), B()],
    [F(10), D(), B()],
    [F(1000), R(), B()],
    [F(100), P(2), B()],
    [Q(-5.0, 5.0, 101), B()],
    [Q(-5.0, 5.0, 101), P(1), B()],
]
REUSE_STR_SPECS = {
    "default": ["S", {"strings": None, "data": None, "offset": None}],
    "rle": ["S", {"strings": None, "data": [R(), B()], "offset": None}],
    "deep": ["S", {"strings": None, "data": [D(), R(), P(1), B()], "offset": [D(), B()]}],
    "auto_types": ["S", {"strings": None, "data": [B()], "offset": [P(1), B()]}],
}


def reuse_array(kind, key):
    if kind == "str":
        vals = REUSE_STR[key]
        return np.array(vals, dtype="U%d" % max([len(s) for s in vals] + [1])), vals
    dtype, vals = (REUSE_INT if kind == "int" else REUSE_FLOAT)[key]
    return np.array(vals, dtype=dtype), vals


def reuse_match(arr, got, chain):
    """True when `got` reproduces the ndarray `arr`: integers / strings exactly (the dtype may differ), floats
    within the precision of the lossy head of the chain (none: bit-exact, or nearest float32 after narrowing)."""
    if not isinstance(got, np.ndarray) or got.ndim != 1 or len(got) != len(arr):
        return False
    if arr.dtype.kind == "U":
        return got.dtype.kind == "U" and got.tolist() == arr.tolist()
    if got.dtype.kind not in "iuf":
        return False
    head, p = chain[0]
    for x, d in zip(arr.tolist(), got.tolist()):
        if isinstance(x, int) and head not in ("F", "Q"):
            if d != x:
                return False
        elif x != x:
            if d == d:
                return False
        elif head == "F":
            if d != d or abs(d - x) > 0.5 / p["factor"] * (1 + 1e-9) + 4 * M.ulp(max(abs(x), abs(d)), 32):
                return False
        elif head == "Q":
            lo, hi = p["min"], p["max"]
            step = (hi - lo) / (p["num_steps"] - 1)
            if lo <= x <= hi and (d != d or abs(d - x) > step * (1 + 1e-9) + 4 * M.ulp(max(abs(x), abs(lo), abs(hi)), 32)):
                return False
        elif d != x and d != f32(x):
            return False
    return True


def reuse_roundtrip(arr, encs):
    """encode + decode with the given objects -> ('ok', decoded) / ('exc', phase, class)."""
    E = _enc()["E"]
    try:
        data = E.encode_stepwise(arr, encs)
    except Exception as e:  # noqa: BLE001
        return ("exc", "encode", type(e).__name__)
    try:
        return ("ok", E.decode_stepwise(data, encs), data)
    except Exception as e:  # noqa: BLE001
        return ("exc", "decode", type(e).__name__)


def reuse_file_trip(arr, encs):
    env = _enc()
    pdbx, msgpack = env["pdbx"], env["msgpack"]
    try:
        packed = msgpack.packb(pdbx.BinaryCIFData(arr, encs).serialize(), use_bin_type=True,
                               default=env["encode_numpy"])
    except Exception as e:  # noqa: BLE001
        return ("exc", "encode", type(e).__name__)
    try:
        return ("ok", pdbx.BinaryCIFData.deserialize(msgpack.unpackb(packed, use_list=True, raw=False)).array)
    except Exception as e:  # noqa: BLE001
        return ("exc", "decode", type(e).__name__)


def same_encodings(e1, e2):
    try:
        return bool(e1 == e2)
    except Exception:  # noqa: BLE001
        return False


def reuse_encode_case(ctx, kind, ka, kb, chain, cname, source="fresh"):
    """(a) one chain object: encode A, then B.  source 'compress': the chain is the encoding list that
    compress() chose for A."""
    case = {"k": "reuse", "f": "encode", "kind": kind, "a": ka, "b": kb, "chain": cname, "source": source}
    if not ctx.journal(case):
        return
    pdbx = _enc()["pdbx"]
    arr_a, vals_a = reuse_array(kind, ka)
    arr_b, vals_b = reuse_array(kind, kb)
    if source == "compress":
        try:
            r = with_cpu_limit(CPU_LIMIT, pdbx.compress, pdbx.BinaryCIFData(arr_a), 1e-6)
        except Exception:  # noqa: BLE001  (empty arrays: unspecified, see the compress family)
            ctx.count("unspecified")
            ctx.ev(1, 0)
            return
        if r[0] != "ok":
            ctx.violation("reuse:compress|did_not_terminate|%s" % kind, "compress() exceeded the CPU limit", case)
            ctx.ev(1, 1)
            return
        used = r[1].encoding
        spec_chain = [["C", {}]]
        mk = None
    else:
        spec_chain = chain
        used = [build(s) for s in chain]
        mk = lambda: [build(s) for s in chain]  # noqa: E731
    if mk is not None:
        fresh = mk()
        fresh_b = reuse_roundtrip(arr_b, fresh)
        fresh_ok = fresh_b[0] == "ok" and reuse_match(arr_b, fresh_b[1], chain)
        first = reuse_roundtrip(arr_a, used)
        accept = fresh_ok and first[0] == "ok" and same_encodings(used, fresh)
        judge_chain = chain
    else:
        # the list compress() returned has already encoded A; a fresh compress() of B tells which list B gets
        try:
            r2 = with_cpu_limit(CPU_LIMIT, pdbx.compress, pdbx.BinaryCIFData(arr_b), 1e-6)
            fresh = r2[1].encoding if r2[0] == "ok" else None
        except Exception:  # noqa: BLE001
            fresh = None
        accept = fresh is not None and same_encodings(used, fresh)
        judge_chain = ([F(getattr(used[0], "factor", 1))] if type(used[0]).__name__ == "FixedPointEncoding"
                       else [B()])
    fails = []
    compared = refused = False
    if kind == "float" and source == "fresh":
        cname = KIND_NAME[chain[0][0]]  # the integer tail is the business of the integer chains
    for path, res in (("direct", reuse_roundtrip(arr_b, used)), ("file", reuse_file_trip(arr_b, used))):
        if res[0] == "exc":
            if accept:
                fails.append((path, "reuse:encode[%s]" % cname, "%s_raised_%s" % (res[1], res[2]), "same_parameters",
                              "second array determines the same parameters, yet the reused object refused it",
                              vals_b if kind != "float" else enc_floats(vals_b), list(res)))
            else:
                refused = True
            continue
        if reuse_match(arr_b, res[1], judge_chain):
            compared = True
            continue
        fails.append((path, "reuse:encode[%s]" % cname, "second_array_silently_altered",
                      "same_parameters" if accept else "other_parameters",
                      "object bound to the parameters of a first array returned a different second array",
                      "exception or %r" % (vals_b if kind != "float" else enc_floats(vals_b),),
                      repr(res[1])[:200]))
    if mk is not None and first[0] == "ok" and ka != kb:
        # A -> B -> A: whatever happened to B, the object still carries A's parameters and must take A again
        third = reuse_roundtrip(arr_a, used)
        if third[0] != "ok" or not reuse_match(arr_a, third[1], chain):
            fails.append(("direct", "reuse:encode[%s]" % cname, "first_array_again_%s" %
                          ("raised_%s" % third[2] if third[0] != "ok" else "altered"),
                          "after_refused_second" if refused else "after_accepted_second",
                          "object that encoded A, then met B, does not reproduce A any more",
                          vals_a if kind != "float" else enc_floats(vals_a), list(third)[:2] if third[0] != "ok" else repr(third[1])[:150]))
    report(ctx, case, fails)
    ctx.count("accepted" if accept else "refusable")
    if refused:
        ctx.count("refused_observed")
        if mk is not None and first[0] == "exc" and fresh_ok:
            # dimension 9: the refused first call left parameters behind that make the object refuse an array a
            # fresh object takes.  Loud, nothing is altered: the statement is silent -> counted, listed in the notes
            ctx.count("unspecified_refusal_after_refused_first_call")
    nt = bool(vals_b) and (compared or refused)
    ctx.ev(1, 1 if nt else 0)
    ctx.outcome((ka, kb, cname, compared, refused))
    if nt and refused and len(ctx.samples) < 1 and source == "fresh" and len(chain) == 3:
        ctx.sample({**case, "result": "second array refused"})


def reuse_decode_case(ctx, kind, ka, kb, chain, cname):
    """(b) one object decodes the encoded form of A, of B and of A again.  Run when fresh objects determine
    equal parameters from A and B; plus a deserialised copy, plus RunLength without src_size."""
    case = {"k": "reuse", "f": "decode", "kind": kind, "a": ka, "b": kb, "chain": cname}
    if not ctx.journal(case):
        return
    E = _enc()["E"]
    arr_a, vals_a = reuse_array(kind, ka)
    arr_b, vals_b = reuse_array(kind, kb)
    e1, e2 = [build(s) for s in chain], [build(s) for s in chain]
    ra, rb = reuse_roundtrip(arr_a, e1), reuse_roundtrip(arr_b, e2)
    if ra[0] != "ok" or rb[0] != "ok":
        ctx.count("decode_reuse_not_applicable")
        return
    decoders = []
    if same_encodings(e1, e2):
        decoders.append(("same_object", e1))
        try:
            decoders.append(("deserialised", [E.deserialize_encoding(x.serialize()) for x in e1]))
        except Exception as ex:  # noqa: BLE001
            ctx.violation("reuse:decode[%s]|deserialize_raised_%s|%s" % (cname, type(ex).__name__, kind),
                          "encoding could not be re-created from its serialised form", case)
    if chain[0][0] == "R" and len(chain) == 2 and e1[0].src_type == e2[0].src_type and e1[1].type == e2[1].type:
        decoders.append(("run_length_without_src_size", [E.RunLengthEncoding(src_type=e1[0].src_type),
                                                         E.ByteArrayEncoding(e1[1].type)]))
    if not decoders:
        ctx.count("decode_reuse_not_applicable")
        return
    for dname, dec in decoders:
        for step, (data, vals, src) in enumerate(((ra[2], vals_a, arr_a), (rb[2], vals_b, arr_b), (ra[2], vals_a, arr_a))):
            try:
                got = E.decode_stepwise(data, dec)
                ok = reuse_match(src, got, chain)
                obs = repr(got)[:200]
            except Exception as ex:  # noqa: BLE001
                ok, obs = False, "%s: %s" % (type(ex).__name__, str(ex)[:100])
            if not ok:
                ctx.violation("reuse:decode[%s]|%s_decode_%d_wrong|%s" % (cname, dname, step + 1, kind),
                              "an encoding object that decodes several inputs returned a wrong array", case,
                              expected=vals if kind != "float" else enc_floats(vals), observed=obs)
                break
    ctx.count("accepted")
    ctx.ev(1, 1 if (vals_a and vals_b and ka != kb) else 0)
    ctx.outcome(("dec", ka, kb, cname, len(decoders)))


def reuse_inplace_case(ctx, kind, ka, kb, chain, cname):
    """(c1) the array of a BinaryCIFData is overwritten in place between two serialize() calls."""
    case = {"k": "reuse", "f": "inplace", "kind": kind, "a": ka, "b": kb, "chain": cname}
    arr_a, vals_a = reuse_array(kind, ka)
    arr_b, vals_b = reuse_array(kind, kb)
    if arr_a.dtype != arr_b.dtype or len(arr_a) != len(arr_b) or not len(arr_a):
        return
    if not ctx.journal(case):
        return
    env = _enc()
    pdbx, msgpack = env["pdbx"], env["msgpack"]
    fresh = [build(s) for s in chain]
    fresh_ok = reuse_roundtrip(arr_b, fresh)
    fresh_ok = fresh_ok[0] == "ok" and reuse_match(arr_b, fresh_ok[1], chain)
    d = pdbx.BinaryCIFData(arr_a.copy(), [build(s) for s in chain])
    try:
        d.serialize()
        first_ok = True
    except Exception:  # noqa: BLE001
        first_ok = False
    accept = fresh_ok and first_ok and same_encodings(d.encoding, fresh)
    d.array[...] = arr_b
    mode = obs = None
    try:
        packed = msgpack.packb(d.serialize(), use_bin_type=True, default=env["encode_numpy"])
        got = pdbx.BinaryCIFData.deserialize(msgpack.unpackb(packed, use_list=True, raw=False)).array
        if not reuse_match(arr_b, got, chain):
            mode, obs = "stale_or_altered_content", repr(got)[:200]
    except Exception as ex:  # noqa: BLE001
        if accept:
            mode, obs = "raised_%s" % type(ex).__name__, str(ex)[:100]
        else:
            ctx.count("refused_observed")
    if mode:
        ctx.violation("reuse:inplace[%s]|%s|%s" % (cname, mode, "same_parameters" if accept else "other_parameters"),
                      "BinaryCIFData serialised again after its array was overwritten does not hold the new values",
                      case, expected=vals_b if kind != "float" else enc_floats(vals_b), observed=obs)
    ctx.count("accepted" if accept else "refusable")
    ctx.ev(1, 1 if ka != kb else 0)
    ctx.outcome(("inplace", ka, kb, cname, mode))


def file_bytes(f):
    bio = io.BytesIO()
    f.write(bio)
    return bio.getvalue()


def reuse_container_case(ctx, kind, ka, kb, variant):
    """(c2/c3) columns of a category are replaced (or overwritten in place) between two writes of one file
    object; the same after the file has been read from bytes (lazy deserialisation, row count from the file)."""
    case = {"k": "reuse", "f": "container", "kind": kind, "a": ka, "b": kb, "variant": variant}
    if not ctx.journal(case):
        return
    pdbx = _enc()["pdbx"]
    arr_a, vals_a = reuse_array(kind, ka)
    arr_b, vals_b = reuse_array(kind, kb)
    na, nb = len(arr_a), len(arr_b)

    def col(arr, n, masked):
        mask = None
        if masked:
            mask = pdbx.BinaryCIFData(np.array([i % 3 for i in range(n)], dtype=np.uint8),
                                      [build(R()), build(B())] if n else None)
        return pdbx.BinaryCIFColumn(pdbx.BinaryCIFData(arr), mask)

    masked = variant.endswith("masked")
    try:
        cat = pdbx.BinaryCIFCategory({"x": col(arr_a, na, masked), "y": np.arange(na, dtype=np.int32)})
        f = pdbx.BinaryCIFFile({"blk": pdbx.BinaryCIFBlock({"cat": cat})})
        raw1 = file_bytes(f)
        if variant.startswith("reread"):
            f = pdbx.BinaryCIFFile.read(io.BytesIO(raw1))
            if variant.startswith("reread_touched"):
                f["blk"]["cat"]["x"].as_array()  # deserialise before replacing
    except Exception as ex:  # noqa: BLE001
        ctx.violation("reuse:container|first_write_raised_%s|%s" % (type(ex).__name__, kind),
                      "writing a plain file raised", case, observed=str(ex)[:150])
        ctx.ev(1, 0)
        return
    expect_refusal = inplace_may_refuse = False
    phase = "replace"
    try:
        cat = f["blk"]["cat"]
        if variant.startswith("one_column"):
            cat["x"] = col(arr_b, nb, masked)
            expect_refusal = nb != na  # documented: all columns must have the same length
        elif variant.startswith("inplace"):
            if arr_a.dtype != arr_b.dtype or na != nb or not na:
                return
            bound = cat["x"].data.encoding
            probe = pdbx.BinaryCIFData(arr_b)
            probe.serialize()
            inplace_may_refuse = not same_encodings(bound, probe.encoding)
            cat["x"].data.array[...] = arr_b
            if masked:
                cat["x"].mask.array[...] = np.array([(i + 1) % 3 for i in range(nb)], dtype=np.uint8)
        else:
            if "rowcount_read" in variant:
                cat.row_count  # the value is not judged; the cache it may leave behind is part of the state
                len(cat["x"])
            cat["x"] = col(arr_b, nb, masked)
            if "rowcount_read" in variant:
                cat.row_count
            cat["y"] = np.arange(nb, dtype=np.int32)
            if "rowcount_read" in variant:
                cat.row_count
            if "three_steps" in variant:
                # content of another size and back again: A -> B -> A, written after every step
                file_bytes(f)
                cat = f["blk"]["cat"]
                cat["x"] = col(arr_a, na, masked)
                cat["y"] = np.arange(na, dtype=np.int32)
                arr_b, vals_b, nb = arr_a, vals_a, na
        phase = "second_write"
        raw2 = file_bytes(f)
        phase = "read"
        g = pdbx.BinaryCIFFile.read(io.BytesIO(raw2))
        gc_ = g["blk"]["cat"]
        gx, gy, rc = gc_["x"].data.array, gc_["y"].as_array(), gc_.row_count
        gm = None if gc_["x"].mask is None else gc_["x"].mask.array.tolist()
    except Exception as ex:  # noqa: BLE001
        if expect_refusal or inplace_may_refuse:
            ctx.count("refusable")
            ctx.count("refused_observed")
            ctx.ev(1, 1)
        elif nb == 0 and masked:
            ctx.count("unspecified")  # RunLength of an empty mask
            ctx.ev(1, 0)
        else:
            ctx.violation("reuse:container[%s]|%s_raised_%s|%s" % (variant, phase, type(ex).__name__, kind),
                          "a file object whose columns were replaced could not be written/read again", case,
                          observed=str(ex)[:150])
            ctx.ev(1, 1)
        return
    if expect_refusal:
        ctx.violation("reuse:container[%s]|columns_of_unequal_length_written|%s" % (variant, kind),
                      "category with columns of different lengths was written without an error", case,
                      observed=[len(gx), len(gy), rc])
        ctx.ev(1, 1)
        return
    want_mask = None
    if masked:
        want_mask = [(i + 1) % 3 if variant.startswith("inplace") else i % 3 for i in range(nb)]
    n_want = nb if not variant.startswith("one_column") else nb
    ok = (reuse_match(arr_b, gx, [B()]) and gy.tolist() == list(range(n_want)) and rc == n_want
          and (gm == want_mask))
    if not ok:
        ctx.violation("reuse:container[%s]|stale_content_after_replacement|%s" % (variant, kind),
                      "second write of a modified file object does not hold the new columns / row count", case,
                      expected=[vals_b if kind != "float" else enc_floats(vals_b), n_want, want_mask],
                      observed=[repr(gx)[:120], gy.tolist(), rc, gm])
    ctx.count("accepted")
    ctx.ev(1, 1 if ka != kb else 0)
    ctx.outcome(("cont", ka, kb, variant, raw2))


def reuse_compress_twice_case(ctx, kind, key, tol, level):
    """(c4) compress(compress(x)), compress(read(write(compress(x)))): both read back as x (floats: within the
    tolerance per lossy pass), and the first result is still writable and correct afterwards."""
    case = {"k": "reuse", "f": "compress_twice", "kind": kind, "a": key, "tol": tol, "level": level}
    if not ctx.journal(case):
        return
    env = _enc()
    pdbx = env["pdbx"]
    arr, vals = reuse_array(kind, key)

    def wrap(d):
        if level == "data":
            return d
        f = pdbx.BinaryCIFFile({"blk": pdbx.BinaryCIFBlock({"cat": pdbx.BinaryCIFCategory(
            {"x": pdbx.BinaryCIFColumn(d, pdbx.BinaryCIFData(np.zeros(len(arr), dtype=np.uint8))),
             "y": np.arange(len(arr), dtype=np.int32)})})})
        return f

    def readback(obj):
        if level == "data":
            packed = env["msgpack"].packb(obj.serialize(), use_bin_type=True, default=env["encode_numpy"])
            d = pdbx.BinaryCIFData.deserialize(env["msgpack"].unpackb(packed, use_list=True, raw=False))
            return d, d.array
        g = pdbx.BinaryCIFFile.read(io.BytesIO(file_bytes(obj)))
        return g, g["blk"]["cat"]["x"].data.array

    def good(got, passes):
        if arr.dtype.kind != "f":
            return reuse_match(arr, got, [B()])
        g = as_float_list(got)
        if g is None or len(g) != len(vals):
            return False
        for x, d in zip(vals, g):
            if x != x:
                if d == d:
                    return False
            elif x == 0:
                if d != 0:
                    return False
            elif abs(d - x) > passes * tol * abs(x) * (1 + 1e-6) + 4 * M.ulp(x, M.DTYPE_TC[str(arr.dtype)]):
                return False
        return True

    def run():
        out = []
        c1 = pdbx.compress(wrap(pdbx.BinaryCIFData(arr)), tol)
        o1, a1 = readback(c1)
        out.append(("once", good(a1, 1), a1))
        c2 = pdbx.compress(c1, tol)
        out.append(("twice", good(readback(c2)[1], 1), None))
        c3 = pdbx.compress(o1, tol)
        out.append(("after_reading", good(readback(c3)[1], 2), None))
        out.append(("first_result_afterwards", good(readback(c1)[1], 1), None))
        return out

    try:
        r = with_cpu_limit(4 * CPU_LIMIT, run)
    except Exception as ex:  # noqa: BLE001
        if not vals:
            ctx.count("unspecified")
            ctx.ev(1, 0)
            return
        ctx.violation("reuse:compress_twice|raised_%s|%s,%s" % (type(ex).__name__, kind, level),
                      "repeated compress() of a representable array raised", case, observed=str(ex)[:150])
        ctx.ev(1, 1)
        return
    if r[0] != "ok":
        ctx.violation("reuse:compress_twice|did_not_terminate|%s,%s" % (kind, level), "CPU limit exceeded", case)
        ctx.ev(1, 1)
        return
    for name, ok, _ in r[1]:
        if not ok:
            ctx.violation("reuse:compress_twice|%s_differs|%s,%s" % (name, kind, level),
                          "repeated compression does not read back as the original array", case,
                          expected=vals if kind != "float" else enc_floats(vals))
            break
    ctx.count("accepted")
    ctx.ev(1, 1 if vals else 0)
    ctx.outcome(("c2", kind, key, tol, level))


CONTAINER_VARIANTS = ["all_columns", "all_columns_masked", "one_column", "inplace", "inplace_masked",
                      "reread_all_columns", "reread_touched_all_columns_masked", "reread_one_column",
                      "all_columns_three_steps", "all_columns_rowcount_read", "reread_all_columns_rowcount_read",
                      "reread_all_columns_three_steps"]


def reuse_sets(kind):
    if kind == "int":
        return REUSE_INT, REUSE_INT_CHAINS
    if kind == "float":
        return REUSE_FLOAT, REUSE_FLOAT_CHAINS
    return REUSE_STR, [[REUSE_STR_SPECS[n]] for n in REUSE_STR_SPECS]


def reuse_chain_name(kind, chain):
    if kind == "str":
        return [n for n, s in REUSE_STR_SPECS.items() if s is chain[0]][0]
    return "+".join(("%s%s" % (k, p.get("byte_count") or p.get("factor") or "")) for k, p in chain)


def run_reuse_shard(shard, ctx):
    kind, part, parts = shard["kind"], shard["part"], shard["parts"]
    arrays, chains = reuse_sets(kind)
    idx = 0
    for chain in chains:
        cname = reuse_chain_name(kind, chain)
        for ka in arrays:
            if kind == "int" and REUSE_INT[ka][0].startswith("float"):
                continue  # Delta/RunLength/IntegerPacking document integer input: floats only as second array
            for kb in arrays:
                idx += 1
                if idx % parts != part:
                    continue
                reuse_encode_case(ctx, kind, ka, kb, chain, cname)
                reuse_decode_case(ctx, kind, ka, kb, chain, cname)
                reuse_inplace_case(ctx, kind, ka, kb, chain, cname)
    for ka in arrays:
        for kb in arrays:
            idx += 1
            if idx % parts != part:
                continue
            reuse_encode_case(ctx, kind, ka, kb, None, "compress", source="compress")
            for variant in CONTAINER_VARIANTS:
                reuse_container_case(ctx, kind, ka, kb, variant)
        for level in ("data", "file"):
            for tol in ([1e-6] if kind != "float" else [1e-3, 1e-6]):
                idx += 1
                if idx % parts != part:
                    continue
                reuse_compress_twice_case(ctx, kind, ka, tol, level)


def reuse_replay(case, ctx):
    kind = case["kind"]
    arrays, chains = reuse_sets(kind)
    f = case["f"]
    if f == "container":
        return reuse_container_case(ctx, kind, case["a"], case["b"], case["variant"])
    if f == "compress_twice":
        return reuse_compress_twice_case(ctx, kind, case["a"], case["tol"], case["level"])
    if case.get("source") == "compress":
        return reuse_encode_case(ctx, kind, case["a"], case["b"], None, "compress", source="compress")
    chain = [c for c in chains if reuse_chain_name(kind, c) == case["chain"]][0]
    fn = {"encode": reuse_encode_case, "decode": reuse_decode_case, "inplace": reuse_inplace_case}[f]
    fn(ctx, kind, case["a"], case["b"], chain, case["chain"])


# ---------------------------------------------------------------------------
# audit families: aliasing, array flavours, size switches / many items, laziness / order
# (differential oracles: equal to what a private / plain / fresh copy gives)
# ---------------------------------------------------------------------------
def enc_state(encs):
    """Comparable snapshot of the parameters of a list of encodings."""
    env = _enc()
    out = []
    for e in encs:
        try:
            out.append(env["msgpack"].packb(e.serialize(), use_bin_type=True, default=env["encode_numpy"]))
        except Exception as ex:  # noqa: BLE001
            out.append(type(ex).__name__)
    return out


def scramble(a):
    """Overwrite a writeable array with other values of its own dtype."""
    if a.dtype.kind == "U":
        a[...] = "#"
    elif a.dtype.kind == "f":
        a[...] = -77.5
    else:
        a[...] = 1 if a.dtype.kind == "u" else -1


def same_array(a, b):
    return (isinstance(a, np.ndarray) and isinstance(b, np.ndarray) and a.shape == b.shape
            and a.dtype.kind == b.dtype.kind and a.tobytes() == b.astype(a.dtype).tobytes())


ALIAS_CHAINS = {
    "int": [[B()], [D(), B()], [R(), B()], [P(1), B()], [P(2, False), B()], [D(), R(), P(2), B()]],
    "float": [[B()], [F(1000), B()], [Q(-5.0, 5.0, 101), B()], [F(100), D(), P(2), B()]],
    "str": [[REUSE_STR_SPECS["default"]], [REUSE_STR_SPECS["deep"]],
            [["S", {"strings": ["c", "b", "a", "", "é", "x" * 300], "data": None, "offset": None}]]],
}


def alias_case(ctx, kind, key, ci):
    """Dimension 3 for the encodings: a call must not modify its argument; mutating what a call returned
    must not change a later result of the same object nor the caller's array."""
    chain = ALIAS_CHAINS[kind][ci]
    case = {"k": "alias", "f": "codec", "kind": kind, "a": key, "ci": ci}
    if not ctx.journal(case):
        return
    E = _enc()["E"]
    arr, _ = reuse_array(kind, key)
    ref = arr.copy()
    tag = "alias:%s" % (chain_sig(chain) if kind != "str" else "StringArray%d" % ci)
    encs = [build(s) for s in chain]
    stages = []
    data = arr
    try:
        for e in encs:
            stages.append(data)
            data = e.encode(data)
    except Exception:  # noqa: BLE001
        if not same_array(ref, arr):
            ctx.violation("%s|refused_encode_modified_input|%s" % (tag, kind), "argument changed by a refused call", case)
        ctx.count("refused_observed")
        ctx.ev(1, 0)
        return
    bad = None
    if not same_array(ref, arr):
        bad = "encode_modified_input"
    state = enc_state(encs)
    final = data
    # every intermediate array a stage handed out: overwrite it, then look at the caller's array and encode again
    for inter in stages[1:]:
        if isinstance(inter, np.ndarray) and inter.flags.writeable:
            if np.shares_memory(inter, arr):
                ctx.count("unspecified_output_shares_memory_with_input")
                continue
            scramble(inter)
    if bad is None and not same_array(ref, arr):
        bad = "overwriting_encoded_output_changed_input"
    if bad is None:
        encs_b = encs
        try:
            again = E.encode_stepwise(arr, encs_b)
            if again != final or enc_state(encs) != state:
                bad = "second_encode_differs_after_overwriting_first_output"
        except Exception as ex:  # noqa: BLE001
            bad = "second_encode_raised_%s" % type(ex).__name__
    # decoding
    if bad is None:
        try:
            dec = E.decode_stepwise(final, encs)
            keep = dec.copy()
            if dec.flags.writeable and not np.shares_memory(dec, arr):
                scramble(dec)
            dec2 = E.decode_stepwise(final, encs)
            if not same_array(keep, dec2):
                bad = "second_decode_differs_after_overwriting_first_result"
            elif enc_state(encs) != state:
                bad = "decode_changed_encoding_parameters"
            elif not same_array(ref, arr):
                bad = "decode_modified_encoder_input"
        except Exception:  # noqa: BLE001
            ctx.count("refused_observed")  # whether a round trip may fail is judged by the other families
            if not same_array(ref, arr):
                bad = "refused_decode_modified_encoder_input"
    if bad:
        ctx.violation("%s|%s|%s" % (tag, bad, kind), "aliasing between arguments, results and encoding state", case)
    ctx.count("accepted")
    ctx.ev(1, 1 if len(arr) else 0)
    ctx.outcome(("alias", kind, key, ci, bad))


def alias_container_case(ctx, kind, key, masked, op):
    """Dimension 3 for data / column / compress(): observers and compress() leave the object as it was
    (same bytes when written, == a twin built from private copies)."""
    case = {"k": "alias", "f": "container", "kind": kind, "a": key, "masked": masked, "op": op}
    if not ctx.journal(case):
        return
    env = _enc()
    pdbx = env["pdbx"]
    arr, _ = reuse_array(kind, key)
    n = len(arr)

    def make():
        a = arr.copy()
        m = None
        if masked:
            m = pdbx.BinaryCIFData(np.array([(i + 1) % 3 for i in range(n)], dtype=np.uint8))
        return pdbx.BinaryCIFColumn(pdbx.BinaryCIFData(a), m), a

    col, own = make()
    twin, _ = make()

    def written(c):
        f = pdbx.BinaryCIFFile({"b": pdbx.BinaryCIFBlock({"c": pdbx.BinaryCIFCategory({"x": c})})})
        return file_bytes(f)

    try:
        before = written(col)
        written(twin)  # writing determines the automatic encoding parameters: the twin gets the same treatment
    except Exception:  # noqa: BLE001
        ctx.count("unspecified")
        ctx.ev(1, 0)
        return
    res = None
    try:
        if op == "as_array":
            res = col.as_array()
        elif op == "as_array_str":
            res = col.as_array(str)
        elif op == "as_array_str_masked_value":
            res = col.as_array(str, masked_value="NA")
        elif op == "as_array_float_masked_value":
            res = col.as_array(float, masked_value=-1)
        elif op == "as_array_own_masked_value":
            res = col.as_array(None, masked_value=("!" if kind == "str" else 9))
        elif op == "as_item":
            res = col.as_item()
        elif op == "compress":
            res = pdbx.compress(col, 1e-6)
        elif op == "compress_data":
            res = pdbx.compress(col.data, 1e-6)
        elif op == "serialize":
            res = col.serialize()
        elif op == "deserialize":
            ser = col.serialize()
            snap = env["msgpack"].packb(ser, use_bin_type=True, default=env["encode_numpy"])
            res = pdbx.BinaryCIFColumn.deserialize(ser)
            if env["msgpack"].packb(ser, use_bin_type=True, default=env["encode_numpy"]) != snap:
                ctx.violation("alias:deserialize|content_dict_modified|%s" % kind,
                              "deserialize() changed the dictionary it was given", case)
    except Exception:  # noqa: BLE001
        res = None  # refusing is fine (e.g. as_item of 3 rows, str -> float); the column must still be untouched
        ctx.count("refused_observed")
    bad = None
    if isinstance(res, np.ndarray) and res.flags.writeable:
        if np.shares_memory(res, own):
            ctx.count("unspecified_getter_hands_out_internal_array")
        else:
            scramble(res)
    try:
        after = written(col)
        if after != before:
            bad = "written_bytes_differ_after_%s" % op
        elif not same_array(arr, col.data.array):
            bad = "data_array_differs_after_%s" % op
        elif after != written(twin):
            bad = "written_bytes_differ_from_twin_after_%s" % op
        elif not (arr.dtype.kind == "f" and bool(np.isnan(arr).any())) and not (col == twin and twin == col):
            bad = "not_equal_to_twin_after_%s" % op  # (== is undefined for NaN content: array_equal)
    except Exception as ex:  # noqa: BLE001
        bad = "write_raised_%s_after_%s" % (type(ex).__name__, op)
    if bad:
        ctx.violation("alias:column|%s|%s,%s" % (bad, kind, "masked" if masked else "unmasked"),
                      "an observer / compress() changed the column it was called on", case)
    ctx.count("accepted")
    ctx.ev(1, 1 if n else 0)
    ctx.outcome(("aliasc", kind, key, masked, op, bad))


ALIAS_OPS = ["as_array", "as_array_str", "as_array_str_masked_value", "as_array_float_masked_value",
             "as_array_own_masked_value", "as_item", "compress", "compress_data", "serialize", "deserialize"]


def run_alias_shard(shard, ctx):
    kind = shard["kind"]
    arrays, _ = reuse_sets(kind)
    for key in arrays:
        for ci in range(len(ALIAS_CHAINS[kind])):
            alias_case(ctx, kind, key, ci)
        for masked in (False, True):
            for op in ALIAS_OPS:
                alias_container_case(ctx, kind, key, masked, op)


# ---- array flavours ----------------------------------------------------------
class _SubArray(np.ndarray):
    pass


FLAVOURS = ["strided", "negative_stride", "readonly", "bigendian", "subclass", "list", "tuple", "zero_dim"]
# statement silent: a 0-d array has no length; byte order is not named (unchanged tree: big-endian 64-bit
# integers raise KeyError in TypeCode.from_dtype, every other big-endian dtype is accepted).  These may be
# refused; if accepted the result must equal the plain one.
FLAVOUR_EITHER = {"zero_dim", "bigendian"}
FLAVOUR_CHAINS = {
    "int": [None, [B()], [D(), B()], [R(), B()], [P(1), B()], [D(), R(), P(2), B()], "compress"],
    "float": [None, [B()], [F(1000), B()], [F(100), D(), P(2), B()], [Q(-5.0, 5.0, 101), B()], "compress"],
    "str": [None, [REUSE_STR_SPECS["default"]], [REUSE_STR_SPECS["deep"]], "compress"],
}


def make_flavour(arr, flavour):
    if flavour == "strided":
        big = np.zeros(2 * len(arr) + 1, dtype=arr.dtype)
        big[1::2] = arr
        return big[1::2]
    if flavour == "negative_stride":
        return np.ascontiguousarray(arr[::-1])[::-1]
    if flavour == "readonly":
        a = arr.copy()
        a.setflags(write=False)
        return a
    if flavour == "bigendian":
        return arr.astype(arr.dtype.newbyteorder(">"))
    if flavour == "subclass":
        return arr.copy().view(_SubArray)
    if flavour == "list":
        return arr.tolist()
    if flavour == "tuple":
        return tuple(arr.tolist())
    if flavour == "zero_dim":
        return np.array(arr[0]) if len(arr) else None
    raise ValueError(flavour)


def flavour_result(obj, chain, tol=1e-6):
    """('ok', packed bytes of the data, decoded array) or ('exc', class)."""
    env = _enc()
    pdbx, msgpack = env["pdbx"], env["msgpack"]
    try:
        if chain == "compress":
            d = pdbx.compress(pdbx.BinaryCIFData(obj), tol)
        else:
            d = pdbx.BinaryCIFData(obj, None if chain is None else [build(s) for s in chain])
        ser = d.serialize()
        packed = msgpack.packb(ser, use_bin_type=True, default=env["encode_numpy"])
        back = pdbx.BinaryCIFData.deserialize(msgpack.unpackb(packed, use_list=True, raw=False))
        return ("ok", packed, back.array)
    except Exception as ex:  # noqa: BLE001
        return ("exc", type(ex).__name__)


def flavour_case(ctx, kind, key, flavour, ci):
    chain = FLAVOUR_CHAINS[kind][ci]
    case = {"k": "flavour", "kind": kind, "a": key, "flavour": flavour, "ci": ci}
    arr, _ = reuse_array(kind, key)
    if flavour == "bigendian" and (arr.dtype.itemsize == 1 and arr.dtype.kind != "U"):
        return
    if flavour in ("list", "tuple") and kind != "str" and str(arr.dtype) not in ("int64", "float64"):
        return  # a list carries no dtype: comparable only with the default dtypes
    if flavour in ("list", "tuple") and not len(arr):
        return  # an empty list carries no dtype either
    obj = make_flavour(arr, flavour)
    if obj is None or not ctx.journal(case):
        return
    if flavour == "zero_dim":
        arr = arr[:1].copy()  # documented: a single item is converted into an array
    plain = flavour_result(arr.copy(), chain)
    snap = obj.tobytes() if isinstance(obj, np.ndarray) else repr(obj)
    got = with_cpu_limit(CPU_LIMIT, flavour_result, obj, chain)
    got = got[1] if got[0] == "ok" else ("exc", "CpuLimit")
    cname = "plain" if chain is None else (chain if chain == "compress" else
                                           (chain_sig(chain) if kind != "str" else "StringArray%d" % ci))
    bad = None
    if (obj.tobytes() if isinstance(obj, np.ndarray) else repr(obj)) != snap:
        bad = "input_modified"
    elif plain[0] == "exc":
        # the plain array is refused (empty into RunLength, NaN into FixedPoint ...): the flavour must not be
        # turned into something else silently
        if got[0] == "ok" and not same_array(arr, got[2]):
            bad = "accepted_but_altered"
        ctx.count("refusable")
    elif got[0] == "exc":
        if flavour in FLAVOUR_EITHER:
            ctx.count("unspecified")
        else:
            bad = "raised_%s" % got[1]
    elif got[1] != plain[1] or not same_array(plain[2], got[2]):
        bad = "differs_from_plain_array"
    if bad:
        ctx.violation("flavour:%s|%s|%s,%s" % (flavour, bad, kind, cname),
                      "array flavour is not handled like a plain contiguous native array", case,
                      expected=repr(plain[2])[:150] if plain[0] == "ok" else list(plain),
                      observed=repr(got[2])[:150] if got[0] == "ok" else list(got))
    if plain[0] == "ok" and got[0] == "ok":
        ctx.count("accepted")
    ctx.ev(1, 1 if len(arr) else 0)
    ctx.outcome(("fl", kind, key, flavour, ci, got[1] if got[0] == "ok" else got))


def _np_params(spec):
    """The same encoding spec with every parameter spelled as a numpy scalar / dtype-like object."""
    k, p = spec
    tcs = {1: np.int8, 2: np.dtype("int16"), 3: "int32", 4: np.uint8, 5: ">u2", 6: np.dtype("uint32"),
           32: np.float32, 33: "float64"}
    q = {}
    for name, v in p.items():
        if v is None:
            q[name] = None
        elif name in ("type", "src_type"):
            q[name] = tcs[v]
        elif isinstance(v, bool):
            q[name] = np.bool_(v)
        elif isinstance(v, int):
            q[name] = np.int64(v) if name != "byte_count" else np.int8(v)
        elif isinstance(v, float):
            q[name] = np.float32(v) if float(np.float32(v)) == v else np.float64(v)
        else:
            q[name] = v
    return [k, q]


PARAM_CHAINS = {
    "int": [[B(I32)], [B(U16)], [D(I32, 5), B(I32)], [D(None, 0), B()], [R(I32, None), B(I32)],
            [P(1, True), B(U8)], [P(2, False), B(I16)], [P(1, None), B()]],
    "float": [[B(F32)], [B(F64)], [F(1000, F64), B(I32)], [F(1000.0), B()], [F(0.5, F32), B()],
              [Q(-5.0, 5.0, 101, F64), B(I32)], [Q(0.0, 2000.0, 2001), B()]],
}


def param_flavour_case(ctx, kind, key, ci, with_size):
    """Parameters given as numpy scalars / dtype spellings behave like Python numbers / type codes."""
    chain = [list(x) for x in PARAM_CHAINS[kind][ci]]
    arr, _ = reuse_array(kind, key)
    if with_size:
        chain = [[k, {**p, "src_size": len(arr)}] if k in ("R", "P") else [k, p] for k, p in chain]
        if not any(k in ("R", "P") for k, _ in chain):
            return
    case = {"k": "flavour", "f": "params", "kind": kind, "a": key, "ci": ci, "with_size": with_size}
    if not ctx.journal(case):
        return
    env = _enc()
    E, pdbx, msgpack = env["E"], env["pdbx"], env["msgpack"]

    def run(specs):
        try:
            d = pdbx.BinaryCIFData(arr.copy(), [build(s) for s in specs])
            packed = msgpack.packb(d.serialize(), use_bin_type=True, default=env["encode_numpy"])
            u = msgpack.unpackb(packed, use_list=True, raw=False)
            back = pdbx.BinaryCIFData.deserialize(u)
            return ("ok", back.array, back.encoding, u["data"])
        except Exception as ex:  # noqa: BLE001
            return ("exc", type(ex).__name__)

    plain = run(chain)
    got = run([_np_params(s) for s in chain])
    bad = None
    if plain[0] != got[0]:
        bad = "plain_%s_numpy_%s" % (plain[0] if plain[0] == "ok" else plain[1], got[0] if got[0] == "ok" else got[1])
    elif plain[0] == "ok":
        if plain[3] != got[3] or not same_array(plain[1], got[1]):
            bad = "encoded_or_decoded_data_differ"
        elif not same_encodings(plain[2], got[2]):
            bad = "deserialised_encodings_differ"
    if bad:
        ctx.violation("flavour:numpy_parameters|%s|%s" % (bad, chain_sig(chain)),
                      "parameters given as numpy scalars / dtype spellings behave differently", case)
    ctx.count("accepted" if plain[0] == "ok" else "refusable")
    ctx.ev(1, 1 if len(arr) and plain[0] == "ok" else 0)
    ctx.outcome(("flp", kind, key, ci, with_size, bad))


def run_flavour_shard(shard, ctx):
    kind = shard["kind"]
    arrays, _ = reuse_sets(kind)
    for key in arrays:
        for flavour in FLAVOURS:
            for ci in range(len(FLAVOUR_CHAINS[kind])):
                flavour_case(ctx, kind, key, flavour, ci)
        if kind in PARAM_CHAINS:
            for ci in range(len(PARAM_CHAINS[kind])):
                for with_size in (False, True):
                    param_flavour_case(ctx, kind, key, ci, with_size)


# ---- size switches and many items ---------------------------------------------
SWEEP_SMALL = list(range(2, 41))
SWEEP_EDGES = [63, 64, 65, 127, 128, 129, 255, 256, 257, 16383, 16384, 16385, 32767, 32768, 32769,
               65535, 65536, 65537]
SIZE_PATTERNS = ["const_i32", "ramp_i32", "alt_u8", "saw_i64", "blocks_i16", "big_u32", "ramp_f64", "const_f32",
                 "uniq_str", "const_str", "alt_str"]
SIZE_CHAINS = [[R(), B()], [R(), P(1), B()], [D(), R(), P(2), B()], [P(1), B()], [D(), P(1), B()]]


def size_array(pattern, n):
    i = np.arange(n)
    if pattern == "const_i32":
        return np.full(n, 7, dtype=np.int32)
    if pattern == "ramp_i32":
        return (i - 3).astype(np.int32)
    if pattern == "alt_u8":
        return (i % 2 * 255).astype(np.uint8)
    if pattern == "saw_i64":
        return (i % 300 - 150).astype(np.int64)
    if pattern == "blocks_i16":
        return (i // max(1, n // 3) * 1000 - 1000).astype(np.int16)
    if pattern == "big_u32":
        return np.where(i % 7 == 0, 4000000000, i).astype(np.uint32)
    if pattern == "ramp_f64":
        return i * 0.001
    if pattern == "const_f32":
        return np.full(n, 12.25, dtype=np.float32)
    if pattern == "uniq_str":
        return np.array(["s%05d" % k for k in range(n)], dtype="U6")
    if pattern == "const_str":
        return np.array(["abc"] * n, dtype="U3")
    if pattern == "alt_str":
        return np.array(["", "é"] * (n // 2) + [""] * (n % 2), dtype="U1")
    raise ValueError(pattern)


def exact_or_tol(arr, got, tol):
    if arr.dtype.kind != "f":
        return isinstance(got, np.ndarray) and len(got) == len(arr) and \
            (got.dtype.kind == arr.dtype.kind or (got.dtype.kind in "iu" and arr.dtype.kind in "iu")) and \
            got.tolist() == arr.tolist()
    if not isinstance(got, np.ndarray) or got.dtype.kind != "f" or len(got) != len(arr):
        return False
    a = arr.astype(np.float64)
    g = got.astype(np.float64)
    slack = 4 * np.spacing(np.abs(arr)).astype(np.float64)
    return bool(np.all(np.abs(g - a) <= tol * np.abs(a) * (1 + 1e-6) + slack))


def size_compress_case(ctx, pattern, n, tol=1e-6, arr=None, label=None):
    case = {"k": "sizes", "f": "compress", "pattern": pattern, "n": n, "tol": tol}
    if not ctx.journal(case):
        return
    if arr is None:
        arr = size_array(pattern, n)
    snap = arr.tobytes()
    r = with_cpu_limit(8 * CPU_LIMIT, compress_roundtrip, arr, tol)
    if r[0] != "ok":
        ctx.violation("sizes:compress|did_not_terminate|%s" % (label or pattern), "CPU limit exceeded", case)
        ctx.ev(1, 1)
        return
    res = r[1]
    if res[0] == "exc":
        ctx.violation("sizes:compress|%s_raised_%s|%s" % (res[1], res[2], label or pattern),
                      "compress() / write / read of a representable column raised", case, observed=list(res))
    else:
        ctx.count("compress_chose:" + "+".join(res[2]))
        if not exact_or_tol(arr, res[1], tol):
            ctx.violation("sizes:compress|reads_back_different|%s" % (label or pattern),
                          "compressed column does not read back (within tolerance)", case,
                          observed={"encoding": res[2], "head": repr(res[1][:6])[:150]})
        elif arr.tobytes() != snap:
            ctx.violation("sizes:compress|input_array_modified|%s" % (label or pattern), "input changed", case)
    ctx.count("accepted")
    ctx.ev(1, 1)
    ctx.outcome(("sz", pattern, n, tol, res[2:] if res[0] == "ok" else res))


def size_chain_case(ctx, pattern, n, ci):
    chain = SIZE_CHAINS[ci]
    arr = size_array(pattern, n)
    v = M.int_chain(arr.tolist(), M.DTYPE_TC[str(arr.dtype)], chain, np_range=M.DTYPE_RANGE[str(arr.dtype)],
                    np_name=str(arr.dtype)) if n <= 300 else None
    case = {"k": "sizes", "f": "chain", "pattern": pattern, "n": n, "ci": ci}
    if not ctx.journal(case):
        return
    direct, filed, _ = run_paths(arr, chain, allow_big=False)
    input_check(ctx, {**case, "dtype": str(arr.dtype)}, chain)
    if direct is None:
        ctx.count("skipped_pack_cap_observed")
        return
    refusable = pattern == "big_u32" and any(k == "P" for k, _ in chain)  # values beyond int32 into packing
    if v is not None and v.cls != "accept":
        refusable = True
    for path, res in (("direct", direct), ("file", filed)):
        if res[0] == "exc":
            if not refusable:
                ctx.violation("sizes:%s|%s_%s_raised_%s|%s" % (chain_sig(chain), path, res[1], res[2], pattern),
                              "round trip of a representable column raised", case, observed=list(res))
            else:
                ctx.count("refused_observed")
        elif not exact_or_tol(arr, res[1], 0):
            ctx.violation("sizes:%s|%s_reads_back_different|%s" % (chain_sig(chain), path, pattern),
                          "column does not read back", case, observed=repr(res[1][:8])[:150])
    ctx.count("refusable" if refusable else "accepted")
    ctx.ev(1, 1)
    ctx.outcome(("szc", pattern, n, ci, direct[0], filed[0]))


def size_string_table_case(ctx, variant, n, oname):
    """String tables whose offsets / indices cross 8 and 16 bit."""
    case = {"k": "sizes", "f": "table", "variant": variant, "n": n, "offset": oname}
    if not ctx.journal(case):
        return
    if variant == "one_long_string":      # offsets [0, n, n + 1]
        strs = ["x" * n, "a", "x" * n]
    elif variant == "total_length":        # many 5-character strings: table length 5 * n
        strs = ["%05d" % k for k in range(n)]
    else:                                   # unique_count: n single different code points, indices 0 .. n-1
        strs = [chr(0x10000 + k) for k in range(n)] + [chr(0x10000), chr(0x10000 + n - 1)]
    arr = np.array(strs, dtype="U%d" % max(len(s) for s in strs))
    if oname == "compress":
        size_compress_case(ctx, "string_table", n, arr=arr, label="string_table_%s" % variant)
        return
    spec = ["S", {"strings": None, "data": STR_CHAINS["P1"] if variant == "unique_count" else None,
                  "offset": STR_CHAINS[oname]}]
    direct, filed, _ = run_paths(arr, [spec])
    input_check(ctx, {**case, "dtype": "str"}, [spec])
    offs_max = sum(len(s) for s in dict.fromkeys(strs))
    refusable = (oname == "Bu8" and offs_max > 255) or (oname == "Bi8" and offs_max > 127)
    for path, res in (("direct", direct), ("file", filed)):
        if res[0] == "exc":
            if refusable and path == "file":
                ctx.count("refused_observed")
            else:
                ctx.violation("sizes:string_table|%s_%s_raised_%s|%s,%s" % (path, res[1], res[2], variant, oname),
                              "string column with a large table raised", case, observed=list(res))
        elif not exact_or_tol(arr, res[1], 0):
            ctx.violation("sizes:string_table|%s_reads_back_different|%s,%s" % (path, variant, oname),
                          "string column with a large table reads back different", case)
    ctx.count("refusable" if refusable else "accepted")
    ctx.ev(1, 1)
    ctx.outcome(("szt", variant, n, oname, direct[0], filed[0]))


def size_decimals_case(ctx, dtype, k, shape, tol):
    base = 10.0 ** -k
    vals = {"zero_and_unit": [0.0, base], "unit_and_three": [base, 3 * base],
            "unit_and_one": [base, 1.0]}[shape]
    arr = np.array(vals, dtype=dtype)
    if beyond_float_range(arr.tolist(), tol, dtype):
        ctx.count("skipped_beyond_float_range_unlisted")
        return
    v = compress_float_verdict(arr.tolist(), tol, dtype)
    case = {"k": "sizes", "f": "decimals", "dtype": dtype, "k10": k, "shape": shape, "tol": tol}
    if not ctx.journal(case):
        return
    r = with_cpu_limit(CPU_LIMIT, compress_roundtrip, arr, tol)
    if r[0] != "ok":
        ctx.violation("sizes:decimals|did_not_terminate|%s,%s" % (dtype, shape), "CPU limit exceeded", case)
    elif r[1][0] == "exc":
        ctx.violation("sizes:decimals|%s_raised_%s|%s,%s" % (r[1][1], r[1][2], dtype, shape),
                      "compress() of finite floats raised", case, observed=list(r[1]))
    elif not exact_or_tol(arr, r[1][1], tol):
        ctx.violation("sizes:decimals|outside_tolerance|%s,%s,%s" % (dtype, shape, v.cls),
                      "compress() result outside the tolerance", case, observed=repr(r[1][1])[:120])
    else:
        ctx.count("compress_chose:" + "+".join(r[1][2]))
    ctx.count("accepted")
    ctx.ev(1, 1)
    ctx.outcome(("szd", dtype, k, shape, tol, r[1][2:] if r[0] == "ok" and r[1][0] == "ok" else r))


def size_container_case(ctx, level, n):
    """n blocks / categories / columns: names whose decimal width changes, more items than any small table."""
    case = {"k": "sizes", "f": "container", "level": level, "n": n}
    if not ctx.journal(case):
        return
    pdbx = _enc()["pdbx"]
    nb, nc, nk = (n, 1, 1) if level == "blocks" else ((1, n, 1) if level == "categories" else (1, 1, n))
    f = pdbx.BinaryCIFFile()
    for b in range(nb):
        blk = pdbx.BinaryCIFBlock()
        for c in range(nc):
            blk["c%d" % c] = pdbx.BinaryCIFCategory({"k%d" % k: np.array([b, c, k], dtype=np.int32) for k in range(nk)})
        f["b%d" % b] = blk
    try:
        g = pdbx.BinaryCIFFile.read(io.BytesIO(file_bytes(f)))
        ok = list(g.keys()) == ["b%d" % b for b in range(nb)]
        for b in range(nb):
            blk = g["b%d" % b]
            ok = ok and list(blk.keys()) == ["c%d" % c for c in range(nc)]
            for c in range(nc):
                cat = blk["c%d" % c]
                ok = ok and list(cat.keys()) == ["k%d" % k for k in range(nk)] and cat.row_count == 3
                for k in range(nk):
                    ok = ok and cat["k%d" % k].as_array().tolist() == [b, c, k]
        ok = ok and g == f and f == g
    except Exception as ex:  # noqa: BLE001
        ctx.violation("sizes:container|raised_%s|%s" % (type(ex).__name__, level), "file with many items raised", case)
        ctx.ev(1, 1)
        return
    if not ok:
        ctx.violation("sizes:container|reads_back_different|%s" % level, "file with many items reads back different",
                      case)
    ctx.count("accepted")
    ctx.ev(1, 1)
    ctx.outcome(("szk", level, n))


def run_sizes_shard(shard, ctx):
    part, parts = shard["part"], shard["parts"]
    idx = 0

    def mine():
        nonlocal idx
        idx += 1
        return idx % parts == part

    for n in SWEEP_SMALL + SWEEP_EDGES:
        for pattern in SIZE_PATTERNS:
            if mine():
                size_compress_case(ctx, pattern, n)
                if pattern == "ramp_f64":
                    size_compress_case(ctx, pattern, n, 1e-3)
            if size_array(pattern, 2).dtype.kind in "iu":
                for ci in range(len(SIZE_CHAINS)):
                    if mine():
                        size_chain_case(ctx, pattern, n, ci)
    for n in (126, 127, 128, 129, 254, 255, 256, 257, 32767, 32768, 32769, 65535, 65536, 65537):
        for variant in ("one_long_string", "total_length", "unique_count"):
            if variant == "total_length" and n > 20000:
                continue
            for oname in ("default", "Bu8", "P1", "DRP", "compress"):
                if mine():
                    size_string_table_case(ctx, variant, n, oname)
    for dtype in ("float32", "float64"):
        for k in range(0, 26):
            for shape in ("zero_and_unit", "unit_and_three", "unit_and_one"):
                for tol in TOLS[dtype]:
                    if mine():
                        size_decimals_case(ctx, dtype, k, shape, tol)
    for level in ("blocks", "categories", "columns"):
        for n in (9, 10, 11, 99, 100, 101):
            if mine():
                size_container_case(ctx, level, n)


# ---- laziness, == in both directions, key order --------------------------------
LAZY_ACTIONS = ["touch_b1", "touch_b1_c1", "touch_b1_c1_x_array", "touch_b2_c3_w_mask", "iterate_keys",
                "eq_with_original_first"]


def lazy_file(perturb=None, order=0):
    pdbx = _enc()["pdbx"]
    x = np.array([3, -1, 70000], dtype=np.int32)
    y = np.array(["a", "", "é b"], dtype="U3")
    z = np.array([1.5, 0.25, -3.0])
    w = np.array([7, 7, 7, 9], dtype=np.uint8)
    wm = np.array([0, 1, 2, 0], dtype=np.uint8)
    if perturb == "data_value":
        x[1] = -2
    elif perturb == "string_value":
        y[1] = "b"
    elif perturb == "float_value":
        z[2] = -3.5
    elif perturb == "mask_value":
        wm[3] = 2
    cols_c1 = [("x", pdbx.BinaryCIFColumn(pdbx.BinaryCIFData(x, [build(D()), build(B())]))),
               ("y", pdbx.BinaryCIFColumn(y))]
    if perturb == "extra_column":
        cols_c1.append(("extra", pdbx.BinaryCIFColumn(np.zeros(3, dtype=np.int32))))
    c2 = [("z", pdbx.BinaryCIFColumn(z))]
    c3 = [("w", pdbx.BinaryCIFColumn(pdbx.BinaryCIFData(w, [build(R()), build(B())]),
                                     None if perturb == "mask_removed" else pdbx.BinaryCIFData(wm)))]
    if order:
        cols_c1 = cols_c1[::-1]
    cats_b1 = [("c1", cols_c1), ("c2", c2)]
    if order:
        cats_b1 = cats_b1[::-1]
    blocks = [("b1", cats_b1), ("b2", [("c3" if perturb != "category_name" else "c4", c3)])]
    if order:
        blocks = blocks[::-1]
    f = pdbx.BinaryCIFFile()
    for bname, cats in blocks:
        blk = pdbx.BinaryCIFBlock()
        for cname, cols in cats:
            cat = pdbx.BinaryCIFCategory()
            for k, c in cols:
                cat[k] = c
            blk[cname] = cat
        f[bname] = blk
    return f


LAZY_PERTURBATIONS = ["data_value", "string_value", "float_value", "mask_value", "mask_removed", "extra_column",
                      "category_name"]


def lazy_case(ctx, mask_bits, order):
    """Every subset of forcing actions on a file that was read: keys, ==/!= in both directions against the
    written object, an untouched second reading and perturbed files, and what it writes."""
    pdbx = _enc()["pdbx"]
    actions = [a for i, a in enumerate(LAZY_ACTIONS) if mask_bits >> i & 1]
    case = {"k": "lazy", "actions": actions, "bits": mask_bits, "order": order}
    if not ctx.journal(case):
        return
    f = lazy_file()
    file_bytes(f)  # writing determines the automatic encoding parameters of f
    raw = file_bytes(lazy_file(order=order))
    bad = []
    try:
        g = pdbx.BinaryCIFFile.read(io.BytesIO(raw))
        g2 = pdbx.BinaryCIFFile.read(io.BytesIO(raw))
        for a in actions:
            if a == "touch_b1":
                g["b1"]
            elif a == "touch_b1_c1":
                g["b1"]["c1"]
            elif a == "touch_b1_c1_x_array":
                g["b1"]["c1"]["x"].as_array()
            elif a == "touch_b2_c3_w_mask":
                g["b2"]["c3"]["w"].mask.array
            elif a == "iterate_keys":
                [list(g[b].keys()) for b in g]
            elif a == "eq_with_original_first":
                g == f
        if sorted(g.keys()) != ["b1", "b2"] or sorted(g["b1"].keys()) != ["c1", "c2"] or \
                sorted(g["b1"]["c1"].keys()) != ["x", "y"] or len(g) != 2 or "b1" not in g or "c3" not in g["b2"]:
            bad.append("keys")
        if not (g == f):
            bad.append("read_eq_written")
        if not (f == g):
            bad.append("written_eq_read")
        if (g != f) or (f != g):
            bad.append("ne_of_equal_files")
        if not (g == g2 and g2 == g):
            bad.append("eq_untouched_second_reading")
        for p in LAZY_PERTURBATIONS:
            fp = lazy_file(perturb=p)
            gp = pdbx.BinaryCIFFile.read(io.BytesIO(file_bytes(fp)))
            if (g == fp) or (fp == g) or (g == gp) or (gp == g) or not (g != fp) or not (gp != g):
                bad.append("equal_to_perturbed_%s" % p)
        h = pdbx.BinaryCIFFile.read(io.BytesIO(file_bytes(g)))
        if not (h == f and f == h):
            bad.append("rewritten_file_differs")
        if h["b1"]["c1"]["x"].as_array().tolist() != [3, -1, 70000] or h["b2"]["c3"]["w"].mask.array.tolist() != [0, 1, 2, 0] \
                or h["b1"]["c1"]["y"].as_array().tolist() != ["a", "", "é b"] or h["b1"]["c2"]["z"].as_array().tolist() != [1.5, 0.25, -3.0]:
            bad.append("rewritten_arrays_differ")
    except Exception as ex:  # noqa: BLE001
        bad.append("raised_%s" % type(ex).__name__)
    for b in bad[:3]:
        ctx.violation("lazy|%s|%s" % (b, "insertion_order_reversed" if order else "same_order"),
                      "observation of a lazily deserialised file depends on what was forced before", case)
    ctx.count("accepted")
    ctx.ev(1, 1)
    ctx.outcome(("lazy", mask_bits, order, tuple(bad)))


def run_lazy_shard(shard, ctx):
    for bits in range(2 ** len(LAZY_ACTIONS)):
        if bits % shard["parts"] != shard["part"]:
            continue
        for order in (0, 1):
            lazy_case(ctx, bits, order)


def audit_replay(case, ctx):
    k = case["k"]
    if k == "alias":
        if case["f"] == "codec":
            return alias_case(ctx, case["kind"], case["a"], case["ci"])
        return alias_container_case(ctx, case["kind"], case["a"], case["masked"], case["op"])
    if k == "flavour":
        if case.get("f") == "params":
            return param_flavour_case(ctx, case["kind"], case["a"], case["ci"], case["with_size"])
        return flavour_case(ctx, case["kind"], case["a"], case["flavour"], case["ci"])
    if k == "lazy":
        return lazy_case(ctx, case["bits"], case["order"])
    f = case["f"]
    if f == "compress":
        if case["pattern"] == "string_table":
            raise ValueError("replay the 'table' case instead")
        return size_compress_case(ctx, case["pattern"], case["n"], case["tol"])
    if f == "chain":
        return size_chain_case(ctx, case["pattern"], case["n"], case["ci"])
    if f == "table":
        return size_string_table_case(ctx, case["variant"], case["n"], case["offset"])
    if f == "decimals":
        return size_decimals_case(ctx, case["dtype"], case["k10"], case["shape"], case["tol"])
    return size_container_case(ctx, case["level"], case["n"])


# ---------------------------------------------------------------------------
# second audit: result identity, value-keyed branches / two-feature values, derived inputs
# ---------------------------------------------------------------------------
def identity_file(shape):
    """Files for the identity family, incl. the degenerate ones where compress() has nothing to do."""
    pdbx = _enc()["pdbx"]
    if shape == "no_blocks":
        return pdbx.BinaryCIFFile()
    if shape == "empty_block":
        return pdbx.BinaryCIFFile({"blk": pdbx.BinaryCIFBlock()})
    cols = {
        "single_values": {"x": np.array([5], dtype=np.int32), "y": np.array(["a"])},
        "plain": {"x": np.array([3, -1, 70000, 3], dtype=np.int32), "y": np.array(["a", "", "é b", "a"]),
                  "z": np.array([1.5, 0.25, 1234.5, -3.0])},
        "uncompressible": {"x": np.array([2**31 - 1, -(2**31)], dtype=np.int32)},
    }[shape]
    return pdbx.BinaryCIFFile({"blk": pdbx.BinaryCIFBlock({"cat": pdbx.BinaryCIFCategory(dict(cols))})})


IDENTITY_SHAPES = ["no_blocks", "empty_block", "single_values", "plain", "uncompressible"]
IDENTITY_LEVELS = ["file", "block", "category", "column", "data"]


def identity_case(ctx, shape, level, twice):
    """compress() is described as returning a new object of the same type: the result is not the operand, and
    re-binding edits of the result (set / delete a key) leave the operand as it was.  `twice`: the operand is
    itself a compress() result (already canonical input)."""
    case = {"k": "identity", "f": "compress", "shape": shape, "level": level, "twice": twice}
    pdbx = _enc()["pdbx"]
    f = identity_file(shape)
    try:
        if twice:
            f = pdbx.compress(f)
        path = {"file": [], "block": ["blk"], "category": ["blk", "cat"], "column": ["blk", "cat", "x"],
                "data": ["blk", "cat", "x"]}[level]
        op = f
        for k in path:
            op = op[k]
        if level == "data":
            op = op.data
    except KeyError:
        return  # the shape has no such level
    if not ctx.journal(case):
        return
    before = file_bytes(f) if shape != "empty_block" or True else None
    keys_before = list(op.keys()) if hasattr(op, "keys") else None
    try:
        res = pdbx.compress(op)
    except Exception as ex:  # noqa: BLE001
        ctx.violation("identity:compress|raised_%s|%s,%s" % (type(ex).__name__, shape, level),
                      "compress() of a writable object raised", case)
        ctx.ev(1, 1)
        return
    bad = None
    if type(res) is not type(op):
        bad = "result_of_other_type"
    elif res is op and level != "data":
        # BinaryCIFData: 'the input data is kept' is documented; containers are described as new objects
        bad = "result_is_the_operand"
    elif hasattr(res, "keys"):
        new_child = {"file": pdbx.BinaryCIFBlock, "block": pdbx.BinaryCIFCategory}.get(level)
        try:
            for k in list(res.keys()):
                del res[k]
            res["added_afterwards"] = (new_child() if new_child else pdbx.BinaryCIFColumn(np.array([1, 2, 3, 4][:max(1, len(keys_before) and 4)])))
        except Exception as ex:  # noqa: BLE001
            bad = "editing_result_raised_%s" % type(ex).__name__
        if bad is None and list(op.keys()) != keys_before:
            bad = "editing_result_changed_operand_keys"
    if bad is None:
        try:
            if file_bytes(f) != before:
                bad = "operand_writes_other_bytes_afterwards"
        except Exception as ex:  # noqa: BLE001
            bad = "operand_not_writable_afterwards_%s" % type(ex).__name__
    if bad:
        ctx.violation("identity:compress|%s|%s,%s" % (bad, level, "compressed_operand" if twice else "plain_operand"),
                      "compress() result shares identity / containers with its operand", case)
    ctx.count("accepted")
    ctx.ev(1, 1)
    ctx.outcome(("id", shape, level, twice, bad))


def identity_ctor_case(ctx, cls_name):
    """Containers built from a dict: editing the container afterwards / the dict afterwards.  The unchanged
    tree copies the dict for category and block and keeps it for the file: statement silent -> counted."""
    case = {"k": "identity", "f": "ctor", "cls": cls_name}
    if not ctx.journal(case):
        return
    pdbx = _enc()["pdbx"]
    if cls_name == "BinaryCIFCategory":
        d = {"x": pdbx.BinaryCIFColumn(np.array([1, 2]))}
        obj = pdbx.BinaryCIFCategory(d)
        obj["y"] = pdbx.BinaryCIFColumn(np.array([3, 4]))
    elif cls_name == "BinaryCIFBlock":
        d = {"c": pdbx.BinaryCIFCategory({"x": np.array([1, 2])})}
        obj = pdbx.BinaryCIFBlock(d)
        obj["c2"] = pdbx.BinaryCIFCategory({"x": np.array([1])})
    else:
        d = {"b": pdbx.BinaryCIFBlock()}
        obj = pdbx.BinaryCIFFile(d)
        obj["b2"] = pdbx.BinaryCIFBlock()
    if len(d) != 1:
        ctx.count("unspecified_container_keeps_callers_dict")
    d["later"] = list(d.values())[0]
    if "later" in obj:
        ctx.count("unspecified_container_keeps_callers_dict")
    ctx.count("accepted")
    ctx.ev(1, 1)
    ctx.outcome(("idc", cls_name, len(d)))


def run_identity_shard(shard, ctx):
    for shape in IDENTITY_SHAPES:
        for level in IDENTITY_LEVELS:
            for twice in (False, True):
                identity_case(ctx, shape, level, twice)
    for cls_name in ("BinaryCIFCategory", "BinaryCIFBlock", "BinaryCIFFile"):
        identity_ctor_case(ctx, cls_name)


# ---- values the anchored code treats by value; two awkward features in one value ---------------------
COMBO_INTS = [-256, -255, -384, -32640, -65536, -98304, -2 * 32767, 254, 510, 2 * 255 + 1, 65534, 131070,
              32767 * 2 + 1, -(2**31) + 128, 2**31 - 128, -129 * 128, 255 * 255, -128 * 255]
COMBO_STRINGS = ["é" * 300, " é", "é ", "a b" * 100, "\U0001d6fc" * 256 + " ", "x" * 255 + "é", " ", "  ", "\t",
                 "'\"", "é\U0001d6fc a", "\n", "a\nb"]
ODD_DTYPES = ["float16", "longdouble", "bool", "S3", "complex128", "datetime64[s]"]


def values_case(ctx, what, i):
    case = {"k": "values", "what": what, "i": i}
    if not ctx.journal(case):
        return
    env = _enc()
    E, pdbx, msgpack = env["E"], env["pdbx"], env["msgpack"]

    def trip(arr, encs=None, use_compress=False):
        d = pdbx.compress(pdbx.BinaryCIFData(arr)) if use_compress else pdbx.BinaryCIFData(arr, encs)
        packed = msgpack.packb(d.serialize(), use_bin_type=True, default=env["encode_numpy"])
        return pdbx.BinaryCIFData.deserialize(msgpack.unpackb(packed, use_list=True, raw=False)).array

    bad = None
    refusal_wanted = False
    try:
        if what == "byte_count":
            # documented: supported values are 1 and 2
            bc = [0, 3, 4, -1, 8][i]
            refusal_wanted = True
            got = trip(np.array([1, 200, -3], dtype=np.int32), [E.IntegerPackingEncoding(bc), E.ByteArrayEncoding()])
            bad = "unsupported_byte_count_accepted"
        elif what == "type_code":
            tc = [0, 7, 31, 34, -1][i]
            refusal_wanted = True
            E.ByteArrayEncoding(type=tc)
            bad = "unknown_type_code_accepted"
        elif what == "encoding_kind":
            content = [{"kind": "Unknown"}, {"kind": "FixedPoint"}, {"kind": "ByteArray", "type": 3, "extra": 1},
                       {"kind": "RunLength", "srcType": 3}, {"kind": "IntegerPacking"}, {"kind": "bytearray", "type": 3}][i]
            if i == 3:  # srcSize is optional for RunLength (determined from the data)
                enc = E.deserialize_encoding(content)
                if not same_array(np.array([7, 7, 9], dtype=np.int32), enc.decode(np.array([7, 2, 9, 1], dtype=np.int32))):
                    bad = "run_length_without_size_decodes_wrong"
            else:
                refusal_wanted = True
                E.deserialize_encoding(content)
                bad = "invalid_encoding_description_accepted"
        elif what == "compress_type":
            obj = [np.array([1, 2]), [1, 2], None, "text", 5][i]
            refusal_wanted = True
            pdbx.compress(obj)
            bad = "unsupported_argument_accepted"
        elif what == "dtype":
            dt = ODD_DTYPES[i]
            if dt == "float16":
                arr = np.array([1.5, -0.25, 65504.0, 0.0], dtype=dt)
            elif dt == "longdouble":
                arr = np.array([1.5, -0.25, 1234.5], dtype=dt)
            elif dt == "bool":
                arr = np.array([True, False])
            elif dt == "S3":
                arr = np.array([b"ab", b"c"])
            elif dt == "complex128":
                arr = np.array([1 + 2j])
            else:
                arr = np.array([0, 1], dtype=dt)
            exact = dt in ("float16", "longdouble")  # widths the format lacks: stored in the next wider / narrower type
            for use_compress in (False, True):
                try:
                    got = trip(arr, None, use_compress)
                except Exception:  # noqa: BLE001
                    ctx.count("unspecified" if exact else "refused_observed")
                    continue
                if not exact:
                    bad = "dtype_%s_accepted_and_converted" % dt
                elif got.dtype.kind != "f" or got.astype(np.float64).tolist() != arr.astype(np.float64).tolist():
                    bad = "dtype_%s_altered" % dt
        elif what == "mask_value":
            mv = [3, 255, 127][i]
            col = pdbx.BinaryCIFColumn(np.array([1, 2, 3]), np.array([0, mv, 2], dtype=np.uint8))
            f = pdbx.BinaryCIFFile({"b": pdbx.BinaryCIFBlock({"c": pdbx.BinaryCIFCategory({"x": col})})})
            g = pdbx.BinaryCIFFile.read(io.BytesIO(file_bytes(f)))
            if g["b"]["c"]["x"].mask.array.tolist() != [0, mv, 2] or not (g == f):
                bad = "mask_value_outside_enum_altered"
            gc2 = pdbx.BinaryCIFFile.read(io.BytesIO(file_bytes(pdbx.compress(f))))
            if gc2["b"]["c"]["x"].mask.array.tolist() != [0, mv, 2]:
                bad = "mask_value_outside_enum_altered_by_compress"
        elif what == "combo_int":
            v = COMBO_INTS[i]
            for dt in ("int32", "int64"):
                arr = np.array([v, 0, v, v], dtype=dt)
                for spec in ([P(1), B()], [P(2), B()], [P(1, False), B()], [P(2, False), B()], [D(), P(1), B()],
                             [R(), P(2), B()], [P(1), R(), B()], None):
                    if spec and spec[0][0] == "P" and pack_cost(arr, spec[0][1]["byte_count"]) > 10 * M.PACK_CAP:
                        continue
                    if spec and spec[0][0] == "D" and abs(v) > 2**24:
                        continue
                    got = trip(arr, [build(s) for s in spec]) if spec else trip(arr, None, True)
                    if got.tolist() != arr.tolist():
                        bad = "combo_int_altered|%s" % (chain_sig(spec) if spec else "compress")
        elif what == "combo_str":
            s = COMBO_STRINGS[i]
            for arr in (np.array([s]), np.array([s, "", s, "a"]), np.array(["a", s + "b", s])):
                for spec in list(REUSE_STR_SPECS.values()) + [None]:
                    got = trip(arr, [build(spec)]) if spec else trip(arr, None, True)
                    if got.tolist() != arr.tolist():
                        bad = "combo_string_altered"
    except Exception as ex:  # noqa: BLE001
        if refusal_wanted:
            ctx.count("refused_observed")
        else:
            bad = "raised_%s" % type(ex).__name__
    if bad:
        ctx.violation("values:%s|%s|%d" % (what, bad, i) if what in ("byte_count", "type_code", "encoding_kind",
                                                                      "compress_type") else
                      "values:%s|%s" % (what, bad),
                      "a value the code treats specially (or one with two awkward features) is mishandled", case)
    ctx.count("refusable" if refusal_wanted else "accepted")
    ctx.ev(1, 1)
    ctx.outcome(("val", what, i, bad))


VALUES_SPACE = {"byte_count": 5, "type_code": 5, "encoding_kind": 6, "compress_type": 5, "dtype": len(ODD_DTYPES),
                "mask_value": 3, "combo_int": len(COMBO_INTS), "combo_str": len(COMBO_STRINGS)}


def run_values_shard(shard, ctx):
    for what, n in VALUES_SPACE.items():
        for i in range(n):
            values_case(ctx, what, i)


# ---- derived inputs: what the library hands out, fed into its other operations ------------------------
DERIVED_SOURCES = ["decoded_default", "decoded_chain", "decoded_compress", "as_array_str", "as_array_masked_str",
                   "as_array_float", "read_file_column"]
DERIVED_SINKS = ["default", "chain", "compress", "masked_column_file"]


def derived_case(ctx, kind, key, source, sink):
    case = {"k": "derived", "kind": kind, "a": key, "source": source, "sink": sink}
    arr, _ = reuse_array(kind, key)
    if not len(arr):
        return
    if not ctx.journal(case):
        return
    env = _enc()
    pdbx, msgpack = env["pdbx"], env["msgpack"]
    chain = {"int": [D(), R(), P(2), B()], "float": [B(F64)], "str": [REUSE_STR_SPECS["deep"]]}[kind]

    def trip(a, encs=None, use_compress=False):
        d = pdbx.compress(pdbx.BinaryCIFData(a)) if use_compress else pdbx.BinaryCIFData(a, encs)
        packed = msgpack.packb(d.serialize(), use_bin_type=True, default=env["encode_numpy"])
        return pdbx.BinaryCIFData.deserialize(msgpack.unpackb(packed, use_list=True, raw=False)).array

    try:
        mask = np.array([i % 3 for i in range(len(arr))], dtype=np.uint8)
        if source == "decoded_default":
            y = trip(arr)
        elif source == "decoded_chain":
            y = trip(arr, [build(s) for s in chain])
        elif source == "decoded_compress":
            y = trip(arr, None, True)
        elif source == "as_array_str":
            y = pdbx.BinaryCIFColumn(arr).as_array(str)
        elif source == "as_array_masked_str":
            y = pdbx.BinaryCIFColumn(arr, mask).as_array(str)
        elif source == "as_array_float":
            y = pdbx.BinaryCIFColumn(arr, mask).as_array(float, masked_value=-1)
        else:
            f0 = pdbx.BinaryCIFFile({"b": pdbx.BinaryCIFBlock({"c": pdbx.BinaryCIFCategory(
                {"x": pdbx.BinaryCIFColumn(pdbx.BinaryCIFData(arr, [build(s) for s in chain]), mask)})})})
            y = pdbx.BinaryCIFFile.read(io.BytesIO(file_bytes(f0)))["b"]["c"]["x"]  # a column object of a read file
    except Exception:  # noqa: BLE001
        ctx.count("derived_source_not_available")  # NaN into str->float etc.: nothing derived to feed on
        return
    ycol = y if not isinstance(y, np.ndarray) else None
    yarr = y.data.array if ycol is not None else y
    if yarr.dtype.kind == "f" and bool(np.isnan(yarr).any()) and sink in ("compress",):
        pass
    want = yarr.copy()
    snap = yarr.tobytes()
    bad = None
    try:
        ykind = {"U": "str", "f": "float"}.get(yarr.dtype.kind, "int")
        ychain = {"int": [D(), R(), P(2), B()], "float": [B()], "str": [REUSE_STR_SPECS["deep"]]}[ykind]
        if sink == "default":
            got = trip(yarr)
        elif sink == "chain":
            got = trip(yarr, [build(s) for s in ychain])
        elif sink == "compress":
            got = trip(yarr, None, True)
        else:
            col = ycol if ycol is not None else pdbx.BinaryCIFColumn(yarr, np.array([(i + 1) % 3 for i in range(len(yarr))],
                                                                            dtype=np.uint8))
            f = pdbx.BinaryCIFFile({"n": pdbx.BinaryCIFBlock({"m": pdbx.BinaryCIFCategory(
                {"moved": col, "idx": np.arange(len(yarr), dtype=np.int32)})})})
            g = pdbx.BinaryCIFFile.read(io.BytesIO(file_bytes(pdbx.compress(f))))
            got = g["n"]["m"]["moved"].data.array
            if g["n"]["m"]["moved"].mask.array.tolist() != col.mask.array.tolist() or g["n"]["m"].row_count != len(yarr):
                bad = "mask_or_row_count_of_moved_column_differs"
        if bad is None:
            if want.dtype.kind == "f":
                ok = exact_or_tol(want[~np.isnan(want)], got[~np.isnan(want)], 1e-6 if sink in ("compress", "masked_column_file") else 0) \
                    and bool(np.isnan(got[np.isnan(want)]).all()) and len(got) == len(want)
            else:
                ok = exact_or_tol(want, got, 0)
            if not ok:
                bad = "derived_array_reads_back_different"
            elif yarr.tobytes() != snap:
                bad = "derived_array_modified"
    except Exception as ex:  # noqa: BLE001
        bad = "raised_%s" % type(ex).__name__
    if bad:
        ctx.violation("derived:%s->%s|%s|%s" % (source, sink, bad, kind),
                      "an array / column handed out by the library is not handled like a directly built one", case,
                      expected=repr(want)[:120])
    ctx.count("accepted")
    ctx.ev(1, 1)
    ctx.outcome(("der", kind, key, source, sink, bad))


def run_derived_shard(shard, ctx):
    kind = shard["kind"]
    arrays, _ = reuse_sets(kind)
    for key in arrays:
        for source in DERIVED_SOURCES:
            for sink in DERIVED_SINKS:
                derived_case(ctx, kind, key, source, sink)


def audit2_replay(case, ctx):
    k = case["k"]
    if k == "identity":
        if case["f"] == "ctor":
            return identity_ctor_case(ctx, case["cls"])
        return identity_case(ctx, case["shape"], case["level"], case["twice"])
    if k == "values":
        return values_case(ctx, case["what"], case["i"])
    return derived_case(ctx, case["kind"], case["a"], case["source"], case["sink"])


# ---------------------------------------------------------------------------
# third audit: operands of different size / option precedence, ambient numpy state, selection ties
# ---------------------------------------------------------------------------
def operands_case(ctx, what, n, m):
    """F: the second operand is larger / smaller than the first, in both directions.  H: a value given
    explicitly and present in the input (row_count vs the columns, src_type vs the dtype)."""
    case = {"k": "operands", "what": what, "n": n, "m": m}
    if not ctx.journal(case):
        return
    pdbx = _enc()["pdbx"]
    E = _enc()["E"]
    bad = None
    refused = False
    want_refusal = False

    def fbytes(cat):
        return file_bytes(pdbx.BinaryCIFFile({"b": pdbx.BinaryCIFBlock({"c": cat})}))

    try:
        if what == "column_mask":
            want_refusal = n != m  # documented: IndexError for data and mask of different length
            col = pdbx.BinaryCIFColumn(np.arange(n, dtype=np.int32), np.array([i % 3 for i in range(m)], dtype=np.uint8))
            g = pdbx.BinaryCIFFile.read(io.BytesIO(fbytes(pdbx.BinaryCIFCategory({"x": col}))))["b"]["c"]["x"]
            if n != m:
                bad = "data_and_mask_of_different_length_written"
            elif g.data.array.tolist() != list(range(n)) or g.mask.array.tolist() != [i % 3 for i in range(m)]:
                bad = "reads_back_different"
        elif what in ("category_columns", "category_columns_assigned"):
            want_refusal = n != m  # documented: all columns must have the same length
            if what == "category_columns":
                cat = pdbx.BinaryCIFCategory({"x": np.arange(n, dtype=np.int32), "y": np.array(["s%d" % i for i in range(m)], dtype="U3")})
            else:  # a column of a bigger / smaller category is assigned into this one
                other = pdbx.BinaryCIFCategory({"y": np.array(["s%d" % i for i in range(m)], dtype="U3"),
                                                "z": np.zeros(m)})
                fbytes(other) if m else None
                cat = pdbx.BinaryCIFCategory({"x": np.arange(n, dtype=np.int32)})
                fbytes(cat) if n else None
                cat["y"] = other["y"]
            g = pdbx.BinaryCIFFile.read(io.BytesIO(fbytes(cat)))["b"]["c"]
            if n != m:
                bad = "columns_of_different_length_written"
            elif g.row_count != n or g["x"].as_array().tolist() != list(range(n)) or \
                    g["y"].as_array().tolist() != ["s%d" % i for i in range(m)]:
                bad = "reads_back_different"
        elif what == "eq_rows":
            # == / != of objects whose arrays differ in length only, at every level, both directions
            def build_(k):
                d = pdbx.BinaryCIFData(np.zeros(k, dtype=np.int32))
                d.serialize()
                c = pdbx.BinaryCIFColumn(d, pdbx.BinaryCIFData(np.zeros(k, dtype=np.uint8)))
                cat = pdbx.BinaryCIFCategory({"x": c})
                blk = pdbx.BinaryCIFBlock({"c": cat})
                f = pdbx.BinaryCIFFile({"b": blk})
                file_bytes(f) if k else None
                return [d, c, cat, blk, f]
            for a, b in zip(build_(n), build_(m)):
                if ((a == b) != (n == m)) or ((b == a) != (n == m)) or ((a != b) != (n != m)):
                    bad = "eq_wrong_for_%s" % type(a).__name__
                    break
        elif what == "eq_keys":
            # the other container has more / fewer keys (superset / subset), both directions
            def build_(k):
                cat = pdbx.BinaryCIFCategory({"k%d" % i: np.array([1, 2], dtype=np.int32) for i in range(k)})
                blk = pdbx.BinaryCIFBlock({"c%d" % i: pdbx.BinaryCIFCategory({"x": np.array([1], dtype=np.int32)})
                                           for i in range(k)})
                f = pdbx.BinaryCIFFile({"b%d" % i: pdbx.BinaryCIFBlock() for i in range(k)})
                return [cat, blk, f]
            for a, b in zip(build_(n), build_(m)):
                if ((a == b) != (n == m)) or ((b == a) != (n == m)):
                    bad = "eq_wrong_for_%s" % type(a).__name__
                    break
        elif what == "explicit_row_count":
            # H: row_count given explicitly (m) and present in the columns (n rows).  Precedence is not documented:
            # what is written must be consistent (rowCount == rows of the columns) or the call refuses.
            cat = pdbx.BinaryCIFCategory({"x": np.arange(n, dtype=np.int32)}, row_count=m)
            g = pdbx.BinaryCIFFile.read(io.BytesIO(fbytes(cat)))["b"]["c"]
            if g.row_count != n or g["x"].as_array().tolist() != list(range(n)):
                bad = "written_row_count_differs_from_columns"
        elif what == "explicit_src_type":
            # H: src_type / type given explicitly (type code m) and present as the dtype of the data (dtype index n)
            dt = INT_DTYPES[n]
            tc = INT_TCS[m]
            lo, hi = M.DTYPE_RANGE[dt]
            for vals in ([0, 1, 1], [min(hi, 200), 3, 3], [max(lo, -100), 0, 0], [hi, hi, 0] if hi <= 2**32 - 1 else [2**32 - 1, 0, 0]):
                arr = np.array(vals, dtype=dt)
                fits = M.fits(vals, tc)
                for spec in ([D(src_type=tc), B()], [R(src_type=tc), B()], [B(tc)], [D(src_type=tc), R(), P(2), B()]):
                    v = M.int_chain(vals, M.DTYPE_TC[dt], spec, np_range=M.DTYPE_RANGE[dt], np_name=dt)
                    if v.cls == "skip":
                        continue
                    direct, filed, _ = run_paths(arr, spec)
                    if direct is None:
                        continue
                    for res in (direct, filed):
                        if res[0] == "exc":
                            refused = True
                            if fits and v.cls == "accept":
                                bad = "explicit_type_that_holds_the_values_refused|%s" % chain_sig(spec)
                        elif as_int_list(res[1]) != vals:
                            bad = "explicit_type_altered_values|%s" % chain_sig(spec)
                        elif spec[0][0] in "DR" and res[1].dtype != np.dtype(M.TC_NAME[tc]):
                            bad = "decoded_dtype_is_not_the_explicit_src_type|%s" % chain_sig(spec)
    except Exception as ex:  # noqa: BLE001
        if want_refusal:
            refused = True
        else:
            bad = "raised_%s" % type(ex).__name__
    if bad:
        ctx.violation("operands:%s|%s|%s" % (what, bad, "second_larger" if m > n else ("second_smaller" if m < n else "same_size")),
                      "operands of different size / a value given in two places are mishandled", case)
    ctx.count("refusable" if want_refusal else "accepted")
    if refused:
        ctx.count("refused_observed")
    ctx.ev(1, 1)
    ctx.outcome(("opd", what, n, m, bad, refused))


def run_operands_shard(shard, ctx):
    for what in ("column_mask", "category_columns", "category_columns_assigned", "eq_rows", "eq_keys", "explicit_row_count"):
        for n in range(0, 4):
            for m in range(0, 4):
                operands_case(ctx, what, n, m)
    for n in range(len(INT_DTYPES)):
        for m in range(len(INT_TCS)):
            operands_case(ctx, "explicit_src_type", n, m)


# ---- ambient state -------------------------------------------------------------
AMBIENT_MODES = ["ignore", "warn", "raise", "warnings_as_errors", "printoptions"]
# unchanged tree, statement silent: with floating point errors / warnings turned into exceptions, compress() of a
# denormal raises (underflow in `tol * abs(array)`); every other listed case gives the default result in every mode
AMBIENT_MAY_RAISE = {("float_tiny", -1)}
AMBIENT_ARRAYS = {
    "int": ("int32", [70000, -1, -1, 3]),
    "uint8": ("uint8", [0, 255, 7, 7]),
    "float": ("float64", [1234.5678, 0.001, -3.0, 0.0]),
    "float32": ("float32", [1.5, -2.25, 100.125, 0.0]),
    "float_wide": ("float64", [1e-3, 3e9]),          # compress(): fixed point impossible -> ByteArray
    "float_tiny": ("float64", [5e-324, 1.0]),        # compress(): decimal places beyond the float range -> ByteArray
    "float32_wide": ("float32", [1e-30, 1234.5678]),
    "zeros": ("float64", [0.0, -0.0, 0.0]),
    "str": ("U3", ["a", "", "é b", "a"]),
}
AMBIENT_CHAINS = {"int": [[D(), R(), P(2), B()]], "uint8": [[R(), P(1), B()]], "float": [[F(1000), D(), B()], [Q(-5.0, 2000.0, 2006), B()]],
                  "float32": [[F(100), B()], [B(F64)]], "float_wide": [[B()]], "float_tiny": [[B(F64)]], "float32_wide": [[B()]],
                  "zeros": [[F(10), B()]], "str": [[REUSE_STR_SPECS["deep"]]]}


def ambient_case(ctx, key, mode, ci):
    """G: the only ambient state the anchored code depends on is numpy's floating point error handling and
    the warnings filter (no clock, cwd, environment, locale).  The harness owns both and switches them."""
    import warnings as _w

    dtype, vals = AMBIENT_ARRAYS[key]
    chain = None if ci < 0 else AMBIENT_CHAINS[key][ci]
    case = {"k": "ambient", "a": key, "mode": mode, "ci": ci}
    if not ctx.journal(case):
        return
    arr = np.array(vals, dtype=dtype)

    def run():
        return flavour_result(arr.copy(), "compress" if chain is None else chain)

    old_err = np.geterr()
    old_print = np.get_printoptions()
    try:
        np.seterr(all="ignore")
        with _w.catch_warnings():
            _w.simplefilter("ignore")
            ref = run()
        with _w.catch_warnings():
            if mode in ("ignore", "warn", "raise"):
                np.seterr(all=mode)
                _w.simplefilter("default" if mode == "warn" else "ignore")
            elif mode == "warnings_as_errors":
                np.seterr(all="warn")
                _w.simplefilter("error")
            else:
                np.set_printoptions(precision=1, threshold=2, suppress=True)
                _w.simplefilter("ignore")
            state = (np.geterr(), np.get_printoptions(), list(_w.filters))
            got = with_cpu_limit(CPU_LIMIT, run)
            got = got[1] if got[0] == "ok" else ("exc", "CpuLimit")
            left_changed = (np.geterr(), np.get_printoptions(), list(_w.filters)) != state
    finally:
        np.seterr(**old_err)
        np.set_printoptions(**old_print)
    bad = None
    if left_changed:
        bad = "call_changed_global_error_state_or_warning_filters"
    elif ref[0] == "ok" and got[0] == "ok":
        if ref[1] != got[1] or not same_array(ref[2], got[2]):
            bad = "result_depends_on_ambient_state"
    elif ref[0] == "ok" and got[0] == "exc":
        if mode in ("ignore", "printoptions", "warn"):
            bad = "raised_%s" % got[1]
        elif (key, ci) in AMBIENT_MAY_RAISE:
            ctx.count("unspecified_raises_under_strict_error_state")  # statement silent; listed in the notes
        else:
            bad = "raised_%s_under_strict_error_state" % got[1]
    elif ref[0] == "exc" and got[0] == "ok":
        bad = "refused_by_default_accepted_under_%s" % mode
    if bad:
        ctx.violation("ambient:%s|%s|%s,%s" % (mode, bad, key, "compress" if chain is None else chain_sig(chain) if key != "str" else "StringArray"),
                      "result depends on numpy's error state / warnings filter / print options", case)
    ctx.count("accepted")
    ctx.ev(1, 1)
    ctx.outcome(("amb", key, mode, ci, got[0]))


def run_ambient_shard(shard, ctx):
    for key in AMBIENT_ARRAYS:
        for mode in AMBIENT_MODES:
            for ci in range(-1, len(AMBIENT_CHAINS[key])):
                ambient_case(ctx, key, mode, ci)


# ---- ties of the quantities compress() compares ----------------------------------
TIE_TOLS = [0.0, 1e-12, 0.2, 0.5, 1.0, 10.0]
TIE_ARRAYS = [[2.5, 2.5], [0.5, 1.5], [2.5, 3.5, -2.5], [1e-3, 1.0], [0.0, 0.0], [0.0, 5.0], [-4.0, -4.0],
              [1.0, 1.0, 1.0, 1.0], [0.125, 0.375]]


def ties_case(ctx, ti, ai, dtype):
    """I: compress() selects decimal places by `error < tol * |x|` and encodings by `size < smallest`.  Values
    whose rounding error equals the tolerance exactly (round-half-even ties), all-equal / all-zero arrays,
    tolerances 0, tiny, >= 1.  Oracle: the statement (within the tolerance, zero stays zero)."""
    tol, vals = TIE_TOLS[ti], TIE_ARRAYS[ai]
    case = {"k": "ties", "ti": ti, "ai": ai, "dtype": dtype}
    if not ctx.journal(case):
        return
    arr = np.array(vals, dtype=dtype)
    r = with_cpu_limit(CPU_LIMIT, compress_roundtrip, arr, tol)
    bad = None
    if r[0] != "ok":
        bad = "did_not_terminate"
    elif r[1][0] == "exc":
        bad = "%s_raised_%s" % (r[1][1], r[1][2])
    else:
        got = r[1][1]
        ctx.count("compress_chose:" + "+".join(r[1][2]))
        if not exact_or_tol(arr, got, tol) or any(x == 0 and d != 0 for x, d in zip(arr.tolist(), got.tolist())):
            bad = "outside_tolerance"
    if bad:
        ctx.violation("ties:compress|%s|tol_%s,%s" % (bad, "zero" if tol == 0 else ("ge_1" if tol >= 1 else "lt_1"), dtype),
                      "compress() at a boundary of its selection rules", case,
                      observed=None if r[0] != "ok" or r[1][0] == "exc" else repr(r[1][1])[:100])
    ctx.count("accepted")
    ctx.ev(1, 1)
    ctx.outcome(("tie", ti, ai, dtype, r[1][2:] if r[0] == "ok" and r[1][0] == "ok" else bad))


def run_ties_shard(shard, ctx):
    for ti in range(len(TIE_TOLS)):
        for ai in range(len(TIE_ARRAYS)):
            for dtype in ("float64", "float32"):
                ties_case(ctx, ti, ai, dtype)


def audit3_replay(case, ctx):
    k = case["k"]
    if k == "operands":
        return operands_case(ctx, case["what"], case["n"], case["m"])
    if k == "ambient":
        return ambient_case(ctx, case["a"], case["mode"], case["ci"])
    return ties_case(ctx, case["ti"], case["ai"], case["dtype"])


# ---------------------------------------------------------------------------
# an option crossed with the nesting level at which compress() is applied
# ---------------------------------------------------------------------------
LEVEL_TOLS = [1e-9, 1e-6, 1e-3, 1e-1]
LEVEL_ARRAYS = {
    "nine_digits": ("float64", [1.23456789, 123.456789, 0.000123456789, 98765.4321]),   # default 1e-6 loses digits
    "three_digits": ("float64", [1.5, 0.25, 1234.5, -3.0]),
    "percent": ("float64", [1.234, 5.678, 9.1011, 12.1314, 15.1617]),                   # 1e-1 / 1e-3 may use fewer bytes
    "float32": ("float32", [1.2345678, 2.5, 1000.125, 0.333333]),
    "long_ramp": ("float64", [0.123456789 * (i + 1) for i in range(40)]),
    "ints": ("int32", [3, -1, 70000, 3]),
}


def levels_case(ctx, key, tol, level, twice):
    """compress(x, float_tolerance=tol) applied at data / column / category / block / file level must treat every
    contained column exactly as compress(column_data, float_tolerance=tol) does (same encodings, same decoded
    values), and the statement's law holds against the REQUESTED tolerance."""
    case = {"k": "levels", "a": key, "tol": tol, "level": level, "twice": twice}
    if not ctx.journal(case):
        return
    env = _enc()
    pdbx = env["pdbx"]
    dtype, vals = LEVEL_ARRAYS[key]
    arr = np.array(vals, dtype=dtype)
    other = np.array([x * 1.000000123 for x in LEVEL_ARRAYS["nine_digits"][1]])

    def build_():
        d = pdbx.BinaryCIFData(arr.copy())
        col = pdbx.BinaryCIFColumn(d, pdbx.BinaryCIFData(np.array([i % 3 for i in range(len(arr))], dtype=np.uint8)))
        cat = pdbx.BinaryCIFCategory({"x": col, "n": np.arange(len(arr), dtype=np.int32)})
        blk = pdbx.BinaryCIFBlock({"c": cat, "c2": pdbx.BinaryCIFCategory({"o": other.copy()})})
        return pdbx.BinaryCIFFile({"b": blk})

    def trip(d):
        packed = env["msgpack"].packb(d.serialize(), use_bin_type=True, default=env["encode_numpy"])
        back = pdbx.BinaryCIFData.deserialize(env["msgpack"].unpackb(packed, use_list=True, raw=False))
        return back.array, [type(e).__name__ for e in d.encoding], [getattr(e, "factor", None) for e in d.encoding]

    bad = None
    try:
        f = build_()
        if twice:
            f = pdbx.compress(f)  # operand that has been compressed before (default tolerance)
        ref_x = trip(pdbx.compress(pdbx.BinaryCIFData(arr.copy()), float_tolerance=tol))
        ref_o = trip(pdbx.compress(pdbx.BinaryCIFData(other.copy()), float_tolerance=tol))
        op = {"file": f, "block": f["b"], "category": f["b"]["c"], "column": f["b"]["c"]["x"],
              "data": f["b"]["c"]["x"].data}[level]
        res = pdbx.compress(op, float_tolerance=tol)
        got_x = {"file": lambda r: r["b"]["c"]["x"].data, "block": lambda r: r["c"]["x"].data,
                 "category": lambda r: r["x"].data, "column": lambda r: r.data, "data": lambda r: r}[level](res)
        gx = trip(got_x)
        pairs = [("x", ref_x, gx, arr)]
        if level in ("file", "block"):
            go = trip(res["b"]["c2"]["o"].data if level == "file" else res["c2"]["o"].data)
            pairs.append(("o", ref_o, go, other))
        for name, ref, got, src in pairs:
            if not same_array(ref[0], got[0]) or ref[1] != got[1] or ref[2] != got[2]:
                bad = "differs_from_compress_of_the_column_alone"
                obs = {"column": name, "alone": [ref[1], ref[2], repr(ref[0][:3])], "nested": [got[1], got[2], repr(got[0][:3])]}
                break
            if not exact_or_tol(src, got[0], tol):
                bad = "outside_requested_tolerance"
                obs = {"column": name, "decoded": repr(got[0][:4])}
                break
    except Exception as ex:  # noqa: BLE001
        bad, obs = "raised_%s" % type(ex).__name__, str(ex)[:120]
    if bad:
        tcls = "default_tolerance" if tol == 1e-6 else ("stricter_than_default" if tol < 1e-6 else "looser_than_default")
        ctx.violation("levels:compress|%s|%s,%s" % (bad, level, tcls),
                      "float_tolerance is not applied at this nesting level as it is to the column alone", case, observed=obs)
    ctx.count("accepted")
    ctx.ev(1, 1)
    ctx.outcome(("lvl", key, tol, level, twice, bad))


def run_levels_shard(shard, ctx):
    for key in LEVEL_ARRAYS:
        for tol in LEVEL_TOLS:
            for level in IDENTITY_LEVELS:
                for twice in (False, True):
                    levels_case(ctx, key, tol, level, twice)


# ---------------------------------------------------------------------------
# contract
# ---------------------------------------------------------------------------
def bounds(tier):
    q = tier == "quick"
    return {
        "int_dtypes": INT_DTYPES,
        "int_palette_sizes_full": {d: len(full_palette(d)) for d in INT_DTYPES},
        "ba_array_len": "0..3" if q else "0..4 (int64: full 0..3 + core 4)",
        "single_array_len": "full 0..2, core 3, patterns 4" if q else "full 0..3, core 4, patterns 5-6",
        "single_stage_variants": "8 symbols x 7 ByteArray types + %d explicit-parameter variants"
        % len(single_variants(1, 0, "int32")),
        "chain_len": "2..3" if q else "2..4",
        "chain_arrays": "2-stage chains: core 0..2, patterns 3-4; 3-stage chains: core 0..2" if q else
        "2/3-stage chains: core 0..2, patterns 3-5; 4-stage chains: core 0..2",
        "fixed_factors": FACTORS,
        "fixed_array_len": "palette(19) 0..2, core(6) 3" if q else "palette(19) 0..3, core(6) 4",
        "fixed_tail_len": "<=1 (+ length 2 for factor 1000, src_type auto)" if q else
        "<=1 on all arrays; length 2 on palette 0..2 + core 3",
        "iq_settings": IQ_SETTINGS,
        "iq_array_len": "0..2" if q else "0..2 + 9-value sub-palette 3",
        "floatba_array_len": "0..2" if q else "0..3",
        "string_array_len": "0..4" if q else "0..5",
        "string_chain_pairs": "all %d pairs below the longest length, the 8 diagonal pairs at the longest"
        % len(STR_CHAINS) ** 2,
        "compress_int_len": "0..3" if q else "0..4 (int64: full 0..3 + core 4)",
        "compress_float_len": "0..3" if q else "0..4",
        "compress_tolerances": TOLS,
        "file_rows": "0..3" if q else "0..4",
        "pack_cap": M.PACK_CAP,
        "reuse_arrays": {"int": len(REUSE_INT), "float": len(REUSE_FLOAT), "str": len(REUSE_STR)},
        "reuse_chains": {"int": len(REUSE_INT_CHAINS), "float": len(REUSE_FLOAT_CHAINS), "str": len(REUSE_STR_SPECS),
                         "plus": "encoding list returned by compress()"},
        "reuse_container_variants": CONTAINER_VARIANTS,
        "alias_ops": ALIAS_OPS,
        "flavours": FLAVOURS,
        "size_sweep_lengths": "2..40 + %r" % (SWEEP_EDGES,),
        "size_patterns": SIZE_PATTERNS,
        "lazy_actions": LAZY_ACTIONS,
        "lazy_perturbations": LAZY_PERTURBATIONS,
    }


def shards(tier, seed):
    q = tier == "quick"
    out = []

    def add(n, **kw):
        for p in range(n):
            out.append({**kw, "part": p, "parts": n})

    weight_ba = {"int64": 8, "uint64": 2, "int32": 3, "uint32": 2}
    weight_single = {"int64": 6, "uint64": 3, "int32": 4, "uint32": 3, "int16": 3, "uint16": 2}
    # heaviest groups first
    for d in INT_DTYPES:
        add(6 if q else 32, s="int", g="chain", dtype=d)
    for d in INT_DTYPES:
        add(weight_single.get(d, 1) * (1 if q else 8), s="int", g="single", dtype=d)
    for d in INT_DTYPES:
        add(weight_ba.get(d, 1) * (1 if q else 8), s="int", g="ba", dtype=d)
    for d in ("int32", "int64", "uint32"):
        add(4 if q else 8, s="int", g="ipbig", dtype=d)
    add(8 if q else 32, s="string")
    for d in ("float32", "float64"):
        for f in FACTORS:
            add(2 if q else 16, s="float", g="fixed", dtype=d, factor=f)
        for i in range(len(IQ_SETTINGS)):
            add(1 if q else 6, s="float", g="iq", dtype=d, setting=i)
        add(1 if q else 4, s="float", g="floatba", dtype=d)
        add(2 if q else 16, s="compress", kind="float", dtype=d)
        add(2 if q else 4, s="compress", kind="range", dtype=d)
    for d in INT_DTYPES:
        add({"int64": 3, "int32": 2}.get(d, 1) * (1 if q else 6), s="compress", kind="int", dtype=d)
    add(1 if q else 6, s="compress", kind="str", dtype="str")
    add(2, s="compress", kind="long", dtype="all")
    for dn in COL_DATA:
        for lv in LEVELS:
            out.append({"s": "file", "data": dn, "level": lv})
    add(2 if q else 8, s="shape")
    for kind in ("int", "float", "str"):
        add(4 if kind == "int" else 2, s="reuse", kind=kind)
        out.append({"s": "alias", "kind": kind})
        out.append({"s": "flavour", "kind": kind})
    add(8, s="sizes")
    add(2, s="lazy")
    out.append({"s": "identity"})
    out.append({"s": "values"})
    out.append({"s": "operands"})
    out.append({"s": "ambient"})
    out.append({"s": "ties"})
    out.append({"s": "levels"})
    for kind in ("int", "float", "str"):
        out.append({"s": "derived", "kind": kind})
    # the seed rotates the processing order inside the leading (integer) block only
    n_int = sum(1 for x in out if x["s"] == "int")
    k = seed % n_int
    return out[k:n_int] + out[:k] + out[n_int:]


def run_shard(shard, ctx):
    import time

    _enc()
    t0 = time.process_time()
    try:
        _run_shard(shard, ctx)
    finally:
        # CPU time, not wall time: the box is shared
        ctx.count("cpu_ms_" + (shard.get("g") or shard["s"]), int((time.process_time() - t0) * 1000))


def _run_shard(shard, ctx):
    s = shard["s"]
    if s == "int":
        run_int_shard(shard, ctx)
    elif s == "float":
        run_float_shard(shard, ctx)
    elif s == "string":
        run_string_shard(shard, ctx)
    elif s == "compress":
        run_compress_shard(shard, ctx)
    elif s == "file":
        run_file_shard(shard, ctx)
    elif s == "shape":
        run_shape_shard(shard, ctx)
    elif s == "reuse":
        run_reuse_shard(shard, ctx)
    elif s == "alias":
        run_alias_shard(shard, ctx)
    elif s == "flavour":
        run_flavour_shard(shard, ctx)
    elif s == "sizes":
        run_sizes_shard(shard, ctx)
    elif s == "lazy":
        run_lazy_shard(shard, ctx)
    elif s == "identity":
        run_identity_shard(shard, ctx)
    elif s == "operands":
        run_operands_shard(shard, ctx)
    elif s == "ambient":
        run_ambient_shard(shard, ctx)
    elif s == "ties":
        run_ties_shard(shard, ctx)
    elif s == "levels":
        run_levels_shard(shard, ctx)
    elif s == "values":
        run_values_shard(shard, ctx)
    elif s == "derived":
        run_derived_shard(shard, ctx)
    else:
        raise ValueError(shard)


def replay(case, ctx):
    _enc()
    if isinstance(case, str):
        case = json.loads(case)
    k = case["k"]
    if k == "int":
        int_case(ctx, case["dtype"], case["vals"], case["chain"], case.get("g", "replay"),
                 allow_big=case.get("g") == "ipbig")
    elif k == "float":
        float_case(ctx, case["dtype"], dec_floats(case["vals"]), case["chain"], case.get("g", "replay"))
    elif k == "floatba":
        floatba_case(ctx, case["dtype"], dec_floats(case["vals"]), case["chain"][0][1].get("type"))
    elif k == "str":
        string_case(ctx, case["strs"], case["table"], case["data"], case["offset"], string_palette(ctx.seed))
    elif k == "compress":
        vals = dec_floats(case["vals"]) if case["kind"] == "float" else case["vals"]
        compress_case(ctx, case["kind"], case["dtype"], vals, case["tol"], listed=True)
    elif k == "file":
        file_case(ctx, case["data"], case["n"], case["mask"], case["menc"], case["level"], case["compress"])
    elif k == "shape":
        shapes_case(ctx, case["shape"])
    elif k == "reuse":
        reuse_replay(case, ctx)
    elif k in ("alias", "flavour", "sizes", "lazy"):
        audit_replay(case, ctx)
    elif k in ("identity", "values", "derived"):
        audit2_replay(case, ctx)
    elif k in ("operands", "ambient", "ties"):
        audit3_replay(case, ctx)
    elif k == "levels":
        levels_case(ctx, case["a"], case["tol"], case["level"], case["twice"])
    else:
        raise ValueError(case)


def crash_class(case):
    if isinstance(case, dict):
        k = case.get("k")
        if k in ("int", "float", "floatba"):
            return "%s|%s" % (k, chain_sig(case.get("chain", [])))
        if k == "compress":
            return "compress|%s" % case.get("kind")
        return str(k)
    return "unclassified"
