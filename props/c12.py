"""C12 - sequence file formats return what was written.

E2 (inputs): every case of the listed finite spaces of FASTA entries, FASTQ reads with
quality scores, GenBank / GenPept annotated sequences and GFF3 entries / annotations is
written with the real writer, the *text* is parsed again from scratch with the real reader
and the parsed content is compared with what went in (the reference "model" of a round
trip is the input itself, normalised only where the format documentation says so).

E1 (histories): the four file classes are edited through their mapping / list interface;
after every edit the live view must equal a plain dict / list model AND the view obtained
by writing the file and parsing the text again (state reached by edits vs. state reached by
parsing).  The state spaces are explored breadth first; states are merged on the complete
implementation state (text lines + index structures), so merging is sound.
"""

import io
import itertools
import json
import warnings

ID = "C12"
LEVEL = "model_checking"
EXHAUSTIVE = True
SHARD_TIMEOUT = {"quick": 600, "thorough": 2400}

RULE = (
    "inputs: each family is a product / sum of explicitly listed finite generators and every generated case is executed "
    "once (write with the real writer, parse the text from scratch, compare with the input). fasta: headers = all strings "
    "of length <= 2 over {letter, space, '>', ';', '|', tab} + 5 long ones; sequences = all DNA strings up to the stated "
    "length, all strings of length <= 3 over the IUPAC / protein(+'*') letter palettes, lengths chars_per_line-1..+1 and "
    "multiples; chars_per_line {1,3,80}; ordered multi-entry files. fastq: every score tuple of the stated length over the "
    "complete printable range 33..126 of the offset (so '@' and '+' occur at every line start), widths {None,1,2}, every "
    "offset name + two integer offsets, multi-entry files over the boundary scores, identifier palette, empty reads. "
    "genbank: every location atom (3 single bases + 3 ranges over the position palette) x strand x every defect "
    "combination, all unordered pairs of expressible atoms, triples over a reduced palette, qualifier sets over the value "
    "palette, feature pairs, ORIGIN lengths x start x alphabets, GenPept, LOCUS. gff: every combination of score / strand / "
    "phase, all attribute keys / values of length <= 2 over {a ; = % , space tab e-acute &}, seqid / source / type palettes, "
    "multi-entry files, annotations with ID-grouped locations. A case is non-trivial when it carries at least one deviation "
    "from the plain default (special character, wrap, boundary score, reverse strand, defect, join, qualifier beyond a "
    "plain word, start != 1, optional column present) and a parsed result was compared. A failing composite case is "
    "attributed to the failing single-atom case it contains. histories: BFS over the listed edit alphabet from every "
    "initial file (empty and parsed-from-text) until no new state appears or the depth bound is hit; states merged on "
    "(text lines, index structures of the real object); every (state, operation) pair is executed on a fresh replay; "
    "after each edit: live view == model, parse(write()) == model; non-trivial = the edit changed the model."
)
ASSUMPTIONS = [
    "headers / identifiers with leading or trailing whitespace or a line break are normalised by the writers (strip); the "
    "oracle accepts the stripped or the exact string after parsing but demands that the live key equals the parsed key",
    "replacing an existing FASTA/FASTQ key may keep the position (dict) or move the entry to the end (documented code "
    "comment); both orders are accepted, every other key keeps its relative order",
    "an empty FASTA/FASTQ file (no entries) may be refused by the reader (InvalidFileError) - statement silent (EITHER)",
    "location defects MISS_LEFT / MISS_RIGHT, BETWEEN on a single base and UNK_LOC+BETWEEN cannot be expressed in GenBank: "
    "the inexpressible bits may be dropped or the call may raise (EITHER); GFF3 expresses no defect: all are dropped",
    "a single-base location with UNK_LOC is treated as expressible ('5.5'), as DESIGN.md lists it as a suspect",
    "locations of a feature are a frozenset in biotite: order of joined locations is not part of the oracle",
    "GenBank field names are upper case and <= 11 characters, feature keys <= 15 characters (format columns)",
    "GenBank LOCUS metadata is not named by the statement: exact value or clean exception (EITHER)",
    "symbol recovery is compared as sequence class + symbol string (alphabet choice ambiguous/unambiguous follows the "
    "constructor); FASTA type guessing follows the documented rule (nucleotide if it fits, else protein)",
    "GFF3: seqid / source / type are stripped by the writer (accepted); None for seqid/source is outside the documented types",
    "GFF3 type (feature key) containing '%', a tab or a line break is not named by the statement: exception or any "
    "self-consistent behaviour (live view == parsed view) is accepted; counted as unspecified_gff_type_*",
    "GenBankFile edits with an index below -len and fields with an empty content list are not named by the statement: "
    "they are executed at every state and their outcome is only counted (outside_statement_*), nothing is demanded",
    "File.copy() is not an editing operation of the statement and is not explored",
    "the FASTQ score container type (list / int64 / int8 / int16|uint8 array) cycles with the case index",
]

LETTERS = ["a", "x", "Z", "7", "q"]
POS_PALETTES = [[1, 5, 9], [2, 3, 10], [1, 2, 3], [7, 8, 100], [1, 10, 11]]
INT_OFFSETS = [(33, 64), (0, 50), (35, 59), (40, 31), (20, 64)]
OFFSET_NAMES = {"Sanger": 33, "Solexa": 64, "Illumina-1.3": 64, "Illumina-1.5": 64, "Illumina-1.8": 33}
CPLS = [1, 3, 80]
WIDTHS = [None, 1, 2]

# defect bits (public enum values of Location.Defect, documented order)
MISS_L, MISS_R, BEY_L, BEY_R, UNK, BETW = 1, 2, 4, 8, 16, 32
DEFECT_NAMES = [(MISS_L, "MISS_LEFT"), (MISS_R, "MISS_RIGHT"), (BEY_L, "BEYOND_LEFT"), (BEY_R, "BEYOND_RIGHT"),
                (UNK, "UNK_LOC"), (BETW, "BETWEEN")]


def defect_name(d):
    if d == 0:
        return "NONE"
    return "+".join(n for bit, n in DEFECT_NAMES if d & bit)


def bounds(tier):
    q = tier == "quick"
    return {
        "fasta_dna_max_len": 5 if q else 6,
        "fasta_headers": 51,
        "fasta_chars_per_line": CPLS,
        "fastq_complete_score_tuples": "length <= 2 for all 7 offsets x 3 widths; length 3 for offset 64 at width 1; lengths 4-5 over the 4 boundary scores" if q
        else "length <= 3 for offsets 33 and 64 and all widths, length <= 2 for all 7 offsets",
        "fastq_widths": ["None", 1, 2, "3 and 80 for reads of length 1..7, 79..81, 159..161, 240"],
        "genbank_positions": "3 positions from the seed palette; atoms: 3 single + 3 ranges x 2 strands x 8/12 defect sets",
        "genbank_locations_per_feature": "1 (all atoms), 2 (all unordered pairs of expressible atoms), 3 (%s)"
        % ("8 options per location" if q else "all expressible atoms on 3 distinct bases"),
        "genbank_features": "0..3 per annotation (pairs of a 14-feature palette, triples of its first 8)",
        "gff_attr_string_len": 2,
        "history_depth": "to fixpoint, cap %d" % (6 if q else 8),
        "audit_families": {
            "sizes": "ORIGIN lengths 19..181 at every 10/60 boundary x 17 starts (line numbers crossing 10^k), 10021 bases; "
                     "qualifier lines ending at columns 70..82, 100, 180; feature keys 13-15 (16 counted); field names 10-12, "
                     "sub-field names 8-10; FASTA/FASTQ lengths k*width-1..+1 for widths 1,2,3,7,60,80",
            "many": "9,10,11,99,100,101,%s entries / features / locations / qualifiers / qualifier lines / GFF rows / "
                    "attributes / GenBank fields (>256 lines, edits at first, second, middle, last, -1, -n)" % (257 if q else 1000),
            "flavours": "FASTQ scores: 8 integer dtypes x {contiguous, strided, reversed view, read-only, list, tuple, list of "
                        "numpy scalars} x 5 offset flavours x 4 score sets x widths {None,2}; float32/64 counted; numpy ints in "
                        "GFF columns, Location, sequence_start",
            "alias_reuse": "13 APIs x 3 variants (argument unchanged, file independent of argument and of returned object); "
                           "4 formats x 6x6 (content X then content Y == fresh object with Y)",
            "order": "all permutations of 5 location sets, 4 qualifiers, 3 feature sets, 4 GFF features",
        },
        "history_max_entries": {"fasta": 4, "fastq": "3" if q else "4 (offset Sanger, empty initial file), 3 (others)",
                                "genbank": 4 if q else 5, "gff": "3" if q else "4 (no added directive), 3 (with one)"},
        "history_value_alphabets": "fasta 4 keys x 3 values (4 values at chars_per_line 3, thorough); fastq 3-4 keys x 4 "
                                   "values; genbank 2-5 field values; gff 3 entries + 2 directives",
    }


# ---------------------------------------------------------------------------
# lazy biotite namespace
# ---------------------------------------------------------------------------
_B = None


class _NS:
    pass


def B():
    global _B
    if _B is None:
        import numpy as np
        import biotite.sequence as seq
        import biotite.sequence.io.fasta as fasta
        import biotite.sequence.io.fastq as fastq
        import biotite.sequence.io.genbank as gb
        import biotite.sequence.io.gff as gff
        from biotite.file import InvalidFileError
        from biotite.sequence.annotation import AnnotatedSequence, Annotation, Feature, Location

        b = _NS()
        b.np, b.seq, b.fasta, b.fastq, b.gb, b.gff = np, seq, fasta, fastq, gb, gff
        b.InvalidFileError = InvalidFileError
        b.AnnotatedSequence, b.Annotation, b.Feature, b.Location = AnnotatedSequence, Annotation, Feature, Location
        b.FWD, b.REV = Location.Strand.FORWARD, Location.Strand.REVERSE
        b.nuc_letters = set(str(s) for s in seq.NucleotideSequence.alphabet_amb.get_symbols())
        _B = b
    return _B


def text_of(f):
    s = io.StringIO()
    f.write(s)
    return s.getvalue()


def exc_name(e):
    return type(e).__name__


def strings_upto(alphabet, n, minlen=0):
    for k in range(minlen, n + 1):
        for t in itertools.product(alphabet, repeat=k):
            yield "".join(t)


def norm_header(h):
    return h.replace("\n", "").strip()


def header_class(h):
    return "plain" if norm_header(h) == h else "outer_whitespace"


# ===========================================================================
# FASTA (E2)
# ===========================================================================
def fasta_headers(seed):
    L = LETTERS[seed % 5]
    hs = list(strings_upto([L, " ", ">", ";", "|", "\t"], 2))
    hs += ["sp|P12345|NAME_HUMAN Some protein OS=Homo sapiens OX=9606", L * 200, L + "  b   c",
           "gi|123|ref|NC_000001.1| Homo sapiens chromosome 1, complete", ">>>;;;|||", L + "\n" + L, "\n" + L,
           L + "\n"]
    return hs


IUPAC_PAL = ["NRY", "WSM", "KHB", "VDN", "RYK"]
PROT_PAL = ["L*X", "KW*", "BZ*", "FP*", "MQ*"]


def fasta_seqs(tier, seed):
    """(seq string, kind) with kind in dna / iupac / prot."""
    maxlen = 5 if tier == "quick" else 6
    out = [(s, "dna") for s in strings_upto("ACGT", maxlen)]
    out += [(s, "iupac") for s in strings_upto(IUPAC_PAL[seed % 5] + "A", 3, 1)]
    out += [(s, "prot") for s in strings_upto(PROT_PAL[seed % 5] + "A", 3, 1)]
    for n in (79, 80, 81, 159, 160, 161, 240):
        out.append((("ACGT" * 70)[:n], "dna"))
        out.append((((IUPAC_PAL[seed % 5] + "ACGT") * 40)[:n], "iupac"))
        out.append((((PROT_PAL[seed % 5] + "ACDEFGHIK") * 30)[:n], "prot"))
    return out


def gen_fasta(tier, seed):
    hs = fasta_headers(seed)
    seqs = fasta_seqs(tier, seed)
    L = LETTERS[seed % 5]
    small = [("", "dna"), ("A", "dna"), ("ACGT", "dna"), ("ACGTACG", "dna"), ("L*", "prot"), ("NNRY", "iupac")]
    for cpl in CPLS:
        for h in hs:
            for s, k in small:
                yield {"kind": "fasta", "h": h, "s": s, "t": k, "cpl": cpl}
        for s, k in seqs:
            yield {"kind": "fasta", "h": L + "1", "s": s, "t": k, "cpl": cpl}
    # ordered multi-entry files
    pal = [(L, "ACGT"), ("b", ""), (L + "b", "ACGTACG"), (L + " b", "A"), (">" + L, "L*K"), ("|;", "NNN"), ("e2", "")]
    for cpl in CPLS:
        for k in (2, 3):
            for ents in itertools.permutations(pal, k):
                yield {"kind": "fasta_multi", "ents": [list(e) for e in ents], "cpl": cpl}


def seq_object(b, s, kind):
    if kind == "prot":
        return b.seq.ProteinSequence(s)
    return b.seq.NucleotideSequence(s)


def guessed(b, s):
    """Documented guessing rule of fasta.get_sequence: nucleotide if the string fits, else protein."""
    up = s.upper().replace("U", "T").replace("X", "N")
    if all(c in b.nuc_letters for c in up):
        return ("NucleotideSequence", up)
    return ("ProteinSequence", s.upper().replace("U", "C").replace("O", "K"))


def check_fasta(case, ctx):
    b = B()
    FastaFile = b.fasta.FastaFile
    h, s, cpl, kind = case["h"], case["s"], case["cpl"], case["t"]
    hc = header_class(h)
    nh = norm_header(h)
    plainword = h.isalnum()
    ctx.ev(1, 0 if (plainword and 0 < len(s) <= cpl) else 1)
    ctx.count("accepted" if hc == "plain" else "unspecified")
    site = "fasta|roundtrip"
    try:
        f = FastaFile(chars_per_line=cpl)
        f[h] = s
        live = [(k, v) for k, v in f.items()]
        text = text_of(f)
    except Exception as e:  # noqa: BLE001
        ctx.violation("%s|write_%s|header_%s" % (site, exc_name(e), hc), "writing a FASTA entry raised", case, "success",
                      repr(e))
        return
    try:
        g = FastaFile.read(io.StringIO(text), chars_per_line=cpl)
        parsed = [(k, v) for k, v in g.items()]
        it = list(FastaFile.read_iter(io.StringIO(text)))
    except Exception as e:  # noqa: BLE001
        ctx.violation("%s|parse_%s|header_%s" % (site, exc_name(e), hc), "written FASTA text cannot be parsed", case,
                      [[nh, s]], repr(e))
        return
    ctx.outcome(("fasta", text))
    ok_h = [h] if hc == "plain" else [h, nh]
    if len(parsed) != 1 or parsed[0][0] not in ok_h or parsed[0][1] != s:
        what = "header" if (len(parsed) == 1 and parsed[0][1] == s) else "sequence"
        ctx.violation("%s|%s_changed|header_%s" % (site, what, hc), "parsed FASTA entry differs from the written one", case,
                      [[ok_h[-1], s]], parsed)
        return
    if it != parsed:
        ctx.violation("%s|read_iter_differs|header_%s" % (site, hc), "read_iter and read disagree", case, parsed, it)
    if live != parsed:
        ctx.violation("fasta|setitem|live_view_differs_from_parsed|header_%s" % hc,
                      "key of the live FastaFile differs from the key obtained by parsing its text", case, parsed, live)
    # layout: documented wrapping
    lines = text.split("\n")
    if text[-1:] != "\n" or any(len(x) > cpl for x in lines[1:-1]) or "".join(lines[1:-1]) != s:
        ctx.violation("%s|layout|wrap" % site, "sequence lines exceed chars_per_line or do not concatenate to the sequence",
                      case, "lines <= %d" % cpl, lines[1:4])
    # streaming writer gives the same text
    w = io.StringIO()
    try:
        FastaFile.write_iter(w, [(h, s)], chars_per_line=cpl)
        wl = w.getvalue().split("\n")
        back = list(FastaFile.read(io.StringIO(w.getvalue()), chars_per_line=cpl).items())
        if back != parsed or any(len(x) > cpl for x in wl[1:-1]):
            ctx.violation("%s|write_iter_differs|header_%s" % (site, hc), "entry written by write_iter is not recovered", case,
                          parsed, [back, w.getvalue()[:200]])
    except Exception as e:  # noqa: BLE001
        ctx.violation("%s|write_iter_%s|header_%s" % (site, exc_name(e), hc), "write_iter raised", case, text[:200], repr(e))
    if hc != "plain":
        return
    # typed level
    try:
        so = seq_object(b, s, kind)
        f2 = FastaFile(chars_per_line=cpl)
        b.fasta.set_sequence(f2, so, header=h)
        t2 = text_of(f2)
        g2 = FastaFile.read(io.StringIO(t2), chars_per_line=cpl)
        r = b.fasta.get_sequence(g2, header=h, seq_type=type(so))
        rfirst = b.fasta.get_sequence(g2, seq_type=type(so))
        with warnings.catch_warnings():
            warnings.simplefilter("ignore")
            rg = b.fasta.get_sequence(g2, header=h)
        rall = b.fasta.get_sequences(g2, seq_type=type(so))
        res = [type(r).__name__, str(r)], [type(rfirst).__name__, str(rfirst)], [type(rg).__name__, str(rg)], \
            [[k, type(v).__name__, str(v)] for k, v in rall.items()]
    except Exception as e:  # noqa: BLE001
        ctx.violation("fasta|typed|%s|%s" % (exc_name(e), kind), "typed FASTA round trip raised", case, s, repr(e))
        return
    tn = type(so).__name__
    exp = [tn, str(so)], [tn, str(so)], list(guessed(b, s)), [[h, tn, str(so)]]
    if list(res) != list(exp):
        ctx.violation("fasta|typed|symbols_changed|%s" % kind, "sequence recovered from FASTA differs", case, exp, res)
    if kind != "prot" and "T" in s:
        try:
            f3 = FastaFile(chars_per_line=cpl)
            b.fasta.set_sequence(f3, so, header=h, as_rna=True)
            t3 = text_of(f3)
            r3 = b.fasta.get_sequence(FastaFile.read(io.StringIO(t3)), header=h)
            if str(r3) != s or "T" in t3.split("\n", 1)[1]:
                ctx.violation("fasta|typed|symbols_changed|as_rna", "as_rna round trip differs", case, s, [str(r3), t3[:80]])
        except Exception as e:  # noqa: BLE001
            ctx.violation("fasta|typed|%s|as_rna" % exc_name(e), "as_rna round trip raised", case, s, repr(e))


def check_fasta_multi(case, ctx):
    b = B()
    FastaFile = b.fasta.FastaFile
    ents, cpl = [tuple(e) for e in case["ents"]], case["cpl"]
    ctx.ev(1, 1)
    ctx.count("accepted")
    try:
        f = FastaFile(chars_per_line=cpl)
        for h, s in ents:
            f[h] = s
        live = list(f.items())
        text = text_of(f)
        parsed = list(FastaFile.read(io.StringIO(text), chars_per_line=cpl).items())
        it = list(FastaFile.read_iter(io.StringIO(text)))
        w = io.StringIO()
        FastaFile.write_iter(w, ents, chars_per_line=cpl)
    except Exception as e:  # noqa: BLE001
        ctx.violation("fasta|multi|%s" % exc_name(e), "multi-entry FASTA round trip raised", case, ents, repr(e))
        return
    ctx.outcome(("fasta", text))
    for name, got in (("live", live), ("parsed", parsed), ("read_iter", it)):
        if got != ents:
            ctx.violation("fasta|multi|%s_differs" % name, "entries / order of a multi-entry FASTA file differ", case, ents, got)
            return
    try:
        back = list(FastaFile.read(io.StringIO(w.getvalue()), chars_per_line=cpl).items())
    except Exception as e:  # noqa: BLE001
        back = repr(e)
    if back != ents:
        ctx.violation("fasta|multi|write_iter_differs", "entries written by write_iter are not recovered", case, ents,
                      [back, w.getvalue()[:300]])
    # typed dictionary level, one type per file
    try:
        d = {h: b.seq.ProteinSequence(s) for h, s in ents}
        f2 = FastaFile(chars_per_line=cpl)
        b.fasta.set_sequences(f2, d)
        g2 = FastaFile.read(io.StringIO(text_of(f2)), chars_per_line=cpl)
        r = [(k, str(v)) for k, v in b.fasta.get_sequences(g2, seq_type=b.seq.ProteinSequence).items()]
    except Exception as e:  # noqa: BLE001
        ctx.violation("fasta|multi_typed|%s" % exc_name(e), "set_sequences/get_sequences raised", case, ents, repr(e))
        return
    if r != ents:
        ctx.violation("fasta|multi_typed|differs", "set_sequences/get_sequences round trip differs", case, ents, r)


# ===========================================================================
# FASTQ (E2)
# ===========================================================================
def offset_value(o):
    return OFFSET_NAMES[o] if isinstance(o, str) else o


def fastq_offsets(seed):
    return list(OFFSET_NAMES) + list(INT_OFFSETS[seed % 5])


def score_container(b, scores, idx):
    np = b.np
    k = idx % 4
    if k == 0:
        return list(scores)
    if k == 1:
        return np.array(scores, dtype=np.int64)
    if k == 2:
        return np.array(scores, dtype=np.int8)
    return np.array(scores, dtype=np.uint8 if all(x >= 0 for x in scores) else np.int16)


SEQ_LET = "ACGTN"


def fastq_blocks(tier, seed):
    """Blocks of the complete score-tuple enumeration: (offset, width, n, fixed first char or None)."""
    out = []
    offs = fastq_offsets(seed)
    for o in offs:
        for w in WIDTHS:
            out.append({"o": o, "w": w, "n": 2})
    if tier == "quick":
        # length 3 complete for offset 64 (negative scores occur) at width 1 (every score at a line start); the
        # other offset / widths are complete for length 3 at the thorough tier
        for o, w in ((offs[1], 1),):
            for c0 in range(33, 127, 6):
                out.append({"o": o, "w": w, "n": 3, "c0": [c0, min(c0 + 6, 127)]})
    else:
        for o in (offs[0], offs[1]):
            for w in WIDTHS:
                for c0 in range(33, 127, 6):
                    out.append({"o": o, "w": w, "n": 3, "c0": [c0, min(c0 + 6, 127)]})
    return out


def run_fastq_block(blk, ctx):
    o, w, n = blk["o"], blk["w"], blk["n"]
    ov = offset_value(o)
    idx = 0
    ctx.journal(json.dumps({"kind": "fastq_block", **blk}))
    ctx.count("cases_fastq_complete_len%s" % ("1-2" if n == 2 else "3"), (94 + 94 * 94) if n == 2 else (blk["c0"][1] - blk["c0"][0]) * 94 * 94)
    if n == 2:
        for k in (1, 2):
            for chars in itertools.product(range(33, 127), repeat=k):
                idx += 1
                guarded(check_fastq, {"kind": "fastq", "o": o, "w": w, "id": "r", "seq": SEQ_LET[:k],
                                      "sc": [c - ov for c in chars], "ci": idx}, ctx)
    else:
        lo, hi = blk["c0"]
        for c0 in range(lo, hi):
            for c1 in range(33, 127):
                for c2 in range(33, 127):
                    idx += 1
                    check_fastq({"kind": "fastq", "o": o, "w": w, "id": "r", "seq": "ACG",
                                 "sc": [c0 - ov, c1 - ov, c2 - ov], "ci": idx}, ctx, fast=True)


def gen_fastq_misc(tier, seed):
    L = LETTERS[seed % 5]
    offs = fastq_offsets(seed)
    ids = [L, L + " b", "@" + L, "+", L + "@", "", "+" + L, L + ":1:2/1", "@", "@@", " " + L, L + " ", L + "\t", "\n" + L,
           "SRR001666.1 071112_SLXA-EAS1_s_7:5:1:817:345 length=36"]
    for o in (offs[0], offs[1], offs[5]):
        ov = offset_value(o)
        b4 = [33 - ov, 64 - ov, 43 - ov, 126 - ov]
        for w in WIDTHS:
            for i in ids:
                for sc in ([b4[1]], [b4[1], b4[2], b4[0]], [b4[2], b4[1], b4[1], b4[3], b4[0]]):
                    yield {"kind": "fastq", "o": o, "w": w, "id": i, "seq": ("ACGTN" * 2)[:len(sc)], "sc": sc, "ci": len(sc)}
            # empty read
            yield {"kind": "fastq", "o": o, "w": w, "id": L, "seq": "", "sc": [], "ci": 0}
            # longer reads, all boundary scores, every length to 9
            for n in range(6, 10):
                for first in b4:
                    sc = [first] + [b4[(j + n) % 4] for j in range(n - 1)]
                    yield {"kind": "fastq", "o": o, "w": w, "id": L, "seq": ("ACGTN" * 2)[:n], "sc": sc, "ci": n}
        # usual widths, reads around the width and its multiples
        for w in (3, 80):
            for n in (1, 2, 3, 4, 5, 6, 7, 79, 80, 81, 159, 160, 161, 240):
                for first in b4:
                    sc = [first] + [b4[(j * 7 + n) % 4] for j in range(n - 1)]
                    yield {"kind": "fastq", "o": o, "w": w, "id": L, "seq": ("ACGTN" * 50)[:n], "sc": sc, "ci": n}
            # every read of length 4 and 5 over the four boundary scores (lowest, '@', '+', highest)
            for n in (4, 5):
                for sc in itertools.product(b4, repeat=n):
                    yield {"kind": "fastq", "o": o, "w": w, "id": L, "seq": "ACGTN"[:n], "sc": list(sc), "ci": n + sc[0]}
            # multi-entry files: entries over the boundary palette, lengths 1..2
            ent = [[x] for x in b4] + [[x, y] for x in b4 for y in b4]
            for e1 in ent:
                for e2 in ent:
                    yield {"kind": "fastq_multi", "o": o, "w": w,
                           "ents": [[L, "ACGT"[:len(e1)], e1], ["b", "TGCA"[:len(e2)], e2]]}
            # empty reads at every position of 2- and 3-entry files
            for e in ent[:4] + ent[4::3]:
                for ents in ([[L, "", []], ["b", "TGCA"[:len(e)], e]], [[L, "ACGT"[:len(e)], e], ["b", "", []]],
                             [[L, "", []], ["b", "", []]],
                             [[L, "", []], ["b", "TGCA"[:len(e)], e], ["c", "", []]],
                             [[L, "ACGT"[:len(e)], e], ["b", "", []], ["@c", "TGCA"[:len(e)], e]],
                             [[L, "", []], ["b", "", []], ["c", "ACGT"[:len(e)], e]],
                             [[L, "", []], ["b", "", []], ["c", "", []]]):
                    yield {"kind": "fastq_multi", "o": o, "w": w, "ents": ents}
            for e1 in ent[:4] + ent[4::5]:
                for e2 in ent[:4]:
                    for e3 in ent[1:3] + ent[5:7]:
                        yield {"kind": "fastq_multi", "o": o, "w": w,
                               "ents": [[L, "ACGT"[:len(e1)], e1], ["@b", "T", e2], ["+", "TGCA"[:len(e3)], e3]]}


def fastq_layout_ok(text, ident, seq, chars, w):
    """Format-level law (FASTQ definition + documented chars_per_line): '@identifier', sequence lines that concatenate
    to the read, a separator line starting with '+', score lines that concatenate to the score characters; no sequence /
    score line longer than chars_per_line."""
    lines = text.split("\n")
    if len(lines) < 2 or lines[-1] != "" or lines[0] != "@" + ident:
        return False
    # an empty line carries no characters (an empty read is conventionally written as '@id', '', '+', '')
    body = [x for x in lines[1:-1] if x != ""]
    acc, i = "", 0
    while i < len(body) and len(acc) < len(seq):
        acc += body[i]
        i += 1
    if acc != seq or i >= len(body) or not body[i].startswith("+"):
        return False
    sl, ql = body[:i], body[i + 1:]
    if "".join(ql) != chars:
        return False
    if w is not None and any(len(x) > w for x in sl + ql):
        return False
    return True


def check_fastq(case, ctx, fast=False):
    b = B()
    FastqFile = b.fastq.FastqFile
    o, w, ident, seq, sc = case["o"], case["w"], case["id"], case["seq"], case["sc"]
    ov = offset_value(o)
    chars = "".join(chr(x + ov) for x in sc)
    hc = header_class(ident)
    nid = norm_header(ident)
    empty = len(seq) == 0
    cls = "empty_read" if empty else ("identifier_%s" % hc if hc != "plain" else "read")
    linestart = [chars[i] for i in range(0, len(chars), w)] if w else list(chars[:1])
    special = any(c in "@+" for c in linestart) or any(c in (33, 126) for c in map(ord, chars)) or (w and len(seq) > w)
    ctx.ev(1, 1 if (special or hc != "plain" or empty or not ident.isalnum()) else 0)
    ctx.count("accepted" if (hc == "plain") else "unspecified")
    site = "fastq|roundtrip"
    try:
        f = FastqFile(offset=o, chars_per_line=w)
        f[ident] = (seq, score_container(b, sc, case.get("ci", 0)))
        text = text_of(f)
    except Exception as e:  # noqa: BLE001
        ctx.violation("%s|write_%s|%s" % (site, exc_name(e), cls), "writing a FASTQ entry raised", case, "success", repr(e))
        return
    try:
        g = FastqFile.read(io.StringIO(text), offset=o, chars_per_line=w)
        parsed = [(k, s, q.tolist()) for k, (s, q) in g.items()]
    except Exception as e:  # noqa: BLE001
        ctx.violation("%s|unparsable_%s|%s" % (site, exc_name(e), cls), "written FASTQ text cannot be parsed again", case,
                      [[nid, seq, sc]], [repr(e), text])
        return
    if not fast:
        ctx.outcome(("fastq", text))
    ok_ids = [ident] if hc == "plain" else [ident, nid]
    if len(parsed) != 1 or parsed[0][0] not in ok_ids or parsed[0][1] != seq or parsed[0][2] != list(sc):
        what = "entries" if len(parsed) != 1 else ("identifier" if parsed[0][0] not in ok_ids else
                                                   ("sequence" if parsed[0][1] != seq else "scores"))
        ctx.violation("%s|%s_changed|%s" % (site, what, cls), "parsed FASTQ entry differs from the written one", case,
                      [[ok_ids[-1], seq, list(sc)]], parsed)
        return
    if not fastq_layout_ok(text, nid, seq, chars, w):
        ctx.violation("%s|layout|%s" % (site, cls), "FASTQ text layout (identifier / wrapped sequence / '+' / wrapped scores) "
                      "is wrong", case, ["@" + nid, seq, "+", chars], text)
        return
    try:
        live = [(k, s, q.tolist()) for k, (s, q) in f.items()]
    except Exception as e:  # noqa: BLE001
        live = repr(e)
    if live != parsed:
        ctx.violation("fastq|setitem|live_view_differs_from_parsed|%s" % cls,
                      "live FastqFile view differs from the view obtained by parsing its text", case, parsed, live)
    if fast:
        # the streaming reader / writer and the typed level are exercised on every case of length <= 2 and on the
        # boundary-score families; the length-3 sweep checks FastqFile write -> text -> read only
        return
    try:
        it = [(k, s, q.tolist()) for k, (s, q) in FastqFile.read_iter(io.StringIO(text), offset=o)]
        wio = io.StringIO()
        FastqFile.write_iter(wio, [(ident, (seq, sc))], offset=o, chars_per_line=w)
    except Exception as e:  # noqa: BLE001
        ctx.violation("%s|iter_%s|%s" % (site, exc_name(e), cls), "read_iter / write_iter raised", case, parsed, repr(e))
        return
    if it != parsed:
        ctx.violation("%s|read_iter_differs|%s" % (site, cls), "read_iter and read disagree", case, parsed, it)
    try:
        back = [(k, s_, q.tolist()) for k, (s_, q) in FastqFile.read(io.StringIO(wio.getvalue()), offset=o).items()]
    except Exception as e:  # noqa: BLE001
        back = repr(e)
    if back != parsed or not fastq_layout_ok(wio.getvalue(), nid, seq, chars, w):
        ctx.violation("%s|write_iter_differs|%s" % (site, cls), "entry written by write_iter is not recovered / not wrapped",
                      case, parsed, [back, wio.getvalue()[:300]])
    if fast or hc != "plain":
        return
    # typed level
    try:
        so = b.seq.NucleotideSequence(seq)
        f2 = FastqFile(offset=o, chars_per_line=w)
        b.fastq.set_sequence(f2, so, b.np.array(sc), header=ident)
        g2 = FastqFile.read(io.StringIO(text_of(f2)), offset=o)
        r, q = b.fastq.get_sequence(g2, header=ident)
        r1, q1 = b.fastq.get_sequence(g2)
        d = b.fastq.get_sequences(g2)
        res = [str(r), q.tolist(), str(r1), q1.tolist(), [[k, str(v[0]), v[1].tolist()] for k, v in d.items()]]
    except Exception as e:  # noqa: BLE001
        ctx.violation("fastq|typed|%s" % exc_name(e), "typed FASTQ round trip raised", case, seq, repr(e))
        return
    exp = [seq, list(sc), seq, list(sc), [[ident, seq, list(sc)]]]
    if res != exp:
        ctx.violation("fastq|typed|differs", "sequence / scores recovered from FASTQ differ", case, exp, res)


def check_fastq_multi(case, ctx):
    b = B()
    FastqFile = b.fastq.FastqFile
    o, w = case["o"], case["w"]
    ents = [(i, s, list(q)) for i, s, q in case["ents"]]
    ctx.ev(1, 1)
    ctx.count("accepted")
    try:
        f = FastqFile(offset=o, chars_per_line=w)
        for i, s, q in ents:
            f[i] = (s, q)
        live = [(k, s, q.tolist()) for k, (s, q) in f.items()]
        text = text_of(f)
    except Exception as e:  # noqa: BLE001
        ctx.violation("fastq|multi|write_%s" % exc_name(e), "writing a multi-entry FASTQ file raised", case, ents, repr(e))
        return
    try:
        parsed = [(k, s, q.tolist()) for k, (s, q) in FastqFile.read(io.StringIO(text), offset=o, chars_per_line=w).items()]
        it = [(k, s, q.tolist()) for k, (s, q) in FastqFile.read_iter(io.StringIO(text), offset=o)]
    except Exception as e:  # noqa: BLE001
        ctx.violation("fastq|multi|unparsable_%s" % exc_name(e), "written multi-entry FASTQ text cannot be parsed", case, ents,
                      [repr(e), text])
        return
    ctx.outcome(("fastq", text))
    for name, got in (("parsed", parsed), ("live", live), ("read_iter", it)):
        if got != ents:
            ctx.violation("fastq|multi|%s_differs" % name, "entries of a multi-entry FASTQ file differ", case, ents, got)
            return
    wio = io.StringIO()
    try:
        FastqFile.write_iter(wio, [(i, (s, q)) for i, s, q in ents], offset=o, chars_per_line=w)
        back = [(k, s_, q.tolist()) for k, (s_, q) in FastqFile.read(io.StringIO(wio.getvalue()), offset=o).items()]
    except Exception as e:  # noqa: BLE001
        back = repr(e)
    if back != ents:
        ctx.violation("fastq|multi|write_iter_differs", "entries written by write_iter are not recovered", case, ents,
                      [back, wio.getvalue()[:300]])


# ===========================================================================
# GenBank / GenPept (E2)
# ===========================================================================
DEFAULT_SEQ = "ACGTACGTACGT"
QUAL_VALUES = ["x", "a b", "a/b", "a=b", "/x=", "a  b", " a", "a ", "l1\nl2", "", None, "x" * 80, 'a"b',
               "l1\n\nl3", "/pseudo", "1..5",
               # a repeated key is read back piece by piece: every position of an EMPTY piece (first / inner / last / only)
               "\nx", "\n", "\n\nx", "a\n", "\n\n", "a\n\n", "\na\n", 'q"\n\n"']
QUAL_VALUES_SMALL = ["x", None, "a=b", "/x=", "l1\nl2", "\nx", "a\n"]
QUAL_KEYS = ["gene", "note", "pseudo"]


def value_class(v):
    if v is None:
        return "no_value"
    if v == "":
        return "empty"
    if '"' in v:
        return "double_quote_in_value" + ("_multi_line" if "\n" in v else "")
    if "\n" in v:
        pieces = v.split("\n")
        if all(x == "" for x in pieces):
            return "multi_line_only_empty_lines"
        return "multi_line" + ("_first_empty" if pieces[0] == "" else "") \
            + ("_inner_empty" if "" in pieces[1:-1] else "") + ("_last_empty" if pieces[-1] == "" else "")
    if v != v.strip():
        return "outer_space"
    if v.startswith("/"):
        return "leading_slash"
    if "/" in v:
        return "slash"
    if "=" in v:
        return "equals"
    if "  " in v:
        return "double_space"
    if len(v) >= 60:
        return "long"
    if " " in v:
        return "space"
    if ".." in v:
        return "location_like"
    return "plain"


def qual_class(qual):
    vals = [v for _, v in qual]
    if vals and all(v is None for v in vals):
        return "only_valueless_qualifiers"
    cl = sorted({value_class(v) for v in vals})
    return cl[0] if len(cl) == 1 else "combo_" + "+".join(cl)


def gb_bases(P):
    return [(P[0], P[0]), (P[1], P[1]), (P[2], P[2]), (P[0], P[1]), (P[0], P[2]), (P[1], P[2])]


def gb_atoms(P):
    """Every expressible location atom."""
    out = []
    for f, la in gb_bases(P):
        for s in (1, -1):
            for bey in (0, BEY_L, BEY_R, BEY_L | BEY_R):
                for x in ((0, UNK, BETW) if f != la else (0, UNK)):
                    out.append([f, la, s, bey | x])
    return out


def gb_inexpressible(P):
    out = []
    for f, la in gb_bases(P):
        for s in (1, -1):
            for d in (MISS_L, MISS_R, MISS_L | MISS_R, MISS_L | BEY_R, MISS_R | UNK, MISS_R | BEY_L | BEY_R):
                out.append([f, la, s, d])
            if f == la:
                for bey in (0, BEY_L, BEY_R, BEY_L | BEY_R):
                    out.append([f, la, s, bey | BETW])
            else:
                out.append([f, la, s, UNK | BETW])
    return out


def loc_alts(l):
    """Acceptable recovered (first, last, strand, defect) tuples for a written location."""
    f, la, s, d = l
    d0 = d & ~(MISS_L | MISS_R)
    ds = [d0]
    if f == la and d0 & BETW:
        ds = [d0 & ~BETW, d0]
    elif d0 & UNK and d0 & BETW:
        ds = [d0 & ~BETW, d0 & ~UNK, d0]
    return [(f, la, s, x) for x in ds]


def loc_expressible(l):
    return loc_alts(l) == [tuple(l)]


def mk_loc(b, l):
    return b.Location(l[0], l[1], b.FWD if l[2] > 0 else b.REV, b.Location.Defect(l[3]))


def mk_feature(b, ft):
    return b.Feature(ft["key"], [mk_loc(b, l) for l in ft["locs"]], {k: v for k, v in ft["qual"]})


def loc_model(b, loc):
    return (int(loc.first), int(loc.last), 1 if loc.strand == b.FWD else (-1 if loc.strand == b.REV else 0),
            int(loc.defect.value))


def feat_model(b, ft):
    return (ft.key, frozenset(loc_model(b, l) for l in ft.locs), tuple(sorted(ft.qual.items(), key=lambda kv: kv[0])))


def annot_model(b, a):
    return frozenset(feat_model(b, ft) for ft in a)


def expected_annots(feats, drop_defects=False):
    """All acceptable recovered annotation models (alternatives only arise from inexpressible defects)."""
    per_feat = []
    for ft in feats:
        alts = []
        loc_choices = [[(l[0], l[1], l[2], 0)] if drop_defects else loc_alts(l) for l in ft["locs"]]
        for combo in itertools.product(*loc_choices):
            alts.append((ft["key"], frozenset(combo), tuple(sorted(((k, v) for k, v in ft["qual"]), key=lambda kv: kv[0]))))
        per_feat.append(alts)
    return [frozenset(c) for c in itertools.product(*per_feat)]


def show_annot(m):
    return sorted([[k, sorted(list(x) for x in locs), [list(q) for q in qual]] for k, locs, qual in m], key=repr)


def seq_obj_for(b, s, fmt):
    return b.seq.ProteinSequence(s) if fmt == "gp" else b.seq.NucleotideSequence(s)


def gb_eval(b, feats, seqstr, start, fmt):
    """One complete round trip.  Returns (None, model) if everything was recovered, else ((mode, expected, observed),
    recovered annotation model or None)."""
    gb = b.gb
    try:
        annot = b.Annotation([mk_feature(b, ft) for ft in feats])
        so = seq_obj_for(b, seqstr, fmt)
        aseq = b.AnnotatedSequence(annot, so, sequence_start=start)
    except Exception as e:  # noqa: BLE001
        return ("harness_%s" % exc_name(e), "constructible input", repr(e)), None
    allow_exc = any(not loc_expressible(l) for ft in feats for l in ft["locs"]) or len(seqstr) == 0
    try:
        f = gb.GenBankFile()
        gb.set_annotated_sequence(f, aseq)
        text = text_of(f)
    except Exception as e:  # noqa: BLE001
        return (None if allow_exc else ("write_%s" % exc_name(e), "success", repr(e))), None
    try:
        g = gb.GenBankFile.read(io.StringIO(text))
        with warnings.catch_warnings():
            warnings.simplefilter("ignore")
            r = gb.get_annotated_sequence(g, format=fmt)
            a2 = gb.get_annotation(g)
            s2 = gb.get_sequence(g, format=fmt)
            raw = gb.get_raw_sequence(g)
    except Exception as e:  # noqa: BLE001
        return (None if allow_exc else ("exception_%s" % exc_name(e), "parsed annotated sequence", [repr(e), text[:600]])), None
    exp = expected_annots(feats)
    got = annot_model(b, r.annotation)
    if got not in exp or annot_model(b, a2) != got:
        return ("annotation", show_annot(exp[0]), show_annot(got)), got
    if type(r.sequence) is not type(so) or type(s2) is not type(so):
        return ("sequence_type", type(so).__name__, type(r.sequence).__name__), got
    if str(r.sequence) != str(so) or str(s2) != str(so) or raw.upper() != str(so):
        return ("symbols", str(so), [str(r.sequence), str(s2), raw]), got
    if r.sequence_start != start:
        return ("sequence_start", start, r.sequence_start), got
    return None, got


def annot_mode(exp_show, got_show):
    """Describe how a single-feature annotation differs."""
    if len(got_show) == 0:
        return "feature_lost", ""
    if len(got_show) != len(exp_show):
        return "feature_count", ""
    e, g = exp_show[0], got_show[0]
    if e[0] != g[0]:
        return "key_changed", ""
    if e[1] != g[1]:
        if len(e[1]) == 1 and len(g[1]) == 1:
            el, gl = e[1][0], g[1][0]
            if el[:2] != gl[:2]:
                return "position_changed", ""
            if el[2] != gl[2]:
                return "strand_changed", ""
            lost, gained = el[3] & ~gl[3], gl[3] & ~el[3]
            if lost and not gained:
                return "defect_lost", "lost=" + defect_name(lost)
            return "defect_changed", "lost=%s,gained=%s" % (defect_name(lost), defect_name(gained))
        return "locations_changed", ""
    return "qualifier_changed", ""


def gb_classify(b, case):
    """Returns None (held) or (sig, what, expected, observed, minimal case).  A failing composite case (several
    features, joined locations) is attributed to the failing atoms it contains only if its observed result is exactly
    the composition of what the atoms give one by one; otherwise it gets its own (interaction) signature."""
    feats, seqstr, start, fmt = case["feats"], case["seq"], case["start"], case["fmt"]
    fail, got = gb_eval(b, feats, seqstr, start, fmt)
    if fail is None:
        return None
    mode, exp, obs = fail
    if len(seqstr) == 0:
        sclass = "len0"
    elif start + max(len(seqstr) - 1, 0) // 60 * 60 >= 10 ** 8:
        sclass = "line_number_9_digits"
    elif start != 1:
        sclass = "start_ne_1"
    else:
        sclass = fmt
    if mode in ("sequence_type", "symbols", "sequence_start"):
        return ("genbank|origin|%s|%s" % (mode, sclass), "sequence / start recovered from ORIGIN differs", exp, obs, case)
    if len(feats) == 0:
        return ("genbank|annotation|%s|empty_feature_table" % mode, "an annotation without features does not survive", exp,
                obs, case)
    if (seqstr, start, fmt) != (DEFAULT_SEQ, 1, "gb"):
        sub = gb_classify(b, {**case, "seq": DEFAULT_SEQ, "start": 1, "fmt": "gb"})
        if sub is None:
            return ("genbank|origin|%s|%s" % (mode, sclass), "round trip fails only with this sequence / start / format",
                    exp, obs, case)
        return sub
    if len(feats) > 1:
        parts = [gb_eval(b, [ft], seqstr, start, fmt) for ft in feats]
        failing = [ft for ft, (fl, _) in zip(feats, parts) if fl is not None]
        composed = None
        if all(g is not None for _, g in parts):
            composed = frozenset().union(*[g for _, g in parts])
        if failing and composed is not None and got == composed:
            return gb_classify(b, {**case, "feats": [failing[0]]})
        return ("genbank|features|%s|feature_set_interaction" % mode, "a set of features does not give the union of what "
                "its members give one by one", exp, obs, case)
    ft = feats[0]
    if len(ft["locs"]) > 1:
        parts = [gb_eval(b, [{**ft, "locs": [l]}], seqstr, start, fmt) for l in ft["locs"]]
        failing = [l for l, (fl, _) in zip(ft["locs"], parts) if fl is not None]
        composed = None
        if all(g is not None for _, g in parts):
            if any(len(g) != 1 for _, g in parts):
                composed = frozenset() if any(len(g) == 0 for _, g in parts) else None
            else:
                fs = [next(iter(g)) for _, g in parts]
                composed = frozenset([(fs[0][0], frozenset().union(*[x[1] for x in fs]), fs[0][2])])
        if failing and composed is not None and got == composed:
            return gb_classify(b, {**case, "feats": [{**ft, "locs": [failing[0]]}]})
        strands = {l[2] for l in ft["locs"]}
        return ("genbank|loc|%s|join_interaction_%s" % (mode, "mixed_strands" if len(strands) > 1 else ("fwd" if 1 in strands else "rev")),
                "joined locations do not give the union of what they give one by one", exp, obs, case)
    if ft["qual"]:
        sub = gb_classify(b, {**case, "feats": [{**ft, "qual": []}]})
        if sub is not None:
            return sub
        if len(ft["qual"]) > 1 and got is not None:
            # attribute to a single qualifier only if the set gives exactly the union of what its members give alone
            parts = [gb_eval(b, [{**ft, "qual": [kv]}], seqstr, start, fmt) for kv in ft["qual"]]
            failing = [kv for kv, (fl, _) in zip(ft["qual"], parts) if fl is not None]
            if failing and all(g is not None and len(g) == 1 for _, g in parts):
                fs = [next(iter(g)) for _, g in parts]
                merged = {}
                for x in fs:
                    merged.update(dict(x[2]))
                composed = frozenset([(fs[0][0], fs[0][1], tuple(sorted(merged.items(), key=lambda kv: kv[0])))])
                if got == composed:
                    return gb_classify(b, {**case, "feats": [{**ft, "qual": [failing[0]]}]})
        m = annot_mode(exp, obs)[0] if mode == "annotation" else mode
        return ("genbank|qual|%s|%s" % (m, qual_class(ft["qual"])), "qualifiers are not recovered", exp, obs, case)
    if ft["key"] != "gene":
        sub = gb_classify(b, {**case, "feats": [{**ft, "key": "gene"}]})
        if sub is None:
            m = annot_mode(exp, obs)[0] if mode == "annotation" else mode
            return ("genbank|key|%s|key_len%d" % (m, len(ft["key"])), "feature key is not recovered", exp, obs, case)
        return sub
    l = ft["locs"][0]
    shape = "single_base" if l[0] == l[1] else "range"
    if mode == "annotation":
        m, detail = annot_mode(exp, obs)
    else:
        m, detail = mode, ""
    if not detail:
        detail = "defect=%s,strand=%s" % (defect_name(l[3]), "fwd" if l[2] > 0 else "rev")
    return ("genbank|loc|%s|%s|%s" % (m, shape, detail), "location is not recovered", exp, obs, case)


def gb_nontrivial(case):
    if case["start"] != 1 or case["fmt"] != "gb" or case["seq"] != DEFAULT_SEQ or len(case["feats"]) != 1:
        return True
    ft = case["feats"][0]
    return (len(ft["locs"]) > 1 or ft["locs"][0][2] < 0 or ft["locs"][0][3] != 0 or ft["key"] != "gene"
            or any(value_class(v) != "plain" for _, v in ft["qual"]))


def check_gb(case, ctx):
    b = B()
    ctx.ev(1, 1 if gb_nontrivial(case) else 0)
    unspecified = any(not loc_expressible(l) for ft in case["feats"] for l in ft["locs"]) or len(case["seq"]) == 0
    ctx.count("unspecified" if unspecified else "accepted")
    r = gb_classify(b, case)
    ctx.outcome(("gb", json.dumps(case, sort_keys=True), r is None))
    if r is not None:
        sig, what, exp, obs, minimal = r
        if minimal is not case:
            what += " (shown: the failing atom of the composite case %s)" % json.dumps(case["feats"])[:300]
        ctx.violation(sig, what, minimal, exp, obs)


def gbcase(feats, seq=DEFAULT_SEQ, start=1, fmt="gb"):
    return {"kind": "gb", "feats": feats, "seq": seq, "start": start, "fmt": fmt}


def feat(locs, qual=(), key="gene"):
    return {"key": key, "locs": [list(l) for l in locs], "qual": [list(q) for q in qual]}


def gen_gb_loc1(tier, seed):
    P = POS_PALETTES[seed % 5]
    for l in gb_atoms(P) + gb_inexpressible(P):
        yield gbcase([feat([l])])
        yield gbcase([feat([l], [("gene", "x")])])
        yield gbcase([feat([l], key="CDS")], fmt="gp", seq="MKL*AX")


def gen_gb_loc2(tier, seed):
    P = POS_PALETTES[seed % 5]
    atoms = gb_atoms(P)
    for a, c in itertools.combinations(atoms, 2):
        yield gbcase([feat([a, c])])


def gen_gb_loc3(tier, seed):
    P = POS_PALETTES[seed % 5]
    bases = gb_bases(P)
    atoms = gb_atoms(P)
    for tri in itertools.combinations(bases, 3):
        per = []
        for f, la in tri:
            if tier == "quick":
                opts = [[f, la, s, d] for s in (1, -1) for d in (0, BEY_L, BEY_R, UNK if f == la else BETW)]
            else:
                opts = [a for a in atoms if (a[0], a[1]) == (f, la)]
            per.append(opts)
        for combo in itertools.product(*per):
            yield gbcase([feat(list(combo))])


def gen_gb_qual(tier, seed):
    P = POS_PALETTES[seed % 5]
    shapes = [[[P[0], P[1], 1, 0]], [[P[0], P[1], -1, BEY_L], [P[2], P[2], -1, 0]]]
    for locs in shapes:
        for k in QUAL_KEYS:
            for v in QUAL_VALUES:
                yield gbcase([feat(locs, [(k, v)])])
        pairvals = QUAL_VALUES
        for k1, k2 in itertools.permutations(QUAL_KEYS, 2):
            for v1 in pairvals:
                for v2 in pairvals:
                    yield gbcase([feat(locs, [(k1, v1), (k2, v2)])])
        for ks in itertools.permutations(QUAL_KEYS, 3):
            for vs in itertools.product(QUAL_VALUES_SMALL, repeat=3):
                yield gbcase([feat(locs, list(zip(ks, vs)))])


def gb_feature_palette(P):
    a, m, z = P
    return [
        feat([[a, m, 1, 0]]),
        feat([[a, m, 1, 0]], key="CDS"),
        feat([[a, m, 1, 0]], [("gene", "x")]),
        feat([[a, m, 1, 0]], [("gene", "y")]),
        feat([[a, m, -1, 0]]),
        feat([[a, z, 1, 0]]),
        feat([[m, z, 1, BEY_R]], [("pseudo", None), ("note", "a b")]),
        feat([[a, a, 1, 0], [m, z, 1, 0]], key="CDS"),
        feat([[a, a, -1, BEY_L], [m, z, -1, 0]], [("note", "/x=")], key="mRNA"),
        feat([[z, z, 1, 0]], key="k" * 15),
        feat([[m, m, 1, 0]], key="a"),
        feat([[a, m, 1, BETW]], [("note", "l1\nl2")], key="misc_feature"),
        feat([[a, z, 1, UNK]], key="variation"),
        feat([[m, z, -1, BEY_L | BEY_R]], [("gene", "x"), ("note", "a=b")], key="5'UTR"),
        feat([[a, m, 1, 0]], [("note", "\nx")], key="misc_feature"),
        feat([[m, z, 1, 0]], [("note", "a\n"), ("pseudo", None)], key="CDS"),
    ]


def gen_gb_feat2(tier, seed):
    P = POS_PALETTES[seed % 5]
    pal = gb_feature_palette(P)
    yield gbcase([])
    for ft in pal:
        yield gbcase([ft])
    for f1, f2 in itertools.combinations(pal, 2):
        yield gbcase([f1, f2])
        yield gbcase([f2, f1])
    for f1, f2, f3 in itertools.combinations(pal[:8], 3):
        yield gbcase([f1, f2, f3])
    for key in ["gene", "CDS", "a", "k" * 15, "misc_feature", "-10_signal", "5'UTR", "D-loop", "a b"]:
        for locs in ([[P[0], P[1], 1, 0]], [[P[0], P[0], -1, 0], [P[1], P[2], 1, BEY_R]]):
            yield gbcase([feat(locs, key=key)])
            yield gbcase([feat(locs, [("note", "a b")], key=key)])


def gen_gb_seq(tier, seed):
    b = B()
    P = POS_PALETTES[seed % 5]
    annots = [[feat([[P[0], P[1], 1, 0]])], [feat([[P[0], P[0], -1, BEY_L], [P[1], P[2], 1, 0]], [("note", "a b")], key="CDS")]]
    lens = [0, 1, 9, 10, 11, 59, 60, 61, 119, 120, 121, 600, 601]
    nuc = "".join(str(s) for s in b.seq.NucleotideSequence.alphabet_amb.get_symbols())
    prot = "".join(str(s) for s in b.seq.ProteinSequence.alphabet.get_symbols())
    for start in (1, 7, 100, 99999999, 99999990, 100000000):
        for n in lens:
            for fmt, src in (("gb", "ACGT"), ("gb", nuc), ("gp", prot)):
                s = (src * (n // len(src) + 1))[:n]
                for an in annots:
                    yield gbcase(an, seq=s, start=start, fmt=fmt)
    for start in (1, 7):
        for s in strings_upto("ACGT", 4 if tier == "quick" else 5, 1):
            yield gbcase(annots[0], seq=s, start=start)
        for sym in nuc:
            yield gbcase(annots[0], seq="A" + sym + "C", start=start)
            yield gbcase(annots[0], seq=sym, start=start)
        for sym in prot:
            yield gbcase(annots[0], seq="M" + sym + "K", start=start, fmt="gp")
            yield gbcase(annots[0], seq=sym, start=start, fmt="gp")


def gen_gb_field(tier, seed):
    """GenBankFile field level: content / sub-field lines are split into a name column and a content column and put
    together again line by line - every sequence of 1..3 lines over {empty, word, indented word} as field content and
    as sub-field content (empty first / inner / last / only line)."""
    pieces = ["", "x", " y"]
    line_sets = [list(t) for n in (1, 2, 3) for t in itertools.product(pieces, repeat=n)]
    for c in line_sets:
        yield {"kind": "gb_field", "content": c, "sub": []}
        for sl in line_sets:
            yield {"kind": "gb_field", "content": c, "sub": [["S", sl]]}
    for s1 in line_sets:
        for s2 in line_sets:
            yield {"kind": "gb_field", "content": ["x"], "sub": [["S", s1], ["T", s2]]}


def check_gb_field(case, ctx):
    b = B()
    content, sub = case["content"], case["sub"]
    ctx.ev(1, 1 if ("" in content or any("" in sl for _, sl in sub)) else 0)
    ctx.count("accepted")
    name = case.get("name", "A")
    exp = [["LOCUS", ["l"], []], [name, list(content), [[k, list(v)] for k, v in sub]], ["B", ["z"], [["S", ["s"]]]]]

    def views(f):
        return [GenBankSpec._view(f[i]) for i in range(len(f))]

    try:
        f = b.gb.GenBankFile()
        f.append("LOCUS", ["l"])
        f.append(name, list(content), {k: list(v) for k, v in sub} if sub else None)
        f.append("B", ["z"], {"S": ["s"]})
        live = views(f)
        text = text_of(f)
        parsed = views(b.gb.GenBankFile.read(io.StringIO(text)))
    except Exception as e:  # noqa: BLE001
        ctx.violation("genbank|field|%s|%s" % (exc_name(e), gb_lines_class(content, sub)), "field round trip raised", case, exp,
                      repr(e))
        return
    ctx.outcome(("gb_field", text))
    for name, got in (("parsed", parsed), ("live", live)):
        if got != exp:
            ctx.violation("genbank|field|%s_differs|%s" % (name, gb_lines_class(content, sub)),
                          "content / sub-field lines of a GenBank field are not recovered", case, exp, got)
            return


def gb_lines_class(content, sub):
    def cls(lines):
        if all(x == "" for x in lines):
            return "only_empty_lines"
        return ("first_empty" if lines[0] == "" else "") + ("+inner_empty" if "" in lines[1:-1] else "") \
            + ("+last_empty" if lines[-1] == "" else "") or "no_empty_line"
    return "content_%s|subfields_%s" % (cls(content).strip("+"), "+".join(sorted({cls(sl).strip("+") for _, sl in sub})) or "none")


def gen_gb_locus(tier, seed):
    L = LETTERS[seed % 5]
    for name in (L.upper() + "B123456", "X", "N" * 18):
        for length in (0, 1, 121, 10 ** 9):
            for mol in ("DNA", "RNA", "Protein", "ss-RNA", "mRNA", None):
                for circ in (False, True):
                    for div in ("BCT", "PRI", "CON", None):
                        for date in ("01-JAN-2000", "16-FEB-2017", None):
                            yield {"kind": "gb_locus", "a": [name, length, mol, circ, div, date]}


def check_gb_locus(case, ctx):
    b = B()
    name, length, mol, circ, div, date = case["a"]
    ctx.ev(1, 1 if (circ or mol not in ("DNA",) or div is None or date is None) else 0)
    ctx.count("unspecified")
    try:
        f = b.gb.GenBankFile()
        b.gb.set_locus(f, name, length, mol, circ, div, date)
        g = b.gb.GenBankFile.read(io.StringIO(text_of(f)))
        got = list(b.gb.get_locus(g))
    except Exception as e:  # noqa: BLE001
        ctx.outcome(("locus_exc", exc_name(e)))
        return
    ctx.outcome(("locus", got))
    if got != [name, length, mol, circ, div, date]:
        complete = "complete" if (mol and div and date) else "incomplete"
        ctx.violation("genbank|locus|differs|%s" % complete, "LOCUS fields read back differ from the ones set", case,
                      case["a"], got)


# ===========================================================================
# GFF3 (E2)
# ===========================================================================
GFF_BASE = ["s", "src", "gene", 1, 5, None, 1, None, [["ID", "x"]]]
GFF_FIELDS = ["seqid", "source", "type", "start", "end", "score", "strand", "phase", "attributes"]
GFF_CHARS = {";": "semicolon", "=": "equals", "%": "percent", ",": "comma", " ": "space", "\t": "tab", "é": "non_ascii",
             "&": "ampersand", "#": "hash", ">": "gt", "\n": "newline", ".": "dot"}


def str_class(s):
    if s != s.strip():
        return "outer_whitespace"
    names = sorted({GFF_CHARS[c] for c in s if c in GFF_CHARS})
    if s and s[0] in "#>":
        return "leading_" + GFF_CHARS[s[0]]
    if "%" in s and any(s[i] == "%" and len(s) >= i + 3 and all(c in "0123456789abcdefABCDEF" for c in s[i + 1:i + 3])
                        for i in range(len(s))):
        return "percent_escape_sequence"
    return "+".join(names) if names else ("empty" if s == "" else "plain")


def attrs_class(attrs):
    if attrs is None:
        return "none"
    if not attrs:
        return "empty_dict"
    k, v = attrs[-1]
    if v != v.rstrip(" ") or (v == "" and False):
        return "last_value_trailing_space"
    parts = []
    for k, v in attrs:
        parts.append("key_" + str_class(k))
        parts.append("value_" + str_class(v))
    parts = sorted(set(p for p in parts if not p.endswith("_plain")))
    return "+".join(parts) if parts else "plain"


def gff_entry(devs):
    e = [x if not isinstance(x, list) else [list(p) for p in x] for x in GFF_BASE]
    for i, v in devs:
        e[i] = v
    return e


def gff_expected(e):
    seqid, source, typ, start, end, score, strand, phase, attrs = e
    return [seqid.strip(), source.strip(), typ.strip(), start, end, None if score is None else float(score),
            strand or 0, phase, {k: v for k, v in attrs} if attrs else {}]


def gff_refused(e):
    seqid, source, typ = e[0].strip(), e[1].strip(), e[2].strip()
    return seqid == "" or source == "" or typ == "" or seqid.startswith(">")


def gff_args(b, e):
    a = list(e)
    a[6] = b.FWD if e[6] == 1 else (b.REV if e[6] == -1 else None)
    a[8] = None if e[8] is None else {k: v for k, v in e[8]}
    return a


def gff_view(b, entry):
    seqid, source, typ, start, end, score, strand, phase, attrs = entry
    return [seqid, source, typ, start, end, score, 1 if strand == b.FWD else (-1 if strand == b.REV else 0), phase,
            dict(attrs)]


def same_entry(x, y):
    if len(x) != len(y):
        return False
    for i, (p, q) in enumerate(zip(x, y)):
        if i == 5 and isinstance(p, float) and isinstance(q, float) and p != p and q != q:
            continue
        if p != q or (i in (3, 4, 7) and type(p) is not type(q) and p is not None):
            return False
    return True


def gff_eval(b, ents):
    """ents: list of entries.  Returns None or (mode, expected, observed)."""
    GFFFile = b.gff.GFFFile
    exp = [gff_expected(e) for e in ents if not gff_refused(e)]
    f = GFFFile()
    for e in ents:
        before = len(f)
        try:
            f.append(*gff_args(b, e))
            if gff_refused(e):
                return ("not_refused", "ValueError", "appended")
        except Exception as ex:  # noqa: BLE001
            if not gff_refused(e):
                return ("write_%s" % exc_name(ex), "success", repr(ex))
            if len(f) != before:
                return ("refused_but_changed", before, len(f))
    try:
        text = text_of(f)
        g = GFFFile.read(io.StringIO(text))
        parsed = [gff_view(b, g[i]) for i in range(len(g))]
    except Exception as ex:  # noqa: BLE001
        return ("unparsable_%s" % exc_name(ex), exp, [repr(ex), text if "text" in dir() else None])
    if len(parsed) != len(exp):
        return ("entry_lost" if len(parsed) < len(exp) else "entry_gained", exp, parsed)
    for i, (p, q) in enumerate(zip(exp, parsed)):
        if not same_entry(p, q):
            bad = [GFF_FIELDS[j] for j in range(9) if not same_entry([None] * j + [p[j]] + [None] * (8 - j),
                                                                      [None] * j + [q[j]] + [None] * (8 - j))]
            return ("%s_changed" % (bad[0] if bad else "entry"), exp, parsed)
    try:
        live = [gff_view(b, f[i]) for i in range(len(f))]
    except Exception as ex:  # noqa: BLE001
        live = repr(ex)
    if live != parsed and not (isinstance(live, list) and len(live) == len(parsed) and all(same_entry(x, y) for x, y in zip(live, parsed))):
        return ("live_differs_from_parsed", parsed, live)
    return None


def dev_class(dev):
    i, v = dev
    name = GFF_FIELDS[i]
    if i == 8:
        return "attr_" + attrs_class(v)
    if isinstance(v, str):
        return "%s_%s" % (name, str_class(v))
    if i == 5:
        return "score_" + ("none" if v is None else ("int" if isinstance(v, int) else "float"))
    return "%s_%s" % (name, "none" if v is None else "value")


def gff_classify(b, case):
    ents_devs = case["ents"]
    ents = [gff_entry(d) for d in ents_devs]
    fail = gff_eval(b, ents)
    if fail is None:
        return None
    mode, exp, obs = fail
    if len(ents_devs) > 1:
        for d in ents_devs:
            sub = gff_classify(b, {"ents": [d]})
            if sub is not None:
                return sub
        return ("gff|multi|%s|entries_fine_alone" % mode, "entries that survive one by one do not survive together", exp, obs)
    devs = ents_devs[0]
    if len(devs) > 1:
        for d in devs:
            sub = gff_classify(b, {"ents": [[d]]})
            if sub is not None:
                return sub
        return ("gff|entry|%s|%s" % (mode, "+".join(sorted(dev_class(d) for d in devs))),
                "a combination of column values that survive one by one does not survive together", exp, obs)
    cls = dev_class(devs[0]) if devs else "base"
    if cls == "attr_last_value_trailing_space" and mode == "attributes_changed":
        # explained only if nothing but the trailing spaces of the last value went missing
        want = [list(x) for x in exp]
        k, v = devs[0][1][-1]
        want[0][8] = {**want[0][8], k: v.rstrip(" ")}
        if not (isinstance(obs, list) and len(obs) == 1 and same_entry(want[0], obs[0])):
            cls += "_and_more"
    return ("gff|entry|%s|%s" % (mode, cls), "GFF3 entry is not recovered", exp, obs)


def gff_type_unspecified(e):
    """The statement does not name feature keys with characters that GFF3 percent-encodes: a type containing '%',
    a tab or a line break is an unspecified input (exception or any self-consistent behaviour)."""
    return any(c in e[2] for c in "%\t\n")


def gff_lenient(b, ents):
    """Unspecified input: returns (outcome, detail); outcome in refused / both_raise / consistent / inconsistent."""
    GFFFile = b.gff.GFFFile
    f = GFFFile()
    try:
        for e in ents:
            f.append(*gff_args(b, e))
    except Exception as ex:  # noqa: BLE001
        return "refused", repr(ex)

    def view(obj):
        try:
            return [gff_view(b, obj[i]) for i in range(len(obj))]
        except Exception as ex:  # noqa: BLE001
            return "raises " + exc_name(ex)

    live = view(f)
    try:
        parsed = view(GFFFile.read(io.StringIO(text_of(f))))
    except Exception as ex:  # noqa: BLE001
        parsed = "raises " + exc_name(ex)
    if isinstance(live, str) or isinstance(parsed, str):
        return ("both_raise" if isinstance(live, str) and isinstance(parsed, str) else "inconsistent"), [live, parsed]
    same = len(live) == len(parsed) and all(same_entry(x, y) for x, y in zip(live, parsed))
    return ("consistent" if same else "inconsistent"), [live, parsed]


def check_gff(case, ctx):
    b = B()
    ents = [gff_entry(d) for d in case["ents"]]
    ctx.ev(1, 1 if any(d for d in case["ents"]) else 0)
    if any(gff_type_unspecified(e) for e in ents):
        ctx.count("unspecified")
        outcome, detail = gff_lenient(b, ents)
        ctx.count("unspecified_gff_type_%s" % outcome)
        ctx.outcome(("gff_unspec", json.dumps(case, sort_keys=True), outcome))
        if outcome == "inconsistent":
            ctx.violation("gff|entry|inconsistent_after_unspecified_input|type_%s" % str_class(ents[0][2]),
                          "for a type the statement does not specify, the live view and the parsed text disagree", case,
                          "live == parsed or an exception", detail)
        return
    ref = any(gff_refused(e) for e in ents)
    ctx.count("refused" if ref else "accepted")
    r = gff_classify(b, case)
    ctx.outcome(("gff", json.dumps(case, sort_keys=True), r is None))
    if r is not None:
        sig, what, exp, obs = r
        ctx.violation(sig, what, case, exp, obs)


def gff_strings(seed):
    L = LETTERS[seed % 5]
    return [L, ";", "=", "%", ",", " ", "\t", "é", "&"]


def gen_gff(tier, seed):
    L = LETTERS[seed % 5]
    A = gff_strings(seed)
    yield {"kind": "gff", "ents": [[]]}
    ids = [L + " b", L + ";b", L + "%b", L + "%41", L + "=b", L + "\tb", "é", L + ",b", L + "&b", ".", ">" + L, L + ">",
           "#" + L, L + "#", " " + L, L + " ", "", " ", "%", "%%", "%4", "chr1", "NC_000001.11", "a|b:c^d*e$f@g!h+i_j?k-l",
           "##", "\t", "a\nb"]
    for i in (0, 1):
        for v in ids:
            yield {"kind": "gff", "ents": [[[i, v]]]}
    for v in ["CDS", L + " b", L + "%41", L + "%", L + ";b", " " + L, L + "=b", L + ",b", "", "five_prime_UTR", L + "\tb", "#" + L]:
        yield {"kind": "gff", "ents": [[[2, v]]]}
    # score x strand x phase (complete product) x two coordinate pairs
    for sc in (None, 0.0, 1.0, 1e-30, 0.1, -2.5, 1, 123456789.125, float("inf")):
        for st in (0, 1, -1):
            for ph in (None, 0, 1, 2):
                for a, z in ((1, 5), (7, 7), (0, 10 ** 9)):
                    yield {"kind": "gff", "ents": [[[3, a], [4, z], [5, sc], [6, st], [7, ph]]]}
    # attributes: every key / value of length <= 2 over the awkward alphabet
    yield {"kind": "gff", "ents": [[[8, None]]]}
    yield {"kind": "gff", "ents": [[[8, []]]]}
    for k in strings_upto(A, 2, 0):
        yield {"kind": "gff", "ents": [[[8, [[k, "v"]]]]]}
    for v in strings_upto(A, 2, 0):
        yield {"kind": "gff", "ents": [[[8, [["k", v]]]]]}
    for k in A:
        for v in A:
            yield {"kind": "gff", "ents": [[[8, [[k, v]]]]]}
            for v2 in ("v", "b ", ";", ""):
                yield {"kind": "gff", "ents": [[[8, [[k, v], ["z", v2]]]]]}
                yield {"kind": "gff", "ents": [[[8, [["z", v2], [k, v]]]]]}
    for attrs in ([["", "v"], ["z", "w"]], [["z", "w"], ["", "v"]], [["", ""], ["z", "w"]], [["z", "w"], ["", ""]],
                  [["a", "1"], ["b", ""], ["c", "3"]], [["a", ""], ["b", "2"], ["c", ""]], [["a", ""], ["b", ""], ["c", ""]],
                  [["a", "1"], ["", "2"], ["c", "3"]], [["", ""]]):
        yield {"kind": "gff", "ents": [[[8, attrs]]]}
    for v in ("Parent=x", "a b c", "x\ny", "1,2", "%3B", "%25", "ID", L * 300, "b  ", "  ", " b", "\nx", "x\n", "\n",
              "x\n\ny", "\n\nx"):
        yield {"kind": "gff", "ents": [[[8, [["ID", "i1"], ["Note", v]]]]]}
        yield {"kind": "gff", "ents": [[[8, [["Note", v], ["ID", "i1"]]]]]}
    # pairs of column deviations
    colvals = [[0, L + ";b"], [0, L + " b"], [1, L + "%b"], [2, "CDS"], [5, 0.5], [6, -1], [6, 0], [7, 2],
               [8, [[";", "="]]], [8, [["k", "v "]]], [8, None], [8, [["a", "1"], ["b", "2"], ["c", "3"]]]]
    for d1, d2 in itertools.combinations(colvals, 2):
        if d1[0] != d2[0]:
            yield {"kind": "gff", "ents": [[d1, d2]]}
    # multi-entry files (order, independence of lines)
    single = [[], [[0, L + ";b"]], [[6, -1], [7, 1]], [[8, [["k", "v;"], ["Parent", "x"]]]], [[5, 2.5], [8, None]], [[2, "CDS"], [3, 9], [4, 9]]]
    for k in (2, 3):
        for combo in itertools.permutations(single, k):
            yield {"kind": "gff", "ents": [list(c) for c in combo]}


# ---- annotation level ------------------------------------------------------
def gen_gff_annot(tier, seed):
    P = POS_PALETTES[seed % 5]
    L = LETTERS[seed % 5]
    bases = gb_bases(P)
    atoms = [[f, la, s, d] for f, la in bases for s in (1, -1) for d in (0, BEY_L, UNK)]
    quals = [[], [["note", "a b"]], [["note", L + ";" + L + "=%,"]], [["note", "l1\nl2"]], [["Name", "é"]], [["note", " b"]],
             [["note", "\nb"]], [["note", "b\n"]], [["note", ""]]]
    for key in ("gene", "CDS"):
        for a in atoms:
            for q in quals:
                yield {"kind": "gff_annot", "feats": [feat([a], q, key)], "seqid": "s", "source": "src"}
                yield {"kind": "gff_annot", "feats": [feat([a], [["ID", "f1"]] + q, key)], "seqid": None, "source": None}
        for a, c in itertools.combinations(atoms, 2):
            yield {"kind": "gff_annot", "feats": [feat([a, c], [["ID", "f1"]], key)], "seqid": "s", "source": "src"}
        for tri in itertools.combinations(bases, 3):
            for strands in itertools.product((1, -1), repeat=3):
                locs = [[f, la, s, 0] for (f, la), s in zip(tri, strands)]
                yield {"kind": "gff_annot", "feats": [feat(locs, [["ID", "f1"], ["note", "x"]], key)], "seqid": "s", "source": "src"}
    # multi-location feature without ID: documented refusal
    yield {"kind": "gff_annot", "feats": [feat([atoms[0], atoms[7]], [], "gene")], "seqid": "s", "source": "src", "refuse": "no_id"}
    yield {"kind": "gff_annot", "feats": [feat([atoms[0]], [], "gene")], "seqid": "a b", "source": "src", "refuse": "seqid_space"}
    # two / three features
    pal = [feat([atoms[0]], [["ID", "f1"]]), feat([atoms[0]], [["ID", "f2"]], "CDS"), feat([atoms[1], atoms[20]], [["ID", "f3"]], "CDS"),
           feat([atoms[9]], []), feat([atoms[9]], [["note", "a b"]]), feat([atoms[30], atoms[4], atoms[17]], [["ID", "f4"], ["note", ";"]], "mRNA"),
           feat([atoms[12]], [["ID", "f5"], ["Parent", "f4"]], "exon")]
    yield {"kind": "gff_annot", "feats": [], "seqid": "s", "source": "src"}
    for k in (2, 3):
        for combo in itertools.combinations(pal, k):
            yield {"kind": "gff_annot", "feats": list(combo), "seqid": "s", "source": "src"}


def gff_annot_eval(b, case):
    feats = case["feats"]
    GFFFile = b.gff.GFFFile
    try:
        annot = b.Annotation([mk_feature(b, ft) for ft in feats])
    except Exception as e:  # noqa: BLE001
        return ("harness_%s" % exc_name(e), "constructible", repr(e))
    f = GFFFile()
    try:
        b.gff.set_annotation(f, annot, seqid=case["seqid"], source=case["source"])
        if case.get("refuse"):
            return ("not_refused", "ValueError", "written")
    except Exception as e:  # noqa: BLE001
        if case.get("refuse"):
            return None
        return ("write_%s" % exc_name(e), "success", repr(e))
    try:
        text = text_of(f)
        g = GFFFile.read(io.StringIO(text))
        got = annot_model(b, b.gff.get_annotation(g))
        rows = [gff_view(b, g[i]) for i in range(len(g))]
    except Exception as e:  # noqa: BLE001
        return ("unparsable_%s" % exc_name(e), "annotation", [repr(e), text if "text" in dir() else None])
    exp = expected_annots(feats, drop_defects=True)[0]
    if got != exp:
        return ("annotation", show_annot(exp), show_annot(got))
    es, eo = ("." if case["seqid"] is None else case["seqid"]), ("." if case["source"] is None else case["source"])
    if any(r[0] != es or r[1] != eo for r in rows):
        return ("seqid_source", [es, eo], rows[:2])
    return None


def check_gff_annot(case, ctx):
    b = B()
    feats = case["feats"]
    ctx.ev(1, 1 if (len(feats) != 1 or len(feats[0]["locs"]) > 1 or feats[0]["locs"][0][2] < 0 or feats[0]["locs"][0][3]
                    or any(value_class(v) != "plain" for _, v in feats[0]["qual"])) else 0)
    ctx.count("refused" if case.get("refuse") else "accepted")
    fail = gff_annot_eval(b, case)
    ctx.outcome(("gffa", json.dumps(case, sort_keys=True), fail is None))
    if fail is None:
        return
    mode, exp, obs = fail
    # attribute to a single feature / single location / qualifier
    cls = None
    if len(feats) > 1:
        for ft in feats:
            if gff_annot_eval(b, {**case, "feats": [ft]}) is not None:
                feats = [ft]
                break
        else:
            cls = "feature_set"
    if cls is None and len(feats) == 1:
        ft = feats[0]
        if ft["qual"] and gff_annot_eval(b, {**case, "feats": [{**ft, "qual": [q for q in ft["qual"] if q[0] == "ID"]}]}) is None:
            cls = "qual_" + attrs_class([q for q in ft["qual"] if q[0] != "ID"] or ft["qual"])
        elif len(ft["locs"]) > 1:
            cls = "locs%d_%s" % (len(ft["locs"]), "mixed" if len({l[2] for l in ft["locs"]}) > 1 else "same_strand")
        else:
            l = ft["locs"][0]
            cls = "%s_%s_%s" % ("single_base" if l[0] == l[1] else "range", "fwd" if l[2] > 0 else "rev", defect_name(l[3]))
    if case.get("refuse"):
        cls = "refuse_" + case["refuse"]
    ctx.violation("gff|annotation|%s|%s" % (mode, cls or "empty"), "annotation written to GFF3 is not recovered", case, exp, obs)


# ===========================================================================
# general.py convenience functions (small; needs real paths)
# ===========================================================================
def gen_general(tier, seed):
    for ext, kind in ((".fasta", "dna"), (".fa", "prot"), (".fastq", "dna"), (".fq", "dna"), (".gb", "dna"), (".gbk", "dna"),
                      (".gp", "prot")):
        for s in (["A", "ACGT", "ACGTN" * 13, "NRY"] if kind == "dna" else ["M", "MKL*", "MKLX" * 21, "LW*"]):
            yield {"kind": "general", "ext": ext, "s": s, "t": kind}


def check_general(case, ctx):
    import os
    import shutil
    import tempfile

    b = B()
    from biotite.sequence.io.general import load_sequence, load_sequences, save_sequence, save_sequences

    ctx.ev(1, 1)
    ctx.count("accepted")
    d = tempfile.mkdtemp(prefix="c12-general-")
    try:
        so = seq_object(b, case["s"], case["t"])
        p = os.path.join(d, "x" + case["ext"])
        try:
            save_sequence(p, so)
            r = load_sequence(p)
            res = [type(r).__name__, str(r)]
            if case["ext"] in (".fasta", ".fa"):
                p2 = os.path.join(d, "y" + case["ext"])
                save_sequences(p2, {"k1": so, "k 2": so[::-1] if len(so) else so})
                rs = load_sequences(p2)
                res.append([[k, str(v)] for k, v in rs.items()])
        except Exception as e:  # noqa: BLE001
            ctx.violation("general|%s|%s" % (exc_name(e), case["ext"]), "save_sequence/load_sequence raised", case, case["s"],
                          repr(e))
            return
        exp = list(guessed(b, case["s"])) if case["ext"] in (".fasta", ".fa") else [type(so).__name__, str(so)]
        if case["ext"] in (".fasta", ".fa"):
            gk = guessed(b, str(so[::-1]))[1]
            exp.append([["k1", exp[1]], ["k 2", gk]])
        ctx.outcome(("general", res))
        if res != exp:
            ctx.violation("general|differs|%s" % case["ext"], "sequence loaded differs from the one saved", case, exp, res)
    finally:
        shutil.rmtree(d, ignore_errors=True)


# ===========================================================================
# E1: edit histories
# ===========================================================================
class Refuse(Exception):
    def __init__(self, classes=None):
        self.classes = classes


def move_or_keep(items, key, new):
    """Models of 'assign to an existing key': position kept (dict) or entry moved to the end."""
    keep = [(k, (new if k == key else v)) for k, v in items]
    move = [(k, v) for k, v in items if k != key] + [(key, new)]
    return [keep] if keep == move else [keep, move]


class FastaSpec:
    name = "fasta"

    @staticmethod
    def configs(tier, seed):
        L = LETTERS[seed % 5]
        return [{"fmt": "fasta", "cpl": c, "init": i, "L": L, "big": tier == "thorough" and c == 3}
                for c in CPLS for i in ("empty", "text")]

    @staticmethod
    def init_text(cfg):
        return ">%s\nAC\nGT\n; comment\n\n>b\nA\n" % cfg["L"]

    @staticmethod
    def init(cfg):
        b = B()
        if cfg["init"] == "empty":
            return b.fasta.FastaFile(chars_per_line=cfg["cpl"]), []
        f = b.fasta.FastaFile.read(io.StringIO(FastaSpec.init_text(cfg)), chars_per_line=cfg["cpl"])
        return f, [(cfg["L"], "ACGT"), ("b", "A")]

    @staticmethod
    def ops(m, cfg, tier):
        L = cfg["L"]
        keys = [L, "b", L + "b", L + " b"]
        vals = ["", "AC", "ACGTA"] + (["ACGTACG"] if cfg.get("big") else [])
        mx = 4
        have = [k for k, _ in m]
        out = []
        for k in keys:
            for v in vals:
                if k in have or len(m) < mx:
                    out.append(["set", k, v])
            out.append(["del", k])
        leaves = [["set", " " + L + "w", "AC"], ["set", L + "w\n", "AC"], ["del", "zz"], ["set", L, 5], ["set", "b", None],
                  ["set", 7, "AC"]]
        return out, leaves

    @staticmethod
    def model(m, op, cfg):
        if op[0] == "set":
            if not isinstance(op[1], str) or not isinstance(op[2], str):
                raise Refuse(None)  # 'only supports header strings as keys / sequence strings as values'
            if header_class(op[1]) != "plain":
                return "unspec", None
            if op[1] in [k for k, _ in m]:
                return "accept", move_or_keep(m, op[1], op[2])
            return "accept", [m + [(op[1], op[2])]]
        if op[0] == "del":
            if op[1] not in [k for k, _ in m]:
                raise Refuse(("KeyError",))
            return "accept", [[(k, v) for k, v in m if k != op[1]]]
        raise ValueError(op)

    @staticmethod
    def apply(f, op, cfg):
        if op[0] == "set":
            f[op[1]] = op[2]
        else:
            del f[op[1]]

    @staticmethod
    def live(f):
        keys = list(f)
        items = [(k, v) for k, v in f.items()]
        if [k for k, _ in items] != keys or len(f) != len(keys) or any(f[k] != v for k, v in items) or any(k not in f for k in keys):
            return ("incoherent", keys, items, len(f))
        return items

    @staticmethod
    def parsed(f, cfg):
        b = B()
        text = text_of(f)
        try:
            g = b.fasta.FastaFile.read(io.StringIO(text), chars_per_line=cfg["cpl"])
        except b.InvalidFileError:
            if text.strip() == "":
                return []
            raise
        it = list(b.fasta.FastaFile.read_iter(io.StringIO(text)))
        items = [(k, v) for k, v in g.items()]
        return items if it == items else ("read_iter_differs", items, it)

    @staticmethod
    def extra(f, m, cfg):
        bad = []
        for k in ("zz", cfg["L"] + "q"):
            if k in f:
                bad.append(("contains_missing", False, True))
            try:
                f[k]
                bad.append(("get_missing", "KeyError", "returned"))
            except KeyError:
                pass
        return bad

    @staticmethod
    def canon(f):
        return (tuple(f.lines), tuple(f._entries.items()))

    @staticmethod
    def opclass(op, m):
        if op[0] == "set":
            if not isinstance(op[1], str) or not isinstance(op[2], str):
                return "set_wrong_type"
            if header_class(op[1]) != "plain":
                return "set_header_outer_whitespace"
            return "set_existing" if op[1] in [k for k, _ in m] else "set_new"
        return "del" if op[1] in [k for k, _ in m] else "del_missing"


class FastqSpec:
    name = "fastq"

    @staticmethod
    def configs(tier, seed):
        L = LETTERS[seed % 5]
        offs = ["Sanger", "Illumina-1.3"] + ([INT_OFFSETS[seed % 5][1]] if tier == "thorough" else [])
        return [{"fmt": "fastq", "o": o, "w": w, "init": i, "L": L, "big": tier == "thorough" and o == "Sanger" and i == "empty"}
                for o in offs for w in WIDTHS for i in ("empty", "text")]

    @staticmethod
    def init(cfg):
        b = B()
        ov = offset_value(cfg["o"])
        if cfg["init"] == "empty":
            return b.fastq.FastqFile(offset=cfg["o"], chars_per_line=cfg["w"]), []
        q = "".join(chr(c) for c in (64, 43, 64, 126))
        text = "@%s\nAC\nGT\n+%s\n%s\n\n@b\nA\n+\n@\n" % (cfg["L"], cfg["L"], q)
        f = b.fastq.FastqFile.read(io.StringIO(text), offset=cfg["o"], chars_per_line=cfg["w"])
        return f, [(cfg["L"], ("ACGT", [64 - ov, 43 - ov, 64 - ov, 126 - ov])), ("b", ("A", [64 - ov]))]

    @staticmethod
    def ops(m, cfg, tier):
        L = cfg["L"]
        ov = offset_value(cfg["o"])
        at, pl, lo = 64 - ov, 43 - ov, 33 - ov
        big = cfg.get("big")
        keys = [L, "b", L + "b"] + (["@" + L] if big else [])
        vals = [["AC", [at, pl]], ["ACG", [pl, at, at]], ["A", [at]], ["ACGTA", [lo, pl, at, pl, at]]]
        if not big:
            vals.append(["", []])
        have = [k for k, _ in m]
        out = []
        for k in keys:
            for v in vals:
                if k in have or len(m) < (4 if big else 3):
                    out.append(["set", k, v])
            out.append(["del", k])
        leaves = [["set", " " + L + "w", vals[0]], ["del", "zz"], ["set", L, ["ACG", [at]]], ["set", "b", ["A", [at, pl]]],
                  ["set", 7, ["A", [at]]], ["set", L, ["A", [200]]], ["set", "b", ["AC", [at, 200]]]]
        return out, leaves

    @staticmethod
    def model(m, op, cfg):
        if op[0] == "set":
            if not isinstance(op[1], str) or len(op[2][0]) != len(op[2][1]):
                raise Refuse(None)  # documented ValueError (lengths) / IndexError (identifier type)
            ov = offset_value(cfg["o"])
            if header_class(op[1]) != "plain" or any(not (33 <= x + ov <= 126) for x in op[2][1]):
                return "unspec", None
            v = (op[2][0], list(op[2][1]))
            if op[1] in [k for k, _ in m]:
                return "accept", move_or_keep(m, op[1], v)
            return "accept", [m + [(op[1], v)]]
        if op[0] == "del":
            if op[1] not in [k for k, _ in m]:
                raise Refuse(("KeyError",))
            return "accept", [[(k, v) for k, v in m if k != op[1]]]
        raise ValueError(op)

    @staticmethod
    def apply(f, op, cfg):
        if op[0] == "set":
            f[op[1]] = (op[2][0], op[2][1])
        else:
            del f[op[1]]

    @staticmethod
    def live(f):
        keys = list(f)
        items = [(k, (s, q.tolist())) for k, (s, q) in f.items()]
        if [k for k, _ in items] != keys or len(f) != len(keys) or any(k not in f for k in keys) \
                or any(f.get_seq_string(k) != v[0] or f.get_quality(k).tolist() != v[1] for k, v in items):
            return ("incoherent", keys, items, len(f))
        return items

    @staticmethod
    def parsed(f, cfg):
        b = B()
        text = text_of(f)
        try:
            g = b.fastq.FastqFile.read(io.StringIO(text), offset=cfg["o"], chars_per_line=cfg["w"])
        except b.InvalidFileError:
            if text.strip() == "":
                return []
            raise
        items = [(k, (s, q.tolist())) for k, (s, q) in g.items()]
        it = [(k, (s, q.tolist())) for k, (s, q) in b.fastq.FastqFile.read_iter(io.StringIO(text), offset=cfg["o"])]
        return items if it == items else ("read_iter_differs", items, it)

    extra = FastaSpec.extra

    @staticmethod
    def canon(f):
        return (tuple(f.lines), tuple(f._entries.items()))

    @staticmethod
    def opclass(op, m):
        if op[0] == "set":
            if not isinstance(op[1], str):
                return "set_wrong_key_type"
            if len(op[2][0]) != len(op[2][1]):
                return "set_length_mismatch"
            if any(x >= 200 for x in op[2][1]):
                return "set_score_not_printable"
            if op[2][0] == "":
                return "set_empty_read"
            if header_class(op[1]) != "plain":
                return "set_identifier_outer_whitespace"
            return "set_existing" if op[1] in [k for k, _ in m] else "set_new"
        return "del" if op[1] in [k for k, _ in m] else "del_missing"


GB_VALUES = [
    ["A", ["x"], None],
    ["B", ["y", " z"], [["S", ["s1", "s2"]], ["T", ["t"]]]],
    ["FEATURES", ["     gene            1..5", '                     /gene="x"'], None],
    ["ORIGIN", ["        1 acgt"], None],
    ["A", ["x2", ""], [["S", ["q"]]]],
]
GB_EMPTY_LINE_VALUES = [
    ["C", ["", "x"], [["S", ["", "s2"]], ["T", ["t", ""]]]],
    ["D", ["a", "", "b"], [["S", ["s", "", "t"]]]],
    ["E", [""], [["S", [""]]]],
]
GB_TEXT = """LOCUS       AB000001                  12 bp    DNA     linear   BCT 01-JAN-2000
SOURCE      Some organism
  ORGANISM  Some organism
            Bacteria; Test.
ORIGIN
        1 acgtacgtac gt
//
"""
GB_TEXT_MODEL = [
    ["LOCUS", ["AB000001                  12 bp    DNA     linear   BCT 01-JAN-2000"], []],
    ["SOURCE", ["Some organism"], [["ORGANISM", ["Some organism", "Bacteria; Test."]]]],
    ["ORIGIN", ["        1 acgtacgtac gt"], []],
]


def gb_norm(v):
    return [v[0], list(v[1]), [[k, list(x)] for k, x in (v[2] or [])]]


class GenBankSpec:
    name = "genbank"

    @staticmethod
    def configs(tier, seed):
        r = seed % 5
        vals = GB_VALUES[r:] + GB_VALUES[:r]
        if tier == "quick":
            out = [{"fmt": "genbank", "init": "empty", "vals": vals[:4], "mx": 4},
                   {"fmt": "genbank", "init": "text", "vals": [vals[0], vals[1]], "mx": 4},
                   {"fmt": "genbank", "init": "empty", "vals": [vals[4], vals[0], vals[2]], "mx": 3},
                   {"fmt": "genbank", "init": "empty", "vals": GB_EMPTY_LINE_VALUES, "mx": 3}]
        else:
            out = [{"fmt": "genbank", "init": "empty", "vals": vals, "mx": 4},
                   {"fmt": "genbank", "init": "empty", "vals": [vals[4], vals[0], vals[2]], "mx": 5},
                   {"fmt": "genbank", "init": "empty", "vals": [vals[1], vals[3], vals[0]], "mx": 5},
                   {"fmt": "genbank", "init": "text", "vals": vals[:3], "mx": 5},
                   {"fmt": "genbank", "init": "empty", "vals": GB_EMPTY_LINE_VALUES + [vals[1]], "mx": 4}]
        return out

    @staticmethod
    def init(cfg):
        b = B()
        if cfg["init"] == "empty":
            return b.gb.GenBankFile(), []
        return b.gb.GenBankFile.read(io.StringIO(GB_TEXT)), [gb_norm(v) for v in GB_TEXT_MODEL]

    @staticmethod
    def ops(m, cfg, tier):
        n = len(m)
        vals = cfg["vals"]
        out = []
        for v in vals:
            if n < cfg["mx"]:
                out.append(["app", v])
                for i in range(-n, n + 1):
                    out.append(["ins", i, v])
            for i in range(-n, n):
                out.append(["set", i, v])
            names = [x[0] for x in m]
            if n < cfg["mx"] or names.count(v[0]) >= 1:
                out.append(["set_field", v])
        for i in range(-n, n):
            out.append(["del", i])
        v0 = vals[0]
        leaves = [["get", -n - 1], ["get", n], ["set", -n - 1, v0], ["set", n, v0], ["del", -n - 1], ["del", n],
                  ["ins", -n - 1, v0], ["ins", n + 1, v0], ["app", ["C", [], None]], ["set_field", ["C", [], None]]]
        if n:
            leaves.append(["set", 0, ["C", [], None]])
            leaves += [["set_raw", 0, "notatuple"], ["set_raw", -1, ["A"]], ["set_raw", 0, ["A", ["x"], None, None]]]
        leaves += [["app", [" ", ["x"], None]], ["ins", 0, ["", ["x"], None]], ["set_field", ["", ["x"], None]]]
        return out, leaves

    @staticmethod
    def model(m, op, cfg):
        n = len(m)
        k = op[0]
        if k == "set_raw" or (k in ("app", "ins", "set", "set_field") and op[-1][0].strip() == ""):
            raise Refuse(None)  # documented TypeError (item is not a 2- or 3-tuple) / ValueError (empty name)
        if k in ("app", "set", "set_field") and len(op[-1][1]) == 0:
            return "outside", None
        if k in ("get", "set", "del", "ins") and op[1] < -n:
            return "outside", None
        if k == "get":
            return "unspec", None
        if k == "app":
            return "accept", [m + [gb_norm(op[1])]]
        if k == "ins":
            if not (-n <= op[1] <= n):
                return "unspec", None
            x = list(m)
            x.insert(op[1], gb_norm(op[2]))
            return "accept", [x]
        if k == "set":
            if not (-n <= op[1] < n):
                return "unspec", None
            x = list(m)
            x[op[1]] = gb_norm(op[2])
            return "accept", [x]
        if k == "del":
            if not (-n <= op[1] < n):
                return "unspec", None
            x = list(m)
            del x[op[1]]
            return "accept", [x]
        if k == "set_field":
            idx = [i for i, f in enumerate(m) if f[0] == op[1][0]]
            if len(idx) > 1:
                raise Refuse(("InvalidFileError",))
            x = list(m)
            if idx:
                x[idx[0]] = gb_norm(op[1])
            else:
                x.append(gb_norm(op[1]))
            return "accept", [x]
        raise ValueError(op)

    @staticmethod
    def _args(v):
        return v[0], list(v[1]), (None if v[2] is None else {k: list(x) for k, x in v[2]})

    @staticmethod
    def apply(f, op, cfg):
        k = op[0]
        if k == "get":
            f[op[1]]
        elif k == "app":
            f.append(*GenBankSpec._args(op[1]))
        elif k == "ins":
            f.insert(op[1], *GenBankSpec._args(op[2]))
        elif k == "set":
            name, content, sub = GenBankSpec._args(op[2])
            f[op[1]] = (name, content) if sub is None else (name, content, sub)
        elif k == "del":
            del f[op[1]]
        elif k == "set_field":
            f.set_field(*GenBankSpec._args(op[1]))
        elif k == "set_raw":
            f[op[1]] = op[2] if isinstance(op[2], str) else tuple(op[2])

    @staticmethod
    def _view(field):
        name, content, sub = field
        return [name, list(content), [[k, list(v)] for k, v in sub.items()]]

    @staticmethod
    def live(f):
        n = len(f)
        items = [GenBankSpec._view(f[i]) for i in range(n)]
        neg = [GenBankSpec._view(f[i - n]) for i in range(n)]
        it = [GenBankSpec._view(x) for x in f]
        if neg != items or it != items:
            return ("incoherent", items, neg, it)
        for name in {x[0] for x in items} | {"ZZ"}:
            idx = [i for i, x in enumerate(items) if x[0] == name]
            if f.get_indices(name) != idx or f.get_indices(name.lower()) != idx:
                return ("incoherent_get_indices", name, idx, f.get_indices(name))
            flds = [[list(c), [[k, list(v)] for k, v in s.items()]] for c, s in f.get_fields(name)]
            if flds != [items[i][1:] for i in idx]:
                return ("incoherent_get_fields", name, flds)
        return items

    @staticmethod
    def parsed(f, cfg):
        b = B()
        text = text_of(f)
        g = b.gb.GenBankFile.read(io.StringIO(text))
        items = [GenBankSpec._view(g[i]) for i in range(len(g))]
        if not text.endswith("//\n"):
            return ("no_terminator", text[-20:])
        return items

    @staticmethod
    def extra(f, m, cfg):
        return []

    @staticmethod
    def canon(f):
        return (tuple(f.lines), tuple(f._field_pos))

    @staticmethod
    def opclass(op, m):
        n = len(m)
        k = op[0]
        if k == "set_raw":
            return "set_item_not_a_field_tuple"
        v = op[-1] if k != "del" and k != "get" else None
        if v is not None and v[0].strip() == "":
            return k + "_empty_name"
        if v is not None and len(v[1]) == 0:
            return "empty_content"
        if k in ("get", "set", "del", "ins") and isinstance(op[1], int):
            i = op[1]
            hi = n if k == "ins" else n - 1
            if i < -n:
                return k + "_index_below_-len"
            if i > hi:
                return k + "_index_above_len"
            return k + ("_neg" if i < 0 else "") + ("" if v is None else "_" + GenBankSpec._vclass(v))
        if k == "set_field":
            c = [x[0] for x in m].count(v[0])
            return "set_field_" + ("new" if c == 0 else ("existing" if c == 1 else "ambiguous"))
        return k + ("" if v is None else "_" + GenBankSpec._vclass(v))

    @staticmethod
    def _vclass(v):
        if v[0] in ("FEATURES", "ORIGIN"):
            return v[0].lower()
        return "subfields" if v[2] else "plain"


def gff_hist_values(L):
    return [
        [],
        [[0, L + ";b"], [6, -1], [7, 1], [8, [["k", "v;"], ["Parent", "x"]]]],
        [[5, 2.5], [8, None], [2, "CDS"]],
    ]


GFF_TEXT = ("##gff-version 3\n#comment\n\ns\tsrc\tgene\t1\t5\t.\t+\t.\tID=x\n##dir a\n  \n"
            "q\tsrc\tCDS\t2\t3\t0.5\t-\t0\t.\n")


class GffSpec:
    name = "gff"

    @staticmethod
    def configs(tier, seed):
        L = LETTERS[seed % 5]
        return [{"fmt": "gff", "init": i, "L": L, "mx": 4 if (tier == "thorough" and d == 0) else 3, "dirs": d}
                for i in ("empty", "text") for d in (0, 1)]

    @staticmethod
    def init(cfg):
        b = B()
        if cfg["init"] == "empty":
            return b.gff.GFFFile(), {"e": [], "d": ["gff-version 3"]}
        f = b.gff.GFFFile.read(io.StringIO(GFF_TEXT))
        e0 = gff_expected(gff_entry([]))
        e1 = ["q", "src", "CDS", 2, 3, 0.5, -1, 0, {}]
        return f, {"e": [e0, e1], "d": ["gff-version 3", "dir a"]}

    @staticmethod
    def ops(m, cfg, tier):
        n = len(m["e"])
        vals = gff_hist_values(cfg["L"])
        out = []
        for v in vals:
            if n < cfg["mx"]:
                out.append(["app", v])
                for i in range(-n, n + 1):
                    out.append(["ins", i, v])
            for i in range(-n, n):
                out.append(["set", i, v])
        for i in range(-n, n):
            out.append(["del", i])
        ndir = len(m["d"]) - (1 if cfg["init"] == "empty" else 2)
        if ndir < cfg["dirs"]:
            out.append(["dir", "x-dir", ["p1", "p 2"]])
            out.append(["dir", "y", []])
        leaves = [["get", -n - 1], ["get", n], ["set", -n - 1, vals[0]], ["set", n, vals[0]], ["del", -n - 1], ["del", n],
                  ["ins", -n - 1, vals[0]], ["ins", n + 1, vals[0]], ["app", [[0, ">x"]]], ["app", [[0, "#x"]]]]
        return out, leaves

    @staticmethod
    def model(m, op, cfg):
        n = len(m["e"])
        k = op[0]
        if k == "get":
            return "unspec", None
        if k == "dir":
            return "accept", [{"e": m["e"], "d": m["d"] + [op[1] + " " + " ".join(op[2])]}]
        if k == "app":
            e = gff_entry(op[1])
            if gff_refused(e):
                raise Refuse(None)
            if e[0].startswith("#"):
                return "unspec", None
            return "accept", [{"e": m["e"] + [gff_expected(e)], "d": m["d"]}]
        x = list(m["e"])
        if k == "ins":
            if not (-n <= op[1] <= n):
                return "unspec", None
            x.insert(op[1], gff_expected(gff_entry(op[2])))
        elif k == "set":
            if not (-n <= op[1] < n):
                return "unspec", None
            x[op[1]] = gff_expected(gff_entry(op[2]))
        elif k == "del":
            if not (-n <= op[1] < n):
                return "unspec", None
            del x[op[1]]
        else:
            raise ValueError(op)
        return "accept", [{"e": x, "d": m["d"]}]

    @staticmethod
    def apply(f, op, cfg):
        b = B()
        k = op[0]
        if k == "get":
            f[op[1]]
        elif k == "dir":
            f.append_directive(op[1], *op[2])
        elif k == "app":
            f.append(*gff_args(b, gff_entry(op[1])))
        elif k == "ins":
            f.insert(op[1], *gff_args(b, gff_entry(op[2])))
        elif k == "set":
            f[op[1]] = tuple(gff_args(b, gff_entry(op[2])))
        elif k == "del":
            del f[op[1]]

    @staticmethod
    def live(f):
        b = B()
        n = len(f)
        items = [gff_view(b, f[i]) for i in range(n)]
        neg = [gff_view(b, f[i - n]) for i in range(n)]
        it = [gff_view(b, x) for x in f]
        if neg != items or it != items:
            return ("incoherent", items, neg, it)
        d = f.directives()
        if any(f.lines[i] != "##" + t for t, i in d) or [i for _, i in d] != sorted(i for _, i in d):
            return ("incoherent_directives", d)
        return {"e": items, "d": [t.rstrip(" ") for t, _ in d], "dl": [i for _, i in d]}

    @staticmethod
    def parsed(f, cfg):
        b = B()
        text = text_of(f)
        with warnings.catch_warnings():
            warnings.simplefilter("ignore")
            g = b.gff.GFFFile.read(io.StringIO(text))
        return GffSpec.live(g)

    @staticmethod
    def extra(f, m, cfg):
        return []

    @staticmethod
    def canon(f):
        return (tuple(f.lines), tuple(f._entries), tuple(f._directives), f._has_fasta)

    @staticmethod
    def opclass(op, m):
        n = len(m["e"])
        k = op[0]
        if k == "dir":
            return "append_directive"
        if k == "app":
            e = gff_entry(op[1])
            return "append" + ("_seqid_" + str_class(e[0]) if str_class(e[0]) != "plain" and not op[1][1:] else "")
        i = op[1]
        hi = n if k == "ins" else n - 1
        if i < -n:
            return k + "_index_below_-len"
        if i > hi:
            return k + "_index_above_len"
        return k + ("_neg" if i < 0 else "")


SPECS = {"fasta": FastaSpec, "fastq": FastqSpec, "genbank": GenBankSpec, "gff": GffSpec}


def strip_model(spec, view):
    """The model carries only content; drop harness-only parts of a view (directive line numbers)."""
    if isinstance(view, dict) and "dl" in view:
        return {"e": view["e"], "d": view["d"]}
    return view


def model_eq(spec, view, m):
    if isinstance(m, dict):
        return isinstance(view, dict) and view["d"] == [t.rstrip(" ") for t in m["d"]] and len(view["e"]) == len(m["e"]) \
            and all(same_entry(x, y) for x, y in zip(m["e"], view["e"]))
    return view == m


def observe_state(spec, f, m, cfg):
    """Complete observation: live view == model, parse(write()) == model, live == parsed (incl. directive lines)."""
    bad = []
    try:
        live = spec.live(f)
    except Exception as e:  # noqa: BLE001
        return [("live_view_raises_" + exc_name(e), m, repr(e))]
    if isinstance(live, tuple) and live and isinstance(live[0], str) and live[0].startswith("incoherent"):
        return [(live[0], m, list(live[1:]))]
    if not model_eq(spec, live, m):
        return [("live_view", m, strip_model(spec, live))]
    try:
        parsed = spec.parsed(f, cfg)
    except Exception as e:  # noqa: BLE001
        return [("text_unparsable_" + exc_name(e), m, [repr(e), text_of(f)[:400]])]
    if isinstance(parsed, tuple) and parsed and isinstance(parsed[0], str):
        return [(parsed[0], m, list(parsed[1:]))]
    if not model_eq(spec, parsed, m):
        return [("parsed_view", m, strip_model(spec, parsed))]
    if isinstance(live, dict) and live.get("dl") != parsed.get("dl"):
        return [("directive_lines", parsed.get("dl"), live.get("dl"))]
    bad += spec.extra(f, m, cfg)
    return bad


def self_consistent(spec, f, cfg):
    """For unspecified operations: whatever happened, the live view must equal the parsed view."""
    try:
        live = spec.live(f)
    except Exception as e:  # noqa: BLE001
        return ("live_view_raises_" + exc_name(e), None, repr(e))
    if isinstance(live, tuple) and live and isinstance(live[0], str) and live[0].startswith("incoherent"):
        return (live[0], None, list(live[1:]))
    try:
        parsed = spec.parsed(f, cfg)
    except Exception as e:  # noqa: BLE001
        return ("text_unparsable_" + exc_name(e), strip_model(spec, live), [repr(e), text_of(f)[:300]])
    if isinstance(parsed, tuple) and parsed and isinstance(parsed[0], str):
        return (parsed[0], strip_model(spec, live), list(parsed[1:]))
    if isinstance(live, dict):
        ok = model_eq(spec, parsed, {"e": live["e"], "d": live["d"]}) and live["dl"] == parsed["dl"]
    else:
        ok = live == parsed
    if not ok:
        return ("live_differs_from_parsed", strip_model(spec, parsed), strip_model(spec, live))
    return None


def hist_rebuild(spec, cfg, hist):
    f, m = spec.init(cfg)
    for op in hist:
        spec.apply(f, op, cfg)
    return f


def hist_step(spec, cfg, hist, m, op, ctx):
    """Execute op at the state reached by hist (model m).  Returns the new model or None."""
    case = {"kind": "hist", "cfg": cfg, "hist": hist + [op]}
    oc = spec.opclass(op, m)
    pre = "%s|hist" % spec.name
    f = hist_rebuild(spec, cfg, hist)
    ctx.transition()
    ctx.trace()
    try:
        kind, alts = spec.model(m, op, cfg)
        refuse = None
    except Refuse as r:
        kind, alts, refuse = "refuse", None, r
    try:
        spec.apply(f, op, cfg)
        raised = None
    except Exception as e:  # noqa: BLE001
        raised = e
    changed = kind == "accept" and alts[0] != m
    ctx.ev(1, 1 if changed else 0)
    ctx.count({"accept": "accepted", "refuse": "refused", "unspec": "unspecified", "outside": "unspecified"}[kind])
    if kind == "outside":
        # inputs the statement does not name (index below -len, field without content lines): executed, the outcome is
        # recorded, nothing is demanded
        sc = self_consistent(spec, f, cfg)
        res = "raised" if raised is not None else ("self_consistent" if sc is None else "live_and_text_disagree")
        ctx.count("outside_statement_%s_%s_%s" % (spec.name, oc, res))
        ctx.outcome((spec.name, "outside", oc, res))
        return None
    if kind == "accept":
        if raised is not None:
            ctx.violation("%s|unexpected_%s|%s" % (pre, exc_name(raised), oc), "legal edit raised", case, "success", repr(raised))
            return None
        first_bad = None
        for alt in alts:
            bad = observe_state(spec, f, alt, cfg)
            if not bad:
                ctx.outcome((spec.name, op[0], json.dumps(alt, sort_keys=True, default=str)))
                return alt
            # report the alternative that got furthest (live view agreed, a later view did not)
            if first_bad is None or (first_bad[0][0] == "live_view" and bad[0][0] != "live_view"):
                first_bad = bad
        view, exp, got = first_bad[0]
        ctx.violation("%s|%s|%s" % (pre, view, oc), "after the edit the %s disagrees with the reference model" % view, case,
                      exp, got)
        return None
    if kind == "refuse":
        if raised is None:
            ctx.violation("%s|not_refused|%s" % (pre, oc), "documented refusal did not raise", case, refuse.classes, "returned")
            return None
        if refuse.classes and exc_name(raised) not in refuse.classes:
            ctx.violation("%s|refused_with_%s|%s" % (pre, exc_name(raised), oc), "refused with an undocumented exception class",
                          case, refuse.classes, repr(raised))
        bad = observe_state(spec, f, m, cfg)
        if bad:
            ctx.violation("%s|refused_but_changed_%s|%s" % (pre, bad[0][0], oc), "a refused edit changed the file", case,
                          bad[0][1], bad[0][2])
            return None
        # the next valid call on the SAME object must behave like on a fresh one
        nxt = next((o for o in spec.ops(m, cfg, ctx.tier)[0]), None)
        if nxt is not None:
            try:
                kind2, alts2 = spec.model(m, nxt, cfg)
            except Refuse:
                kind2 = None
            if kind2 == "accept":
                ctx.transition()
                try:
                    spec.apply(f, nxt, cfg)
                    bad2 = min((observe_state(spec, f, a, cfg) for a in alts2), key=len)
                except Exception as e:  # noqa: BLE001
                    bad2 = [("raised_" + exc_name(e), "success", repr(e))]
                if bad2:
                    ctx.violation("%s|after_refusal_%s|%s" % (pre, bad2[0][0], oc), "a valid edit directly after a refused one "
                                  "does not behave like on a fresh object", {**case, "then": nxt}, bad2[0][1], bad2[0][2])
        return None
    # unspecified: exception or not, the object must stay self-consistent
    sc = self_consistent(spec, f, cfg)
    ctx.outcome((spec.name, "unspec", oc, raised is None, sc is None))
    if sc is not None:
        ctx.violation("%s|inconsistent_after_unspecified_edit|%s" % (pre, oc),
                      "after an edit the statement does not specify (%s) the live view and the parsed text disagree: %s"
                      % ("it raised %s" % exc_name(raised) if raised is not None else "it returned", sc[0]), case, sc[1], sc[2])
    return None


def safe_step(spec, cfg, hist, m, op, ctx):
    try:
        return hist_step(spec, cfg, hist, m, op, ctx)
    except Exception as e:  # noqa: BLE001
        import traceback

        ctx.violation("%s|hist|unguarded_%s|%s" % (spec.name, exc_name(e), spec.opclass(op, m)),
                      "unexpected exception while executing / observing an edit",
                      {"kind": "hist", "cfg": cfg, "hist": hist + [op]}, "no exception",
                      "".join(traceback.format_exception(type(e), e, e.__traceback__))[-1500:])
        return None


def run_hist_initial(spec, cfg, ctx):
    ctx.ev(1)
    try:
        f0, m0 = spec.init(cfg)
    except Exception as e:  # noqa: BLE001
        ctx.violation("%s|hist|initial_file_%s|initial" % (spec.name, exc_name(e)), "the initial file cannot be built / parsed",
                      {"kind": "hist", "cfg": cfg, "hist": []}, "parsed initial text", repr(e))
        return None
    bad = observe_state(spec, f0, m0, cfg)
    if bad:
        ctx.violation("%s|hist|%s|initial" % (spec.name, bad[0][0]), "initial file disagrees with model",
                      {"kind": "hist", "cfg": cfg, "hist": []}, bad[0][1], bad[0][2])
        return None
    return f0, m0


def run_hist(cfg, ctx):
    spec = SPECS[cfg["fmt"]]
    cap = 6 if ctx.tier == "quick" else 8
    if cfg["fmt"] == "fastq" and cfg["w"] is None and not cfg.get("big"):
        # deleting a re-indexed empty-read entry leaves a blank line behind: the text space is unbounded, explore to depth 5
        cap = 5
    ctx.journal(json.dumps({"kind": "hist", "cfg": cfg}))
    r = run_hist_initial(spec, cfg, ctx)
    if r is None:
        return
    f0, m0 = r
    ctx.state((cfg["fmt"], spec.canon(f0)))
    frontier = [([], m0)]
    depth = 0
    while frontier and depth < cap:
        depth += 1
        nxt = []
        for hist, m in frontier:
            ops, leaves = spec.ops(m, cfg, ctx.tier)
            for op in ops + leaves:
                m2 = safe_step(spec, cfg, hist, m, op, ctx)
                if m2 is None or op in leaves:
                    continue
                f2 = hist_rebuild(spec, cfg, hist + [op])
                if ctx.state((cfg["fmt"], spec.canon(f2))):
                    nxt.append((hist + [op], m2))
                    if len(ctx.samples) < 2 and depth >= 3:
                        ctx.sample({"cfg": cfg, "hist": hist + [op]})
        frontier = nxt
    ctx.count("hist_fixpoint_reached" if not frontier else "hist_depth_cap_hit")
    ctx.count("hist_%s_explorations_ending_at_depth_%d" % (cfg["fmt"], depth))
    ctx.count("hist_%s_transitions" % cfg["fmt"], ctx.transitions)


def replay_hist(case, ctx):
    cfg = case["cfg"]
    spec = SPECS[cfg["fmt"]]
    hist = case["hist"]
    if not hist:
        run_hist_initial(spec, cfg, ctx)
        return
    try:
        f0, m = spec.init(cfg)
    except Exception:  # noqa: BLE001
        run_hist_initial(spec, cfg, ctx)
        return
    for i, op in enumerate(hist):
        m2 = safe_step(spec, cfg, hist[:i], m, op, ctx)
        if m2 is None:
            return
        m = m2




# ===========================================================================
# Dimension audit families (size switches, many items, aliasing, array flavours, order, reuse, error paths)
# ===========================================================================
def gen_sizes(tier, seed):
    """Size switches of the anchored code, each straddled: ORIGIN chunk (10) / line (60) boundaries, ORIGIN line number
    width (9 columns; numbers changing width inside one file), the 80-column mark of qualifier lines (21 + len), the 15
    character feature key column, the 12 character field name column, FASTA / FASTQ wrapping at exact multiples."""
    P = POS_PALETTES[seed % 5]
    an = [feat([[P[0], P[1], 1, 0]], [("note", "a b")])]
    for n in (19, 20, 21, 29, 30, 31, 49, 50, 51, 69, 70, 71, 179, 180, 181):
        for start in (1, 9, 10, 99, 100, 940, 999, 1000, 9940, 9999, 10000, 99940, 99999, 100000, 9999999, 10000000, 99999940):
            yield gbcase(an, seq=("ACGTTGCAAC" * 20)[:n], start=start)
    for start in (1, 9940, 99999940 - 10020):
        yield gbcase(an, seq=("ACGTTGCAAC" * 1003)[:10021], start=start)
    # qualifier lines ending just before / at / after column 80 (21 blanks + /note=" + value + ")
    for n in (49, 50, 51, 52, 57, 58, 59, 60, 61, 79, 80, 81, 159, 160, 161):
        for v in ("x" * n, ("ab " * 60)[:n].rstrip() + "c", ("word " * 40)[:n - 1] + "\n" + "y" * n):
            yield gbcase([feat([[P[0], P[1], 1, 0]], [("note", v)])])
            yield gbcase([feat([[P[0], P[1], -1, BEY_L], [P[2], P[2], 1, 0]], [("gene", "g"), ("note", v), ("pseudo", None)])])
    # feature key column: 14 / 15 fit; 16 does not (GenBank limit) -> counted only
    for n in (13, 14, 15):
        yield gbcase([feat([[P[0], P[1], 1, 0]], [("note", "x")], key="k" * n)])
    yield {"kind": "gb_unspec", "what": "feature_key_16", "feats": [feat([[P[0], P[1], 1, 0]], key="k" * 16)]}
    # field / sub-field name column (12)
    for n in (10, 11, 12):
        yield {"kind": "gb_field", "content": ["x", "", "y"], "sub": [["S" * min(n - 2, 10), ["s", ""]]], "name": "N" * n}
    for n in (8, 9, 10):
        yield {"kind": "gb_field", "content": ["x"], "sub": [["S" * n, ["", "s"]], ["T", ["t"]]], "name": "A"}
    # FASTA / FASTQ: exact multiples of the width for every width in use
    L = LETTERS[seed % 5]
    for cpl in (1, 2, 3, 7, 60, 80):
        for k in (1, 2, 3):
            for d in (-1, 0, 1):
                n = cpl * k + d
                if n >= 0:
                    yield {"kind": "fasta", "h": L + "s", "s": ("ACGTN" * (n // 5 + 1))[:n], "t": "iupac", "cpl": cpl}
                    if n > 0:
                        yield {"kind": "fastq", "o": "Sanger", "w": cpl, "id": L, "seq": ("ACGTN" * (n // 5 + 1))[:n],
                               "sc": [(31, 10, 0, 93)[(i + n) % 4] for i in range(n)], "ci": n}


def check_gb_unspec(case, ctx):
    """Inputs the format cannot express: executed, outcome counted, nothing demanded."""
    b = B()
    ctx.ev(1, 1)
    ctx.count("unspecified")
    fail, _ = gb_eval(b, case["feats"], DEFAULT_SEQ, 1, "gb")
    ctx.count("outside_statement_%s_%s" % (case["what"], "recovered" if fail is None else fail[0]))
    ctx.outcome(("gb_unspec", case["what"], fail is None))


def gen_many(tier, seed):
    """Many items: counts whose decimal representation changes width, more entries / features / locations /
    qualifiers / lines than any first-sized buffer."""
    P = POS_PALETTES[seed % 5]
    L = LETTERS[seed % 5]
    counts = (9, 10, 11, 99, 100, 101) + ((1000,) if tier == "thorough" else (257,))
    for n in counts:
        ents = [["%s%d" % (L, i), ("ACGTN" * 3)[: i % 13]] for i in range(n)]
        for cpl in (3, 80):
            yield {"kind": "fasta_multi", "ents": ents, "cpl": cpl, "typed": False}
        for w in (None, 2):
            yield {"kind": "fastq_multi", "o": "Sanger", "w": w,
                   "ents": [["%s%d" % (L, i), ("ACGTN" * 3)[: i % 7], [(31, 10, 0, 93)[(i + j) % 4] for j in range(i % 7)]]
                            for i in range(n)]}
        # n features (distinct positions, ties in the first position, qualifier = running number)
        yield gbcase([feat([[1 + (i // 2) * 3, 2 + i * 3, 1 if i % 3 else -1, 0]], [("n", str(i))], key="gene" if i % 2 else "CDS")
                      for i in range(n)])
        # one feature with n locations (location string far beyond 80 columns), n qualifiers, an n-line qualifier
        yield gbcase([feat([[1 + 10 * i, 5 + 10 * i, 1 if i % 4 else -1, (0, BEY_L, BEY_R, UNK)[i % 4] if i % 5 == 0 else 0]
                            for i in range(n)], [("gene", "x")])])
        yield gbcase([feat([[P[0], P[1], 1, 0]], [("k%d" % i, (None if i % 7 == 3 else "v%d" % i)) for i in range(n)])])
        yield gbcase([feat([[P[0], P[1], -1, 0]], [("note", "\n".join("" if i % 10 == 0 else "line %d" % i for i in range(n)))])])
        # GFF3: n entries, n attributes, n locations under one ID
        yield {"kind": "gff", "ents": [[[0, "s%d" % i], [3, i + 1], [4, i + n], [7, i % 3], [8, [["ID", "i%d" % i]]]] for i in range(n)]}
        yield {"kind": "gff", "ents": [[[8, [["k%d" % i, "v;%d" % i] for i in range(n)]]]]}
        yield {"kind": "gff_annot", "seqid": "s", "source": "src",
               "feats": [feat([[1 + 10 * i, 5 + 10 * i, 1 if i % 4 else -1, 0] for i in range(n)], [["ID", "f1"]], "CDS")]}
        yield {"kind": "gff_annot", "seqid": "s", "source": "src",
               "feats": [feat([[1 + 3 * i, 2 + 3 * i, 1, 0]], [["ID", "f%d" % i]], "gene") for i in range(n)]}
        # GenBankFile with n fields and > 256 lines, edited at the first / middle / last index
        yield {"kind": "gb_many", "n": n}
    yield gbcase([feat([[P[0], P[1], 1, 0]])], seq=("ACGTTGCAAC" * 10001)[:100001], start=1)
    yield {"kind": "fastq", "o": "Sanger", "w": 80, "id": L, "seq": ("ACGTN" * 2001)[:10001],
           "sc": [(31, 10, 0, 93)[i % 4] for i in range(10001)], "ci": 1}


def check_gb_many(case, ctx):
    b = B()
    n = case["n"]
    ctx.ev(1, 1)
    ctx.count("accepted")

    def field(i):
        if i % 10 == 3:
            return ["FEATURES", ["     gene            %d..%d" % (j + 1, j + 5) for j in range(30)], []]
        if i % 10 == 7:
            return ["ORIGIN", ["%9d %s" % (1 + 60 * j, "acgtacgtac acgtacgtac") for j in range(25)], []]
        return ["REFERENCE", ["%d  (bases 1 to %d)" % (i, i)], [["AUTHORS", ["A%d" % i, "B"]], ["TITLE", ["t"] * (1 + i % 3)]]]

    def views(f):
        return [GenBankSpec._view(f[i]) for i in range(len(f))]

    try:
        f = b.gb.GenBankFile()
        model = []
        for i in range(n):
            v = field(i)
            f.append(v[0], list(v[1]), {k: list(x) for k, x in v[2]} or None)
            model.append(v)
        new = ["COMMENT", ["c1", "", "c3"], [["SUB", ["s"]]]]
        steps = []
        for idx in (0, 1, n // 2, n - 1, -1, -n):
            steps += [("set", idx), ("ins", idx), ("del", idx)]
        steps.append(("ins", len(model)))
        for op, idx in steps:
            if op == "set":
                f[idx] = (new[0], list(new[1]), {k: list(x) for k, x in new[2]})
                model[idx] = new
            elif op == "ins":
                f.insert(idx, new[0], list(new[1]), {k: list(x) for k, x in new[2]})
                model.insert(idx, new)
            else:
                del f[idx]
                del model[idx]
            live = views(f)
            parsed = views(b.gb.GenBankFile.read(io.StringIO(text_of(f))))
            if live != model or parsed != model:
                which = "live" if live != model else "parsed"
                bad = next((i for i, (x, y) in enumerate(zip(live if which == "live" else parsed, model)) if x != y), None)
                ctx.violation("genbank|many_fields|%s_differs|%s_%s" % (which, op, "neg" if idx < 0 else "pos"),
                              "after an edit of a file with many fields the %s view disagrees with the list model" % which,
                              case, [op, idx, "first difference at field %r" % bad, model[bad] if bad is not None else len(model)],
                              (live if which == "live" else parsed)[bad] if bad is not None else len(live))
                return
        ctx.outcome(("gb_many", n, len(f.lines)))
    except Exception as e:  # noqa: BLE001
        ctx.violation("genbank|many_fields|%s" % exc_name(e), "editing a file with many fields raised", case, "success", repr(e))


# ---- array / number flavours -------------------------------------------------
SCORE_DTYPES = ["int8", "int16", "int32", "int64", "uint8", "uint16", "uint32", "uint64"]
SCORE_LAYOUTS = ["contiguous", "strided", "reversed_view", "readonly", "list", "tuple", "list_of_numpy_scalars"]


def gen_flavours(tier, seed):
    for o in ("Sanger", "Solexa", "np.int64:33", "np.uint8:64", "np.int8:33"):
        ov = offset_value(o) if o in OFFSET_NAMES else int(o.split(":")[1])
        for sc in ([], [126 - ov], [33 - ov, 64 - ov, 43 - ov, 126 - ov], [64 - ov] * 5):
            for dt in SCORE_DTYPES:
                if dt.startswith("u") and any(x < 0 for x in sc):
                    continue
                for lay in SCORE_LAYOUTS:
                    for w in (None, 2):
                        yield {"kind": "fastq_flavour", "o": o, "w": w, "sc": sc, "dt": dt, "lay": lay}
            for dt in ("float64", "float32"):
                yield {"kind": "fastq_flavour", "o": o, "w": None, "sc": sc, "dt": dt, "lay": "contiguous"}
    # numpy integers / floats where the documentation says int / float
    for t in ("int64", "int32", "uint8", "int16"):
        yield {"kind": "num_flavour", "api": "gff", "t": t}
        yield {"kind": "num_flavour", "api": "genbank", "t": t}


def make_scores(b, sc, dt, lay):
    np = b.np
    if lay == "list":
        return list(sc)
    if lay == "tuple":
        return tuple(sc)
    if lay == "list_of_numpy_scalars":
        return [np.dtype(dt).type(x) for x in sc]
    a = np.array(sc, dtype=dt)
    if lay == "strided":
        big = np.zeros(2 * len(sc), dtype=dt)
        big[::2] = a
        return big[::2]
    if lay == "reversed_view":
        return np.array(sc[::-1], dtype=dt)[::-1]
    if lay == "readonly":
        a.setflags(write=False)
    return a


def check_fastq_flavour(case, ctx):
    b = B()
    np = b.np
    o = case["o"]
    off = o if o in OFFSET_NAMES else getattr(np, o.split(":")[0][3:])(int(o.split(":")[1]))
    sc, dt, lay, w = case["sc"], case["dt"], case["lay"], case["w"]
    floaty = dt.startswith("float")
    ctx.ev(1, 1)
    ctx.count("unspecified" if floaty else "accepted")
    seq = ("ACGTN" * 2)[:len(sc)]
    cls = "%s_%s" % (dt if not floaty else "float", lay)
    try:
        arr = make_scores(b, sc, dt, lay)
        keep = list(arr) if not isinstance(arr, np.ndarray) else arr.copy()
        f = b.fastq.FastqFile(offset=off, chars_per_line=w)
        f["r"] = (seq, arr)
        text = text_of(f)
        g = b.fastq.FastqFile.read(io.StringIO(text), offset=off, chars_per_line=w)
        got = [(k, s, q.tolist()) for k, (s, q) in g.items()]
        f2 = b.fastq.FastqFile(offset=off, chars_per_line=w)
        b.fastq.set_sequence(f2, b.seq.NucleotideSequence(seq), arr, header="r")
        text2 = text_of(f2)
    except Exception as e:  # noqa: BLE001
        if floaty:
            ctx.outcome(("flavour_exc", cls))
            return
        ctx.violation("fastq|flavour|%s|%s" % (exc_name(e), cls), "score container of a documented kind is not accepted", case,
                      sc, repr(e))
        return
    ctx.outcome(("flavour", cls, text))
    if got != [("r", seq, list(sc))] or text2 != text:
        ctx.violation("fastq|flavour|scores_changed|%s" % cls, "scores handed over in this container are not recovered", case,
                      [["r", seq, list(sc)]], [got, text2])
        return
    same = list(arr) == keep if not isinstance(arr, np.ndarray) else (arr.dtype == keep.dtype and np.array_equal(arr, keep))
    if not same:
        ctx.violation("fastq|flavour|argument_modified|%s" % cls, "the score container passed to the file was modified", case,
                      list(map(int, keep)), list(map(int, arr)))


def check_num_flavour(case, ctx):
    b = B()
    np = b.np
    T = getattr(np, case["t"])
    ctx.ev(1, 1)
    ctx.count("accepted")
    try:
        if case["api"] == "gff":
            f = b.gff.GFFFile()
            f.append("s", "src", "CDS", T(7), T(100), np.float64(0.5), b.REV, T(2), {"ID": "x"})
            f.insert(0, "s", "src", "gene", T(1), T(5), None, b.FWD, None, {"ID": "y"})
            g = b.gff.GFFFile.read(io.StringIO(text_of(f)))
            got = [gff_view(b, g[i]) for i in range(len(g))]
            exp = [["s", "src", "gene", 1, 5, None, 1, None, {"ID": "y"}], ["s", "src", "CDS", 7, 100, 0.5, -1, 2, {"ID": "x"}]]
            ok = len(got) == 2 and all(same_entry(x, y) for x, y in zip(exp, got))
        else:
            loc = b.Location(T(3), T(9), b.REV, b.Location.Defect.BEYOND_LEFT)
            an = b.Annotation([b.Feature("gene", [loc, b.Location(T(20), T(20))], {"gene": "x"})])
            f = b.gb.GenBankFile()
            b.gb.set_annotated_sequence(f, b.AnnotatedSequence(an, b.seq.NucleotideSequence("ACGT" * 20), sequence_start=T(7)))
            r = b.gb.get_annotated_sequence(b.gb.GenBankFile.read(io.StringIO(text_of(f))))
            got = [show_annot(annot_model(b, r.annotation)), r.sequence_start, str(r.sequence)]
            exp = [[["gene", [[3, 9, -1, BEY_L], [20, 20, 1, 0]], [["gene", "x"]]]], 7, "ACGT" * 20]
            ok = got == exp
    except Exception as e:  # noqa: BLE001
        ctx.violation("%s|flavour|%s|numpy_%s" % (case["api"], exc_name(e), case["t"]), "numpy integers are not accepted where "
                      "integers are documented", case, "success", repr(e))
        return
    ctx.outcome(("num_flavour", case["api"], case["t"], ok))
    if not ok:
        ctx.violation("%s|flavour|values_changed|numpy_%s" % (case["api"], case["t"]), "numbers given as numpy scalars are not "
                      "recovered", case, exp, got)


# ---- aliasing and reuse ------------------------------------------------------
def gen_alias(tier, seed):
    L = LETTERS[seed % 5]
    for api in ("fastq_setitem", "fastq_set_sequence", "fastq_get", "fasta_set_sequences", "gb_field_set", "gb_field_insert",
                "gb_field_get", "gb_set_annotation", "gb_get_annotation", "gff_append", "gff_setitem", "gff_get",
                "gff_set_annotation"):
        for variant in (0, 1, 2):
            yield {"kind": "alias", "api": api, "v": variant, "L": L}
    for fmt in ("fasta", "fastq", "genbank", "gff"):
        for i in range(6):
            for j in range(6):
                yield {"kind": "reuse", "fmt": fmt, "i": i, "j": j, "L": L}


def _snap(x):
    import copy

    return copy.deepcopy(x)


def check_alias(case, ctx):
    """(1) a call must not modify its mutable arguments, (2) mutating the arguments afterwards must not change the file,
    (3) mutating what a getter handed out must not change the file.  Differential oracle: text of the file before and
    after; arguments against a private deep copy."""
    b = B()
    np = b.np
    api, v = case["api"], case["v"]
    ctx.ev(1, 1)
    ctx.count("accepted")
    bad = []

    def same(a, c):
        if isinstance(a, np.ndarray):
            return a.dtype == c.dtype and np.array_equal(a, c)
        if isinstance(a, dict):
            return list(a.items()) == list(c.items()) and all(same(a[k], c[k]) for k in a)
        if isinstance(a, (list, tuple)):
            return len(a) == len(c) and all(same(x, y) for x, y in zip(a, c))
        return a == c

    def scramble(x):
        if isinstance(x, np.ndarray):
            if x.flags.writeable:
                x += 1
        elif isinstance(x, dict):
            for k in list(x):
                scramble(x[k]) if isinstance(x[k], (list, dict, np.ndarray)) else x.__setitem__(k, "CHANGED")
            x["added"] = "CHANGED"
        elif isinstance(x, list):
            for i in range(len(x)):
                if isinstance(x[i], (list, dict, np.ndarray)):
                    scramble(x[i])
                else:
                    x[i] = "CHANGED" if isinstance(x[i], str) else x[i]
            x.append("CHANGED")

    def run(make_file, call, args, getter=None):
        f = make_file()
        keep = _snap(args)
        call(f, *args)
        if not same(list(args), list(keep)):
            bad.append(("argument_modified", keep, list(args)))
        t0 = text_of(f)
        for a in args:
            scramble(a)
        if text_of(f) != t0:
            bad.append(("file_follows_argument", t0, text_of(f)))
        if getter is not None:
            out = getter(f)
            t1 = text_of(f)
            ref = _snap(out)
            scramble(out)
            if isinstance(out, tuple):
                for o in out:
                    scramble(o)
            if text_of(f) != t1:
                bad.append(("file_follows_returned_object", t1, text_of(f)))
            again = getter(f)
            if not same(again if not isinstance(again, tuple) else list(again), ref if not isinstance(ref, tuple) else list(ref)):
                bad.append(("getter_result_follows_returned_object", ref, again))

    sc = [np.array([31, 10, 0], dtype=np.int64), [31, 10, 0], np.array([31, 10, 0], dtype=np.int8)][v]
    content = [["l1", "l2"], ["l1"], ["", "x", ""]][v]
    sub = [{"S": ["s1", "s2"]}, {"S": ["s"], "T": ["t1", ""]}, {}][v]
    attrs = [{"ID": "x", "note": "a;b"}, {"k": ""}, {}][v]
    GB, GFF = b.gb.GenBankFile, b.gff.GFFFile
    try:
        if api == "fastq_setitem":
            run(lambda: b.fastq.FastqFile("Sanger", [None, 1, 2][v]), lambda f, s: f.__setitem__("r", ("ACG", s)), [sc],
                lambda f: f["r"][1])
        elif api == "fastq_set_sequence":
            run(lambda: b.fastq.FastqFile("Sanger"), lambda f, s: b.fastq.set_sequence(f, b.seq.NucleotideSequence("ACG"), s), [sc],
                lambda f: b.fastq.get_sequence(f)[1])
        elif api == "fastq_get":
            def mk():
                f = b.fastq.FastqFile("Sanger", [None, 1, 2][v])
                f["r"] = ("ACG", [31, 10, 0])
                return b.fastq.FastqFile.read(io.StringIO(text_of(f)), "Sanger")
            run(mk, lambda f: None, [], lambda f: f.get_quality("r"))
        elif api == "fasta_set_sequences":
            d = {"a": b.seq.NucleotideSequence("ACGT"), "b": b.seq.ProteinSequence("MK*")}
            f = b.fasta.FastaFile()
            b.fasta.set_sequences(f, d)
            t0 = text_of(f)
            if list(d) != ["a", "b"] or str(d["a"]) != "ACGT":
                bad.append(("argument_modified", "dict a,b", list(d)))
            d["a"].code[:] = 0
            d["c"] = d["b"]
            out = b.fasta.get_sequences(f)
            out["a"].code[:] = 1
            if text_of(f) != t0:
                bad.append(("file_follows_argument", t0, text_of(f)))
        elif api in ("gb_field_set", "gb_field_insert"):
            def mk():
                f = GB()
                f.append("A", ["x"])
                f.append("FEATURES", ["     gene            1..5"])
                return f
            for name in ("B", "FEATURES", "ORIGIN"):
                if api == "gb_field_set":
                    run(mk, lambda f, c, s: f.__setitem__(0, (name, c, s)), [list(content), _snap(sub)], lambda f: f[0][1:])
                else:
                    run(mk, lambda f, c, s: f.insert(1, name, c, s), [list(content), _snap(sub)], lambda f: f[1][1:])
        elif api == "gb_field_get":
            f = GB.read(io.StringIO(GB_TEXT))
            for i in range(len(f)):
                run(lambda: f, lambda f_: None, [], lambda f_, i=i: f_[i][1:])
                run(lambda: f, lambda f_: None, [], lambda f_, i=i: f_.get_fields(f_[i][0])[0])
        elif api in ("gb_set_annotation", "gb_get_annotation"):
            q = [{"gene": "x", "note": "l1\nl2"}, {"pseudo": None}, {}][v]
            locs = [b.Location(1, 5), b.Location(9, 9, b.REV)]
            ft = b.Feature("CDS", locs, q)
            an = b.Annotation([ft])
            f = GB()
            b.gb.set_annotation(f, an)
            t0 = text_of(f)
            if an != b.Annotation([b.Feature("CDS", [b.Location(1, 5), b.Location(9, 9, b.REV)], _snap(q))]):
                bad.append(("argument_modified", "annotation", repr(an)))
            q["added"] = "CHANGED"
            locs.append(b.Location(50, 60))
            an.add_feature(b.Feature("gene", [b.Location(2, 3)]))
            if text_of(f) != t0:
                bad.append(("file_follows_argument", t0, text_of(f)))
            r1 = b.gb.get_annotation(f)
            r1.add_feature(b.Feature("gene", [b.Location(2, 3)]))
            for x in r1:
                x.qual["added"] = "CHANGED"
            if text_of(f) != t0 or b.gb.get_annotation(f) != b.gb.get_annotation(GB.read(io.StringIO(t0))):
                bad.append(("file_follows_returned_object", t0, text_of(f)))
        elif api in ("gff_append", "gff_setitem", "gff_get"):
            def mk():
                f = GFF()
                f.append("s", "src", "gene", 1, 5, None, b.FWD, None, {"ID": "first"})
                return f
            if api == "gff_append":
                run(mk, lambda f, a: f.append("s", "src", "CDS", 2, 3, 0.5, b.REV, 0, a), [_snap(attrs)], lambda f: f[1][8])
            elif api == "gff_setitem":
                run(mk, lambda f, a: f.__setitem__(0, ("s", "src", "CDS", 2, 3, 0.5, b.REV, 0, a)), [_snap(attrs)], lambda f: f[0][8])
            else:
                run(lambda: GFF.read(io.StringIO(GFF_TEXT)), lambda f: None, [], lambda f: f[v % 2][8])
        elif api == "gff_set_annotation":
            q = [{"ID": "f1", "note": "a b"}, {"ID": "f1"}, {"ID": "f1", "k": ""}][v]
            an = b.Annotation([b.Feature("CDS", [b.Location(1, 5), b.Location(9, 12, b.REV)], q)])
            f = GFF()
            b.gff.set_annotation(f, an, seqid="s", source="src")
            t0 = text_of(f)
            if an != b.Annotation([b.Feature("CDS", [b.Location(1, 5), b.Location(9, 12, b.REV)], _snap(q))]):
                bad.append(("argument_modified", "annotation", repr(an)))
            q["added"] = "CHANGED"
            r1 = b.gff.get_annotation(f)
            for x in r1:
                x.qual["added"] = "CHANGED"
            rows = [f[i] for i in range(len(f))]
            rows[0][8]["added"] = "CHANGED"
            if text_of(f) != t0 or b.gff.get_annotation(f) != b.gff.get_annotation(GFF.read(io.StringIO(t0))):
                bad.append(("file_follows_argument_or_result", t0, text_of(f)))
    except Exception as e:  # noqa: BLE001
        import traceback

        ctx.violation("alias|%s|%s" % (api, exc_name(e)), "aliasing scenario raised", case, "success",
                      "".join(traceback.format_exception(type(e), e, e.__traceback__))[-800:])
        return
    ctx.outcome(("alias", api, v, len(bad)))
    if bad:
        ctx.violation("alias|%s|%s" % (api, bad[0][0]), "file object and caller share mutable state", case, bad[0][1], bad[0][2])


def check_reuse(case, ctx):
    """Object reuse: an object that already holds content X and is then given content Y must afterwards be
    indistinguishable (parsed view, second write) from a fresh object given Y."""
    b = B()
    fmt, i, j, L = case["fmt"], case["i"], case["j"], case["L"]
    ctx.ev(1, 1 if i != j else 0)
    ctx.count("accepted")
    P = POS_PALETTES[0]
    try:
        if fmt == "fasta":
            vals = ["", "A", "ACGTACG", "ACG" * 30, "NNRY", "L*K"]
            for cpl in (3, 80):
                used = b.fasta.FastaFile(cpl)
                used[L] = vals[i]
                used["b"] = "GG"
                text_of(used)
                used[L] = vals[j]
                fresh = b.fasta.FastaFile(cpl)
                fresh["b"] = "GG"
                fresh[L] = vals[j]
                got, exp = sorted(b.fasta.FastaFile.read(io.StringIO(text_of(used))).items()), sorted(fresh.items())
                if got != exp or text_of(used) != text_of(used):
                    ctx.violation("reuse|fasta|differs_from_fresh", "reused FastaFile differs from a fresh one", case, exp, got)
        elif fmt == "fastq":
            vals = [("", []), ("A", [31]), ("ACG", [10, 31, 31]), ("ACGTA", [0, 10, 31, 10, 93]), ("AC", [31, 10]), ("ACGT" * 5, [31] * 20)]
            for w in (None, 2):
                used = b.fastq.FastqFile("Sanger", w)
                used[L] = vals[i]
                used["b"] = ("GG", [1, 2])
                text_of(used)
                used[L] = vals[j]
                fresh = b.fastq.FastqFile("Sanger", w)
                fresh["b"] = ("GG", [1, 2])
                fresh[L] = vals[j]
                rd = b.fastq.FastqFile.read(io.StringIO(text_of(used)), "Sanger")
                got = sorted((k, s, q.tolist()) for k, (s, q) in rd.items())
                exp = sorted((k, s, q.tolist()) for k, (s, q) in fresh.items())
                if got != exp:
                    ctx.violation("reuse|fastq|differs_from_fresh", "reused FastqFile differs from a fresh one", case, exp, got)
        elif fmt == "genbank":
            pal = gb_feature_palette(P)
            seqs = ["A", "ACGTACGTAC", "ACGT" * 16, "ACGT" * 31, "NNRY", "ACGTA" * 24 + "C"]
            a1 = b.AnnotatedSequence(b.Annotation([mk_feature(b, pal[i]), mk_feature(b, pal[(i + 7) % 14])]),
                                     b.seq.NucleotideSequence(seqs[i]), 1 + 6 * i)
            a2 = b.AnnotatedSequence(b.Annotation([mk_feature(b, pal[j + 6])]), b.seq.NucleotideSequence(seqs[j]), 1 + 99 * j)
            used = b.gb.GenBankFile()
            b.gb.set_locus(used, "X", len(seqs[i]), "DNA", False, "BCT", "01-JAN-2000")
            b.gb.set_annotated_sequence(used, a1)
            text_of(used)
            b.gb.set_annotated_sequence(used, a2)
            b.gb.set_locus(used, "X", len(seqs[j]), "DNA", False, "BCT", "01-JAN-2000")
            fresh = b.gb.GenBankFile()
            b.gb.set_locus(fresh, "X", len(seqs[j]), "DNA", False, "BCT", "01-JAN-2000")
            b.gb.set_annotated_sequence(fresh, a2)
            t_used, t_fresh = text_of(used), text_of(fresh)
            r = b.gb.get_annotated_sequence(b.gb.GenBankFile.read(io.StringIO(t_used)))
            r2 = b.gb.get_annotated_sequence(used)
            if t_used != t_fresh or r != a2 or r2 != a2 or text_of(used) != t_used:
                ctx.violation("reuse|genbank|differs_from_fresh", "GenBankFile whose fields were set a second time differs from a "
                              "fresh one", case, t_fresh[:600], t_used[:600])
        else:
            ents = [gff_entry(d) for d in ([], [[0, L + ";b"], [6, -1]], [[5, 2.5], [8, None]], [[2, "CDS"], [7, 1]],
                                           [[8, [["k", "v "]]]], [[3, 7], [4, 7]])]
            used = b.gff.GFFFile()
            used.append(*gff_args(b, ents[i]))
            used.append(*gff_args(b, ents[(i + 1) % 6]))
            t1 = text_of(used)
            used[0] = tuple(gff_args(b, ents[j]))
            del used[1]
            fresh = b.gff.GFFFile()
            fresh.append(*gff_args(b, ents[j]))
            if text_of(used) != text_of(fresh) or text_of(used) != text_of(used) or t1 == "":
                ctx.violation("reuse|gff|differs_from_fresh", "reused GFFFile differs from a fresh one", case, text_of(fresh),
                              text_of(used))
    except Exception as e:  # noqa: BLE001
        ctx.violation("reuse|%s|%s" % (fmt, exc_name(e)), "reuse scenario raised", case, "success", repr(e))
        return
    ctx.outcome(("reuse", fmt, i, j))


# ---- order independence ------------------------------------------------------
def gen_order(tier, seed):
    """The recovered content must not depend on the order in which locations / qualifiers / features / attributes were
    handed over: every permutation of each listed object."""
    P = POS_PALETTES[seed % 5]
    atoms = gb_atoms(P)
    loc_sets = [[atoms[0], atoms[13], atoms[40]], [atoms[5], atoms[77], atoms[100]], [atoms[60], atoms[61], atoms[2], atoms[99]],
                [atoms[24], atoms[25]], [[1, 5, 1, 0], [1, 5, -1, 0], [1, 5, 1, BEY_L]]]
    quals = [("gene", "x"), ("note", "l1\nl2"), ("pseudo", None), ("product", "a b")]
    for locs in loc_sets:
        for perm in itertools.permutations(locs):
            yield gbcase([feat(list(perm), [("gene", "x")])])
            yield {"kind": "gff_annot", "seqid": "s", "source": "src",
                   "feats": [feat([[l[0], l[1], l[2], 0] for l in perm], [["ID", "f1"]], "CDS")]}
    for qperm in itertools.permutations(quals):
        yield gbcase([feat([atoms[0]], list(qperm))])
        yield {"kind": "gff", "ents": [[[8, [[k, v or ""] for k, v in qperm]]]]}
    pal = gb_feature_palette(P)
    for fs in ([pal[0], pal[5], pal[7]], [pal[1], pal[2], pal[3]], [pal[8], pal[4], pal[12], pal[13]]):
        for perm in itertools.permutations(fs):
            yield gbcase(list(perm))
    gfeats = [feat([atoms[0]], [["ID", "f1"]]), feat([atoms[1], atoms[50]], [["ID", "f2"]], "CDS"), feat([atoms[30]], []),
              feat([atoms[30]], [["note", "x"]], "exon")]
    for perm in itertools.permutations(gfeats):
        yield {"kind": "gff_annot", "seqid": "s", "source": "src", "feats": list(perm)}




# ===========================================================================
# Second dimension audit (result identity, seed-independent values, two awkward features, resized reuse, derived inputs)
# ===========================================================================
A2_TOKENS = [" ", '"', "/", "=", "\n", "  ", "/k=", '""', "..", "%"]


def two_feature_values():
    """Every ordered pair of awkward tokens in one value: separated, adjacent and leading."""
    out = []
    for t1 in A2_TOKENS:
        for t2 in A2_TOKENS:
            for v in ("a" + t1 + "b" + t2 + "c", "a" + t1 + t2 + "c", t1 + "a" + t2):
                if v not in out:
                    out.append(v)
    return out


def gen_audit2(tier, seed):
    b = B()
    L = LETTERS[seed % 5]
    P = POS_PALETTES[seed % 5]
    # A: copies and other handed-out containers
    for fmt in ("fasta", "fastq", "genbank", "gff"):
        yield {"kind": "a2_copy", "fmt": fmt}
    # B: every value the anchored code treats by value, with every seed: all symbols of both alphabets in FASTA (typed),
    # all nucleotide symbols in FASTQ (typed, also as RNA), every LOCUS division
    nuc = "".join(str(s) for s in b.seq.NucleotideSequence.alphabet_amb.get_symbols())
    prot = "".join(str(s) for s in b.seq.ProteinSequence.alphabet.get_symbols())
    for cpl in (1, 80):
        for sym in nuc:
            yield {"kind": "fasta", "h": "n", "s": sym, "t": "iupac", "cpl": cpl}
            yield {"kind": "fasta", "h": "n", "s": "A" + sym + "T", "t": "iupac", "cpl": cpl}
        for sym in prot:
            yield {"kind": "fasta", "h": "p", "s": sym, "t": "prot", "cpl": cpl}
            yield {"kind": "fasta", "h": "p", "s": "M" + sym + "W", "t": "prot", "cpl": cpl}
    for sym in nuc:
        for rna in (False, True):
            yield {"kind": "a2_fastq_typed", "s": "A" + sym + "T" + sym, "rna": rna}
    for div in ("PRI", "ROD", "MAM", "VRT", "INV", "PLN", "BCT", "VRL", "PHG", "SYN", "UNA", "EST", "PAT", "STS", "GSS", "HTG",
                "HTC", "ENV", "CON"):
        for mol in ("DNA", "mRNA", "Protein"):
            for circ in (False, True):
                yield {"kind": "gb_locus", "a": ["AB000001", 1224, mol, circ, div, "14-NOV-2006"]}
    # C: two awkward features in one value
    for v in two_feature_values():
        yield gbcase([feat([[P[0], P[1], 1, 0]], [("note", v)])])
        yield gbcase([feat([[P[0], P[1], -1, BEY_L], [P[2], P[2], -1, 0]], [("gene", "g"), ("note", v), ("pseudo", None)])])
    for s in strings_upto([L, ";", "=", "%", ",", " ", "\t", "é", "&", "#", ">"], 2, 1):
        yield {"kind": "gff", "ents": [[[0, s]]]}
        yield {"kind": "gff", "ents": [[[1, s]]]}
    for v in two_feature_values():
        if '"' not in v or True:
            yield {"kind": "gff", "ents": [[[8, [["ID", "i"], ["Note", v]]]]]}
    for i in strings_upto([L, " ", "@", "+", ":", "/"], 2, 0):
        for w in (None, 1):
            yield {"kind": "fastq", "o": "Sanger", "w": w, "id": i, "seq": "ACG", "sc": [31, 10, 31], "ci": 1}
    for sc in (-1e-30, 1e30, -0.0, 1e-320):
        yield {"kind": "gff", "ents": [[[5, sc], [6, -1]]]}
    pieces = ["", "x", " y", " y ", "  ", "a  b"]
    for n in (1, 2, 3):
        for t in itertools.product(pieces, repeat=n):
            if any(p in (" y ", "  ", "a  b") for p in t):
                yield {"kind": "gb_field", "content": list(t), "sub": [["S", list(t)]]}
    # D: reuse with content of another size: X -> Y -> X
    for fmt in ("fasta", "fastq", "genbank", "gff"):
        for i in range(5):
            for j in range(5):
                if i != j:
                    yield {"kind": "a2_resize", "fmt": fmt, "i": i, "j": j}
    # E: derived inputs
    for what in ("annot_slice", "annseq_slice", "cross_format", "seq_derived", "scores_derived", "field_tuple", "gff_tuple"):
        for v in range(6):
            yield {"kind": "a2_derived", "what": what, "v": v}
    for n in (1, 2, 3):
        for s1 in strings_upto("AC-", n, n):
            for s2 in strings_upto("AC-", n, n):
                yield {"kind": "a2_alignment", "rows": [s1, s2]}
    for s in ("A-C", "--", "AC"):
        yield {"kind": "a2_alignment", "rows": [s, s[::-1], s]}


def check_a2_copy(case, ctx):
    """copy() is not an edit operation of the statement: whether the copy is usable is only counted.  Demanded (dimension
    A): whatever copy() and the other container getters hand out, editing it leaves the original unchanged."""
    b = B()
    fmt = case["fmt"]
    ctx.ev(1, 1)
    ctx.count("unspecified")
    if fmt == "fasta":
        f = b.fasta.FastaFile()
        f["a"] = "ACGT"
        f["b"] = "GG"
        edit = lambda c: c.__setitem__("z", "TT")  # noqa: E731
    elif fmt == "fastq":
        f = b.fastq.FastqFile("Sanger")
        f["a"] = ("AC", [1, 2])
        edit = lambda c: c.__setitem__("z", ("T", [3]))  # noqa: E731
    elif fmt == "genbank":
        f = b.gb.GenBankFile.read(io.StringIO(GB_TEXT))
        edit = lambda c: c.append("COMMENT", ["x"])  # noqa: E731
    else:
        f = b.gff.GFFFile.read(io.StringIO(GFF_TEXT))
        edit = lambda c: c.append("s", "src", "gene", 1, 2, None, None, None, {"ID": "z"})  # noqa: E731
    spec = SPECS[fmt]
    t0, live0 = text_of(f), spec.live(f)
    try:
        c = f.copy()
    except Exception as e:  # noqa: BLE001
        ctx.count("outside_statement_copy_%s_raises_%s" % (fmt, exc_name(e)))
        c = None
    if c is not None:
        try:
            same = spec.live(c) == live0
        except Exception:  # noqa: BLE001
            same = False
        ctx.count("outside_statement_copy_%s_%s" % (fmt, "equal_view" if same else "different_view"))
        if c is f or c.lines is f.lines:
            ctx.violation("copy|%s|result_is_operand" % fmt, "copy() returned the file itself or shares its line list", case,
                          "new object", "shared")
        try:
            edit(c)
            c.lines.append("CHANGED")
        except Exception:  # noqa: BLE001
            pass
    # containers handed out by getters
    if fmt == "gff":
        d = f.directives()
        d.append(("CHANGED", 0))
        d.clear()
    if fmt == "genbank":
        f.get_indices("ORIGIN").append(99)
        f.get_fields("SOURCE").clear()
    if fmt in ("fasta", "fastq"):
        ks = list(f.keys())
        ks.clear()
    ctx.outcome(("a2_copy", fmt))
    if text_of(f) != t0 or spec.live(f) != live0:
        ctx.violation("copy|%s|original_changed" % fmt, "editing a copy / a handed-out container changed the original file", case,
                      t0, text_of(f))


def check_a2_fastq_typed(case, ctx):
    b = B()
    ctx.ev(1, 1)
    ctx.count("accepted")
    s, rna = case["s"], case["rna"]
    try:
        so = b.seq.NucleotideSequence(s)
        f = b.fastq.FastqFile("Sanger")
        b.fastq.set_sequence(f, so, b.np.array([31, 10, 0, 93]), header="r", as_rna=rna)
        b.fastq.set_sequences(f, {"r2": (so, b.np.array([1, 2, 3, 4]))}, as_rna=rna)
        text = text_of(f)
        g = b.fastq.FastqFile.read(io.StringIO(text), "Sanger")
        r, q = b.fastq.get_sequence(g, "r")
        d = b.fastq.get_sequences(g)
        got = [str(r), q.tolist(), [[k, str(v[0]), v[1].tolist()] for k, v in d.items()], rna and "T" in text.split("\n")[1]]
    except Exception as e:  # noqa: BLE001
        ctx.violation("fastq|typed|%s|symbol_%s" % (exc_name(e), "rna" if rna else "dna"), "typed FASTQ round trip raised", case,
                      s, repr(e))
        return
    exp = [str(so), [31, 10, 0, 93], [["r", str(so), [31, 10, 0, 93]], ["r2", str(so), [1, 2, 3, 4]]], False]
    ctx.outcome(("a2_fastq_typed", s, rna))
    if got != exp:
        ctx.violation("fastq|typed|differs|symbol_%s" % ("rna" if rna else "dna"), "sequence recovered from FASTQ differs", case,
                      exp, got)


def check_a2_resize(case, ctx):
    """Reuse with content of another size: X -> Y -> X on one object, with every read / write in between; after each
    step the object must be indistinguishable from a fresh object given that content."""
    b = B()
    fmt, i, j = case["fmt"], case["i"], case["j"]
    ctx.ev(1, 1)
    ctx.count("accepted")
    P = POS_PALETTES[0]
    pal = gb_feature_palette(P)
    if fmt == "fasta":
        contents = [{"a": "A"}, {"a": "ACGTACGTAC", "b": ""}, {"a": "", "b": "GG", "c": "ACGT" * 50}, {"b": "ACG"},
                    {"c": "T" * 7, "a": "ACGTACG", "b": "G", "d": "NN"}]
        new = lambda: b.fasta.FastaFile(3)  # noqa: E731
        rd = lambda t: sorted(b.fasta.FastaFile.read(io.StringIO(t), 3).items())  # noqa: E731
    elif fmt == "fastq":
        contents = [{"a": ("A", [31])}, {"a": ("ACGTACGTAC", [31, 10] * 5), "b": ("", [])},
                    {"a": ("", []), "b": ("GG", [1, 2]), "c": ("ACGT" * 5, [10] * 20)}, {"b": ("ACG", [0, 93, 31])},
                    {"c": ("T" * 7, [31] * 7), "a": ("ACGTACG", [10] * 7), "b": ("G", [5]), "d": ("NN", [1, 1])}]
        new = lambda: b.fastq.FastqFile("Sanger", 2)  # noqa: E731
        rd = lambda t: sorted((k, s, q.tolist()) for k, (s, q) in b.fastq.FastqFile.read(io.StringIO(t), "Sanger").items())  # noqa: E731
    elif fmt == "genbank":
        contents = [([pal[0]], "A", 1), ([pal[1], pal[6], pal[7]], "ACGT" * 16, 7), ([pal[8]], "ACGT" * 40 + "A", 100),
                    ([pal[2], pal[3]], "ACGTACGTAC", 1), ([pal[k] for k in (0, 4, 5, 9, 10, 11)], "ACGT" * 3, 55)]
        new = lambda: b.gb.GenBankFile()  # noqa: E731

        def rd(t):
            r = b.gb.get_annotated_sequence(b.gb.GenBankFile.read(io.StringIO(t)))
            return [show_annot(annot_model(b, r.annotation)), str(r.sequence), r.sequence_start]
    else:
        E = [gff_entry(d) for d in ([], [[0, "q;b"], [6, -1]], [[5, 2.5], [8, None]], [[2, "CDS"], [7, 1]], [[3, 7], [4, 7]])]
        contents = [[E[0]], [E[1], E[2], E[3]], [E[4], E[0]], [E[3], E[2], E[1], E[0], E[4]], [E[2]]]
        new = lambda: b.gff.GFFFile()  # noqa: E731
        rd = lambda t: [gff_view(b, x) for x in b.gff.GFFFile.read(io.StringIO(t))]  # noqa: E731

    def put(f, c):
        if fmt in ("fasta", "fastq"):
            for k in [k for k in f if k not in c]:
                del f[k]
            for k, v in c.items():
                f[k] = v
        elif fmt == "genbank":
            feats, s, st = c
            b.gb.set_annotated_sequence(f, b.AnnotatedSequence(b.Annotation([mk_feature(b, x) for x in feats]),
                                                               b.seq.NucleotideSequence(s), st))
        else:
            while len(f):
                del f[len(f) - 1]
            for e in c:
                f.append(*gff_args(b, e))

    def observe(f):
        # every read that could cache something in the object
        len(f)
        if fmt in ("fasta", "fastq"):
            list(f.items())
        elif fmt == "genbank":
            b.gb.get_annotation(f)
            b.gb.get_sequence(f)
            [f[k] for k in range(len(f))]
        else:
            [f[k] for k in range(len(f))]
            f.directives()
        t = text_of(f)
        return rd(t), rd(text_of(f))

    try:
        used = new()
        for step, k in enumerate((i, j, i)):
            put(used, contents[k])
            got = observe(used)
            fresh = new()
            put(fresh, contents[k])
            exp = observe(fresh)
            if got != exp:
                ctx.violation("reuse|%s|differs_from_fresh_after_resize|step%d_%s" % (
                    fmt, step, "grow" if step and len(str(contents[k])) > len(str(contents[(i, j, i)[step - 1]])) else "shrink"),
                    "an object whose content was replaced by content of another size differs from a fresh object", case,
                    exp[0], got[0])
                return
    except Exception as e:  # noqa: BLE001
        ctx.violation("reuse|%s|resize_%s" % (fmt, exc_name(e)), "resize scenario raised", case, "success", repr(e))
        return
    ctx.outcome(("a2_resize", fmt, i, j))


def feats_of(b, annotation):
    """JSON model (as used by the generators) of an Annotation object the library handed out."""
    out = []
    for ft in annotation:
        out.append({"key": ft.key, "locs": [list(loc_model(b, l)) for l in ft.locs],
                    "qual": [[k, v] for k, v in ft.qual.items()]})
    return out


def check_a2_derived(case, ctx):
    """Objects handed out by the library (slices, parsed objects, views, returned tuples) as inputs of the writers.  The
    expected value is computed from the derived object's own public content."""
    b = B()
    np = b.np
    what, v = case["what"], case["v"]
    ctx.ev(1, 1)
    ctx.count("accepted")
    P = POS_PALETTES[0]
    pal = gb_feature_palette(P)
    GB, GFF = b.gb.GenBankFile, b.gff.GFFFile
    bad = None
    try:
        base = b.Annotation([mk_feature(b, x) for x in (pal[0], pal[4], pal[6], pal[7], pal[8], pal[11], pal[13])])
        seq = b.seq.NucleotideSequence("ACGTTGCAACGT")
        if what == "annot_slice":
            for a, z in [(1, 13), (2, 6), (5, 10), (3, 4), (1, 2), (9, 13)][v:v + 1]:
                for sub in (base[a:z], base[a:], base[:z]):
                    feats = feats_of(b, sub)
                    f = GB()
                    b.gb.set_annotation(f, sub)
                    got = annot_model(b, b.gb.get_annotation(GB.read(io.StringIO(text_of(f))))) if len(sub) else frozenset()
                    if got not in expected_annots(feats):
                        bad = ("genbank_from_slice", show_annot(expected_annots(feats)[0]), show_annot(got))
                    if any(val is None for x in feats for _, val in x["qual"]):
                        continue  # GFF3 attributes cannot be valueless (outside the documented str -> str mapping)
                    g = GFF()
                    try:
                        b.gff.set_annotation(g, sub, seqid="s", source="x")
                    except ValueError:
                        continue  # documented: multi-location feature without ID
                    got = annot_model(b, b.gff.get_annotation(GFF.read(io.StringIO(text_of(g)))))
                    if got != expected_annots(feats, drop_defects=True)[0]:
                        bad = ("gff_from_slice", show_annot(expected_annots(feats, drop_defects=True)[0]), show_annot(got))
        elif what == "annseq_slice":
            aseq = b.AnnotatedSequence(base, seq, sequence_start=[1, 1, 1, 7, 7, 100][v])
            s0 = aseq.sequence_start
            derived = [aseq[s0 + 1:s0 + 7], aseq[s0:], aseq[:s0 + 5], aseq[s0 + 3:s0 + 4], aseq.reverse_complement(),
                       aseq[s0 + 2:s0 + 11].reverse_complement(sequence_start=5)][v]
            f = GB()
            b.gb.set_annotated_sequence(f, derived)
            r = b.gb.get_annotated_sequence(GB.read(io.StringIO(text_of(f))))
            feats = feats_of(b, derived.annotation)
            if annot_model(b, r.annotation) not in expected_annots(feats) or str(r.sequence) != str(derived.sequence) \
                    or r.sequence_start != derived.sequence_start:
                bad = ("annotated_sequence_from_slice", [show_annot(expected_annots(feats)[0]), str(derived.sequence),
                                                         derived.sequence_start],
                       [show_annot(annot_model(b, r.annotation)), str(r.sequence), r.sequence_start])
        elif what == "cross_format":
            src = [pal[k] for k in [(0,), (4, 5), (1, 2, 3), (9, 10), (12, 13), (0, 5, 14)][v]]
            src = [{**x, "qual": x["qual"] + [["ID", "f%d" % n]]} for n, x in enumerate(src)]
            f = GB()
            b.gb.set_annotation(f, b.Annotation([mk_feature(b, x) for x in src]))
            parsed = b.gb.get_annotation(GB.read(io.StringIO(text_of(f))))
            g = GFF()
            b.gff.set_annotation(g, parsed, seqid="s", source="x")
            parsed2 = b.gff.get_annotation(GFF.read(io.StringIO(text_of(g))))
            h = GB()
            b.gb.set_annotation(h, parsed2)
            parsed3 = b.gb.get_annotation(GB.read(io.StringIO(text_of(h))))
            exp = expected_annots(src, drop_defects=True)[0]
            if annot_model(b, parsed2) != exp or annot_model(b, parsed3) != exp:
                bad = ("genbank_to_gff_to_genbank", show_annot(exp), [show_annot(annot_model(b, parsed2)),
                                                                      show_annot(annot_model(b, parsed3))])
        elif what == "seq_derived":
            s = b.seq.NucleotideSequence("ACGTNRTTGCA")
            d = [s[2:7], s[::-1], s[::2], s.reverse().complement(), s[np.array([0, 3, 3, 9])], s[np.arange(11) % 3 == 0]][v]
            fa = b.fasta.FastaFile(3)
            b.fasta.set_sequence(fa, d, "h")
            fq = b.fastq.FastqFile("Sanger", 2)
            b.fastq.set_sequence(fq, d, np.arange(len(d)), "h")
            gbf = GB()
            b.gb.set_sequence(gbf, d, 5)
            got = [str(b.fasta.get_sequence(b.fasta.FastaFile.read(io.StringIO(text_of(fa))), "h")),
                   str(b.fastq.get_sequence(b.fastq.FastqFile.read(io.StringIO(text_of(fq)), "Sanger"), "h")[0]),
                   str(b.gb.get_sequence(GB.read(io.StringIO(text_of(gbf)))))]
            if got != [str(d)] * 3:
                bad = ("derived_sequence", str(d), got)
            p = b.seq.NucleotideSequence("ATGGCCTAA").translate(complete=True)
            fp = b.fasta.FastaFile()
            b.fasta.set_sequence(fp, p[v % 3:], "p")
            if str(b.fasta.get_sequence(fp, "p", b.seq.ProteinSequence)) != str(p[v % 3:]):
                bad = ("derived_protein", str(p), str(b.fasta.get_sequence(fp, "p", b.seq.ProteinSequence)))
        elif what == "scores_derived":
            src = b.fastq.FastqFile("Sanger", [None, 1, 2][v % 3])
            src["r"] = ("ACGTACGT", [31, 10, 0, 60, 31, 31, 10, 5])
            q = b.fastq.FastqFile.read(io.StringIO(text_of(src)), "Sanger").get_quality("r")
            d = [q, q[::2], q[::-1], q[1:6], q[[0, 7, 3]], q[q > 9]][v]
            want = [int(x) for x in d]
            for off in ("Sanger", "Solexa", 40):
                dst = b.fastq.FastqFile(off, 3)
                dst["x"] = ("ACGTACGT"[:len(d)], d)
                back = b.fastq.FastqFile.read(io.StringIO(text_of(dst)), off)["x"][1].tolist()
                if back != want or [int(x) for x in d] != want:
                    bad = ("derived_scores", want, back)
        elif what == "field_tuple":
            src = GB.read(io.StringIO(GB_TEXT)) if v % 2 == 0 else GB()
            if v % 2:
                for val in GB_VALUES + GB_EMPTY_LINE_VALUES:
                    src.append(*GenBankSpec._args(val))
            t_src = text_of(src)
            views = [GenBankSpec._view(src[k]) for k in range(len(src))]
            dst = GB()
            dst.append("LOCUS", ["x"])
            for k in range(len(src)):
                item = src[k]
                if v // 2 == 0:
                    dst.append(*item)
                elif v // 2 == 1:
                    dst.insert(0, *item)
                else:
                    dst.append("TMP", ["t"])
                    dst[len(dst) - 1] = item
            got = [GenBankSpec._view(x) for x in GB.read(io.StringIO(text_of(dst)))]
            exp = ([["LOCUS", ["x"], []]] + views) if v // 2 != 1 else (views[::-1] + [["LOCUS", ["x"], []]])
            if got != exp or [GenBankSpec._view(dst[k]) for k in range(len(dst))] != exp:
                bad = ("field_tuple_into_other_file", exp, got)
            if text_of(src) != t_src:
                bad = ("source_file_changed", t_src, text_of(src))
        elif what == "gff_tuple":
            src = GFF.read(io.StringIO(GFF_TEXT))
            for d in gff_hist_values("a"):
                src.append(*gff_args(b, gff_entry(d)))
            t_src = text_of(src)
            views = [gff_view(b, src[k]) for k in range(len(src))]
            dst = GFF()
            for k in range(len(src)):
                item = src[k]
                if v % 3 == 0:
                    dst.append(*item)
                elif v % 3 == 1:
                    dst.insert(0, *item)
                else:
                    dst.append("tmp", "t", "t", 1, 1, None, None, None, None)
                    dst[len(dst) - 1] = item
            got = [gff_view(b, x) for x in GFF.read(io.StringIO(text_of(dst)))]
            exp = views if v % 3 != 1 else views[::-1]
            if len(got) != len(exp) or not all(same_entry(x, y) for x, y in zip(exp, got)) or text_of(src) != t_src:
                bad = ("entry_tuple_into_other_file", exp, got)
    except Exception as e:  # noqa: BLE001
        import traceback

        ctx.violation("derived|%s|%s" % (what, exc_name(e)), "a derived object is not accepted as input", case, "success",
                      "".join(traceback.format_exception(type(e), e, e.__traceback__))[-900:])
        return
    ctx.outcome(("a2_derived", what, v, bad is None))
    if bad:
        ctx.violation("derived|%s|%s" % (what, bad[0]), "content of a derived object is not recovered", case, bad[1], bad[2])


def check_a2_alignment(case, ctx):
    """fasta.get_alignment / set_alignment: gapped strings -> Alignment -> gapped strings."""
    b = B()
    rows = case["rows"]
    ctx.ev(1, 1 if any("-" in r for r in rows) else 0)
    ctx.count("accepted")
    try:
        f = b.fasta.FastaFile(2)
        for k, r in enumerate(rows):
            f["s%d" % k] = r
        ali = b.fasta.get_alignment(b.fasta.FastaFile.read(io.StringIO(text_of(f))))
        g = b.fasta.FastaFile(2)
        b.fasta.set_alignment(g, ali, ["s%d" % k for k in range(len(rows))])
        got = list(b.fasta.FastaFile.read(io.StringIO(text_of(g))).items())
        ali2 = b.fasta.get_alignment(g)
        same = ali2.trace.tolist() == ali.trace.tolist() and [str(s) for s in ali2.sequences] == [r.replace("-", "") for r in rows]
    except Exception as e:  # noqa: BLE001
        allgap = any(all(r[c] == "-" for r in rows) for c in range(len(rows[0])))
        if allgap or any(r.replace("-", "") == "" for r in rows):
            ctx.outcome(("a2_ali_exc", exc_name(e)))
            return
        ctx.violation("fasta|alignment|%s" % exc_name(e), "alignment round trip raised", case, rows, repr(e))
        return
    ctx.outcome(("a2_ali", tuple(rows)))
    if got != [("s%d" % k, r) for k, r in enumerate(rows)] or not same:
        ctx.violation("fasta|alignment|differs", "gapped sequences written from the parsed alignment differ", case, rows, got)




# ===========================================================================
# Third dimension audit (operand sizes in both directions, ambient state, option precedence, selection boundaries)
# ===========================================================================
def gen_audit3(tier, seed):
    # F: second operand larger / smaller than the object it is put into, keys the object lacks
    for i in range(5):
        for j in range(5):
            yield {"kind": "a3_merge", "fmt": "fasta", "i": i, "j": j}
            yield {"kind": "a3_merge", "fmt": "fastq", "i": i, "j": j}
            yield {"kind": "a3_merge", "fmt": "gff", "i": i, "j": j}
    for rows in (2, 3):
        for names in (0, 1, 2, 3, 4, 5):
            yield {"kind": "a3_align_names", "rows": rows, "names": names}
    # G: ambient state changes between / during the calls
    for fmt in ("fasta", "fastq", "genbank", "gff"):
        for amb in ("numpy_print", "numpy_err", "cwd", "all"):
            yield {"kind": "a3_ambient", "fmt": fmt, "amb": amb}
    # H: a value that can come from two places
    for v in range(12):
        yield {"kind": "a3_precedence", "v": v}
    # I: boundaries of 'first entry' / 'same ID' selections
    for v in range(10):
        yield {"kind": "a3_selection", "v": v}


def check_a3_merge(case, ctx):
    """set_sequences / set_annotation INTO a file that already has content, with the second operand smaller, equal,
    larger, overlapping and disjoint.  Model: dict update (order: see ASSUMPTIONS) / list extension."""
    b = B()
    fmt, i, j = case["fmt"], case["i"], case["j"]
    ctx.ev(1, 1 if i != j else 0)
    ctx.count("accepted")
    N, Pr = b.seq.NucleotideSequence, b.seq.ProteinSequence
    sets = [{}, {"a": "ACGT"}, {"a": "TT", "b": "GGA"}, {"b": "C", "c": "ACGTACGTA", "d": ""}, {"e": "A", "a": "", "c": "G", "b": "TTTT", "f": "NN"}]
    try:
        if fmt in ("fasta", "fastq"):
            first, second = sets[i], sets[j]
            model = dict(first)
            model.update(second)
            if fmt == "fasta":
                f = b.fasta.FastaFile(3)
                b.fasta.set_sequences(f, {k: N(v) for k, v in first.items()})
                b.fasta.set_sequences(f, {k: N(v) for k, v in second.items()})
                live = {k: str(v) for k, v in b.fasta.get_sequences(f).items()}
                parsed = {k: v for k, v in b.fasta.FastaFile.read(io.StringIO(text_of(f))).items()} if model else {}
            else:
                f = b.fastq.FastqFile("Sanger", 2)
                sc = lambda v: b.np.arange(len(v)) % 40  # noqa: E731
                b.fastq.set_sequences(f, {k: (N(v), sc(v)) for k, v in first.items()})
                b.fastq.set_sequences(f, {k: (N(v), sc(v) + 1) for k, v in second.items()})
                live = {k: str(v[0]) for k, v in b.fastq.get_sequences(f).items()}
                rd = b.fastq.FastqFile.read(io.StringIO(text_of(f)), "Sanger") if model else {}
                parsed = {k: v[0] for k, v in rd.items()}
                for k in model:
                    want = [(x + (1 if k in second else 0)) % 41 if False else int(x) + (1 if k in second else 0)
                            for x in (b.np.arange(len(model[k])) % 40)]
                    if rd[k][1].tolist() != want:
                        ctx.violation("merge|fastq|scores_differ", "scores after a second set_sequences differ", case, want,
                                      rd[k][1].tolist())
                        return
            if live != model or parsed != model:
                ctx.violation("merge|%s|differs|%s" % (fmt, "second_larger" if len(second) > len(first) else "second_not_larger"),
                              "file content after two set_sequences calls is not the updated mapping", case, model,
                              [live, parsed])
        else:
            P = POS_PALETTES[0]
            pal = gb_feature_palette(P)
            groups = [[], [0], [1, 4], [5, 7, 9], [2, 3, 8, 10, 12]]

            def feats(g, tag):
                return [{**pal[k], "qual": [q for q in pal[k]["qual"] if q[1] is not None] + [["ID", "%s%d" % (tag, k)]]} for k in g]
            A, Bf = feats(groups[i], "x"), feats(groups[j], "y")
            f = b.gff.GFFFile()
            b.gff.set_annotation(f, b.Annotation([mk_feature(b, x) for x in A]), seqid="s", source="p")
            b.gff.set_annotation(f, b.Annotation([mk_feature(b, x) for x in Bf]), seqid="t", source="q")
            exp = expected_annots(A + Bf, drop_defects=True)[0]
            got_live = annot_model(b, b.gff.get_annotation(f))
            got = annot_model(b, b.gff.get_annotation(b.gff.GFFFile.read(io.StringIO(text_of(f)))))
            if got != exp or got_live != exp:
                ctx.violation("merge|gff|differs|%s" % ("second_larger" if len(Bf) > len(A) else "second_not_larger"),
                              "annotation read from a GFF file filled by two set_annotation calls is not the union", case,
                              show_annot(exp), show_annot(got))
    except Exception as e:  # noqa: BLE001
        ctx.violation("merge|%s|%s" % (fmt, exc_name(e)), "merging content into a file raised", case, "success", repr(e))
        return
    ctx.outcome(("a3_merge", fmt, i, j))


def check_a3_align_names(case, ctx):
    """set_alignment: number of names vs number of rows - documented ValueError when they differ (both directions)."""
    b = B()
    rows, names = case["rows"], case["names"]
    ctx.ev(1, 1)
    ctx.count("accepted" if rows == names else "refused")
    strings = ["A-C", "AGC", "-GC"][:rows]
    f = b.fasta.FastaFile()
    for k, s in enumerate(strings):
        f["s%d" % k] = s
    ali = b.fasta.get_alignment(f)
    g = b.fasta.FastaFile()
    g["old"] = "TT"
    try:
        b.fasta.set_alignment(g, ali, ["n%d" % k for k in range(names)])
        raised = None
    except Exception as e:  # noqa: BLE001
        raised = e
    ctx.outcome(("a3_align_names", rows, names, raised is None))
    if rows != names:
        if raised is None:
            ctx.violation("fasta|set_alignment|not_refused|%s" % ("more_names" if names > rows else "fewer_names"),
                          "documented ValueError for a wrong number of names did not occur", case, "ValueError", list(g.items()))
        elif list(g.items()) != [("old", "TT")]:
            ctx.violation("fasta|set_alignment|refused_but_changed|%s" % ("more_names" if names > rows else "fewer_names"),
                          "a refused set_alignment changed the file", case, [["old", "TT"]], list(g.items()))
    elif raised is not None or list(g.items()) != [("old", "TT")] + [("n%d" % k, s) for k, s in enumerate(strings)]:
        ctx.violation("fasta|set_alignment|differs", "set_alignment did not write the gapped rows under the given names", case,
                      strings, repr(raised) if raised else list(g.items()))


def check_a3_ambient(case, ctx):
    """Ambient state as an event: numpy print options / error state and the working directory change between the calls;
    the written text and the parsed content must equal those obtained under the default state (differential)."""
    import os
    import shutil
    import tempfile

    b = B()
    np = b.np
    fmt, amb = case["fmt"], case["amb"]
    ctx.ev(1, 1)
    ctx.count("accepted")
    P = POS_PALETTES[0]
    pal = gb_feature_palette(P)

    def build():
        if fmt == "fasta":
            f = b.fasta.FastaFile(7)
            b.fasta.set_sequences(f, {"a": b.seq.NucleotideSequence("ACGTNACGTN" * 3), "p": b.seq.ProteinSequence("MKL*")})
        elif fmt == "fastq":
            f = b.fastq.FastqFile("Solexa", 5)
            b.fastq.set_sequence(f, b.seq.NucleotideSequence("ACGTNACGTNAC"), np.arange(-5, 7), "r")
        elif fmt == "genbank":
            f = b.gb.GenBankFile()
            b.gb.set_locus(f, "X", 1234, "DNA", False, "BCT", "01-JAN-2000")
            b.gb.set_annotated_sequence(f, b.AnnotatedSequence(b.Annotation([mk_feature(b, x) for x in pal[:9]]),
                                                               b.seq.NucleotideSequence("ACGT" * 40), np.int64(123456)))
        else:
            f = b.gff.GFFFile()
            f.append("s", "p", "CDS", np.int64(1000000), np.int64(123456789), np.float64(1e-7), b.REV, 1, {"ID": "x"})
            f.append("s", "p", "gene", 1, 5, 0.1 + 0.2, None, None, {"k": "v"})
        return f

    def content(path_or_io, cls, *a):
        g = cls.read(path_or_io, *a)
        if fmt == "fasta":
            return list(g.items())
        if fmt == "fastq":
            return [(k, s, q.tolist()) for k, (s, q) in g.items()]
        if fmt == "genbank":
            r = b.gb.get_annotated_sequence(g)
            return [show_annot(annot_model(b, r.annotation)), str(r.sequence), int(r.sequence_start), list(b.gb.get_locus(g))]
        return [gff_view(b, x) for x in g]

    cls = {"fasta": b.fasta.FastaFile, "fastq": b.fastq.FastqFile, "genbank": b.gb.GenBankFile, "gff": b.gff.GFFFile}[fmt]
    extra = ("Solexa",) if fmt == "fastq" else ()
    ref_text = text_of(build())
    ref = content(io.StringIO(ref_text), cls, *extra)
    old_cwd = os.getcwd()
    old_print = np.get_printoptions()
    old_err = np.geterr()
    d1, d2 = tempfile.mkdtemp(prefix="c12-amb-"), tempfile.mkdtemp(prefix="c12-amb-")
    try:
        if amb in ("numpy_print", "all"):
            np.set_printoptions(precision=1, threshold=2, edgeitems=1, suppress=True, legacy="1.13")
        if amb in ("numpy_err", "all"):
            np.seterr(all="raise")
        if amb in ("cwd", "all"):
            os.chdir(d1)
        f = build()
        text = text_of(f)
        f.write("rel.txt")  # relative path: resolved against the cwd at the time of the call
        if amb in ("cwd", "all"):
            os.chdir(d2)
        where = os.path.join(d1 if amb in ("cwd", "all") else old_cwd, "rel.txt")
        on_disk = open(where).read()
        got = content(where, cls, *extra)
        got2 = content(io.StringIO(text), cls, *extra)
        if not amb in ("cwd", "all"):
            os.unlink(where)
    except Exception as e:  # noqa: BLE001
        ctx.violation("ambient|%s|%s|%s" % (fmt, exc_name(e), amb), "round trip fails under a changed ambient state", case,
                      "success", repr(e))
        return
    finally:
        os.chdir(old_cwd)
        np.set_printoptions(**old_print)
        np.seterr(**old_err)
        shutil.rmtree(d1, ignore_errors=True)
        shutil.rmtree(d2, ignore_errors=True)
    ctx.outcome(("a3_ambient", fmt, amb))
    if text != ref_text or on_disk != ref_text or got != ref or got2 != ref:
        ctx.violation("ambient|%s|differs|%s" % (fmt, amb), "text or parsed content depends on ambient state", case,
                      ref_text[:400], text[:400])


def check_a3_precedence(case, ctx):
    """A value that can come from two places, both present and different; oracle = the documented precedence."""
    b = B()
    v = case["v"]
    ctx.ev(1, 1)
    N, Pr = b.seq.NucleotideSequence, b.seq.ProteinSequence
    bad = None
    unspec = False
    try:
        if v in (0, 1, 2, 3):
            # get_sequence(format=) vs the molecule type in LOCUS: 'Depending on this parameter a NucleotideSequence or a
            # ProteinSequence is returned'
            mol, fmt, s = [("DNA", "gp", "ACGT"), ("Protein", "gb", "ACGT"), ("Protein", "gp", "MKL*"), ("DNA", "gb", "ACGTN")][v]
            f = b.gb.GenBankFile()
            b.gb.set_locus(f, "X", len(s), mol, False, "BCT", "01-JAN-2000")
            b.gb.set_sequence(f, s)
            g = b.gb.GenBankFile.read(io.StringIO(text_of(f)))
            r = b.gb.get_sequence(g, format=fmt)
            a = None
            want = (Pr if fmt == "gp" else N)(s)
            if type(r) is not type(want) or str(r) != str(want) or a is not None:
                bad = ("genbank_format_vs_locus", [type(want).__name__, str(want)], [type(r).__name__, str(r)])
        elif v in (4, 5):
            # as_rna only applies to nucleotide sequences: a protein with threonine keeps its T
            f = b.fasta.FastaFile()
            so = [Pr("MTT*T"), N("ATTG")][v - 4]
            b.fasta.set_sequence(f, so, "h", as_rna=True)
            b.fasta.set_sequences(f, {"k": so}, as_rna=True)
            raw = dict(b.fasta.FastaFile.read(io.StringIO(text_of(f))).items())
            want = "MTT*T" if v == 4 else "AUUG"
            back = b.fasta.get_sequence(f, "k", seq_type=type(so))
            if raw != {"h": want, "k": want} or str(back) != str(so):
                bad = ("as_rna_vs_sequence_type", want, [raw, str(back)])
        elif v in (6, 7):
            # explicit seq_type vs what the letters would be guessed as
            s, T = [("ACGT", Pr), ("NNN", Pr)][v - 6]
            f = b.fasta.FastaFile()
            f["a"] = s
            f["b"] = "MKL"
            r = b.fasta.get_sequence(f, "a", seq_type=T)
            d = b.fasta.get_sequences(f, seq_type=T)
            if type(r) is not T or str(r) != s or any(type(x) is not T for x in d.values()) or str(d["a"]) != s:
                bad = ("explicit_seq_type_vs_guess", [T.__name__, s], [type(r).__name__, str(r)])
        elif v in (8, 9):
            # is_stranded=False vs the strands stored in the locations: 'Otherwise the strand column is filled with .'
            locs = [b.Location(1, 5, b.REV), b.Location(9, 12, b.FWD if v == 8 else b.REV)]
            f = b.gff.GFFFile()
            b.gff.set_annotation(f, b.Annotation([b.Feature("CDS", locs, {"ID": "x"})]), seqid="s", source="p", is_stranded=False)
            g = b.gff.GFFFile.read(io.StringIO(text_of(f)))
            rows = [gff_view(b, x) for x in g]
            if sorted((r[3], r[4]) for r in rows) != [(1, 5), (9, 12)] or any(r[6] != 0 for r in rows) \
                    or any(l.split("\t")[6] != "." for l in text_of(f).split("\n")[1:3]):
                bad = ("is_stranded_false_vs_location_strand", "strand column '.'", rows)
        elif v in (10, 11):
            # read(chars_per_line=) vs the wrapping found in the file: existing lines are kept, new entries use the argument
            text = ">a\nACGTACG\nTT\n"
            f = b.fasta.FastaFile.read(io.StringIO(text), chars_per_line=[2, 100][v - 10])
            f["b"] = "ACGTA"
            lines = text_of(f).split("\n")
            want_b = ["AC", "GT", "A"] if v == 10 else ["ACGTA"]
            if dict(f.items()) != {"a": "ACGTACGTT", "b": "ACGTA"} or lines[:3] != [">a", "ACGTACG", "TT"] or lines[4:-1] != want_b:
                bad = ("chars_per_line_argument_vs_file", want_b, lines)
    except Exception as e:  # noqa: BLE001
        ctx.count("accepted")
        ctx.violation("precedence|%s|v%d" % (exc_name(e), v), "a call with the value given in two places raised", case, "success",
                      repr(e))
        return
    ctx.count("unspecified" if unspec else "accepted")
    ctx.outcome(("a3_precedence", v, bad is None))
    if bad:
        ctx.violation("precedence|%s" % bad[0], "documented precedence of an explicitly given value is not respected", case,
                      bad[1], bad[2])


def check_a3_selection(case, ctx):
    """Selections by position / identity: the first entry when it is empty or equal to later ones; entries grouped by ID
    (documented: entries with the same ID are one feature whose type and attributes come from the first entry)."""
    b = B()
    v = case["v"]
    ctx.ev(1, 1)
    N = b.seq.NucleotideSequence
    bad = None
    try:
        if v < 4:
            ents = [[("a", ""), ("b", "ACGT")], [("a", "AC"), ("b", "AC"), ("c", "AC")], [("a", ""), ("b", ""), ("c", "G")],
                    [("b", "T"), ("a", "ACGT")]][v]
            f = b.fasta.FastaFile()
            for k, s in ents:
                f[k] = s
            g = b.fasta.FastaFile.read(io.StringIO(text_of(f)))
            r = b.fasta.get_sequence(g)
            q = b.fastq.FastqFile("Sanger")
            for k, s in ents:
                q[k] = (s, [30 + len(k)] * len(s))
            qg = b.fastq.FastqFile.read(io.StringIO(text_of(q)), "Sanger")
            r2, sc2 = b.fastq.get_sequence(qg)
            if str(r) != ents[0][1] or str(r2) != ents[0][1] or sc2.tolist() != [31] * len(ents[0][1]):
                bad = ("first_entry", ents[0][1], [str(r), str(r2), sc2.tolist()])
            ctx.count("accepted")
        else:
            S = b.FWD
            rowsets = [
                # adjacent entries with the same ID and different type / attributes: one feature, first entry wins
                ([("gene", 1, 5, {"ID": "x", "n": "1"}), ("CDS", 9, 12, {"ID": "x", "n": "2"})],
                 [("gene", {(1, 5), (9, 12)}, {"ID": "x", "n": "1"})]),
                # empty ID on adjacent entries is an ID like any other
                ([("gene", 1, 5, {"ID": ""}), ("gene", 9, 12, {"ID": ""})], [("gene", {(1, 5), (9, 12)}, {"ID": ""})]),
                # no ID: never grouped, even when everything else is equal
                ([("gene", 1, 5, {"k": "v"}), ("gene", 9, 12, {"k": "v"})], [("gene", {(1, 5)}, {"k": "v"}), ("gene", {(9, 12)}, {"k": "v"})]),
                # ID change back and forth (x, y, x): the two x blocks are not adjacent -> unspecified, counted
                ([("gene", 1, 5, {"ID": "x"}), ("gene", 20, 25, {"ID": "y"}), ("gene", 9, 12, {"ID": "x"})], None),
                # first entry without ID, then two with the same ID
                ([("gene", 1, 5, {}), ("CDS", 7, 8, {"ID": "x"}), ("CDS", 9, 12, {"ID": "x"})],
                 [("gene", {(1, 5)}, {}), ("CDS", {(7, 8), (9, 12)}, {"ID": "x"})]),
                # identical duplicate rows under one ID collapse to one location (locations are a set)
                ([("gene", 1, 5, {"ID": "x"}), ("gene", 1, 5, {"ID": "x"})], [("gene", {(1, 5)}, {"ID": "x"})]),
            ][v - 4]
            rows, want = rowsets
            f = b.gff.GFFFile()
            for typ, a, z, attrs in rows:
                f.append("s", "p", typ, a, z, None, S, None, attrs)
            ann = b.gff.get_annotation(b.gff.GFFFile.read(io.StringIO(text_of(f))))
            got = sorted((ft.key, sorted((l.first, l.last) for l in ft.locs), sorted(ft.qual.items())) for ft in ann)
            if want is None:
                ctx.count("unspecified")
                ctx.count("outside_statement_gff_same_id_not_adjacent_%d_features" % len(got))
            else:
                ctx.count("accepted")
                exp = sorted((k, sorted(l), sorted(q.items())) for k, l, q in want)
                if got != exp:
                    bad = ("gff_id_grouping", exp, got)
    except Exception as e:  # noqa: BLE001
        ctx.violation("selection|%s|v%d" % (exc_name(e), v), "selection case raised", case, "success", repr(e))
        return
    ctx.outcome(("a3_selection", v, bad is None))
    if bad:
        ctx.violation("selection|%s" % bad[0], "the selected entry / grouping is not the documented one", case, bad[1], bad[2])


# ===========================================================================
# shards / dispatch
# ===========================================================================
FAMILIES = {
    # name: (generator, parts quick, parts thorough)
    "fasta": (gen_fasta, 4, 8),
    "fastq_misc": (gen_fastq_misc, 6, 6),
    "gb_loc1": (gen_gb_loc1, 1, 1),
    "gb_loc2": (gen_gb_loc2, 6, 6),
    "gb_loc3": (gen_gb_loc3, 8, 48),
    "gb_qual": (gen_gb_qual, 4, 4),
    "gb_feat2": (gen_gb_feat2, 1, 1),
    "gb_seq": (gen_gb_seq, 2, 4),
    "gb_locus": (gen_gb_locus, 1, 1),
    "gb_field": (gen_gb_field, 2, 2),
    "gff": (gen_gff, 2, 2),
    "gff_annot": (gen_gff_annot, 2, 2),
    "general": (gen_general, 1, 1),
    "sizes": (gen_sizes, 2, 2),
    "many": (gen_many, 4, 6),
    "flavours": (gen_flavours, 2, 2),
    "alias_reuse": (gen_alias, 1, 1),
    "order": (gen_order, 1, 1),
    "audit2": (gen_audit2, 3, 3),
    "audit3": (gen_audit3, 1, 1),
}
CHECKERS = {"fasta": check_fasta, "fasta_multi": check_fasta_multi, "fastq": check_fastq, "fastq_multi": check_fastq_multi,
            "gb": check_gb, "gb_locus": check_gb_locus, "gb_field": check_gb_field, "gff": check_gff, "gff_annot": check_gff_annot,
            "general": check_general, "gb_unspec": check_gb_unspec, "gb_many": check_gb_many,
            "fastq_flavour": check_fastq_flavour, "num_flavour": check_num_flavour, "alias": check_alias, "reuse": check_reuse, "a2_copy": check_a2_copy,
            "a2_fastq_typed": check_a2_fastq_typed, "a2_resize": check_a2_resize, "a2_derived": check_a2_derived,
            "a2_alignment": check_a2_alignment, "a3_merge": check_a3_merge, "a3_align_names": check_a3_align_names,
            "a3_ambient": check_a3_ambient, "a3_precedence": check_a3_precedence, "a3_selection": check_a3_selection}


def shards(tier, seed):
    out = []
    for blk in fastq_blocks(tier, seed):
        out.append({"kind": "fastq_block", **blk})
    for spec in SPECS.values():
        for cfg in spec.configs(tier, seed):
            out.append({"kind": "hist", "cfg": cfg})
    for name, (_, pq, pt) in FAMILIES.items():
        parts = pq if tier == "quick" else pt
        for p in range(parts):
            out.append({"kind": "family", "family": name, "part": p, "parts": parts})
    # longest first
    order = {"fastq_block": 0, "hist": 1, "family": 2}
    out.sort(key=lambda s: (order[s["kind"]], 0 if s.get("n") == 3 else 1, 0 if (s.get("cfg") or {}).get("fmt") == "genbank" else 1))
    return out


def guarded(fn, case, ctx):
    """An exception that escapes a checker comes from an implementation call the checker did not expect to fail
    (every expected failure point is handled inside): report it as a violation instead of aborting the shard."""
    try:
        fn(case, ctx)
    except Exception as e:  # noqa: BLE001
        import traceback

        tb = traceback.extract_tb(e.__traceback__)
        where = "biotite" if any("/biotite/" in fr.filename for fr in tb) else "checker"
        ctx.violation("%s|unguarded_%s_in_%s" % (case.get("kind"), exc_name(e), where),
                      "unexpected exception while checking the case", case, "no exception",
                      "".join(traceback.format_exception(type(e), e, e.__traceback__))[-1500:])


def run_shard(shard, ctx):
    k = shard["kind"]
    if k == "fastq_block":
        run_fastq_block(shard, ctx)
        return
    if k == "hist":
        run_hist(shard["cfg"], ctx)
        return
    gen = FAMILIES[shard["family"]][0]
    part, parts = shard["part"], shard["parts"]
    ctx.journal(json.dumps(shard))
    for i, case in enumerate(gen(ctx.tier, ctx.seed)):
        if i % parts != part:
            continue
        guarded(CHECKERS[case["kind"]], case, ctx)
        ctx.count("cases_" + shard["family"])
        if len(ctx.samples) < 1 and i > 20:
            ctx.sample(case)


def replay(case, ctx):
    if isinstance(case, str):
        case = json.loads(case)
    k = case.get("kind")
    if k == "hist":
        if "hist" in case:
            replay_hist(case, ctx)
        else:
            run_hist(case["cfg"], ctx)
        return
    if k == "fastq_block":
        run_fastq_block(case, ctx)
        return
    if k == "family":
        run_shard(case, ctx)
        return
    guarded(CHECKERS[k], case, ctx)


def crash_class(case):
    if isinstance(case, dict):
        if case.get("kind") == "hist":
            return "hist|" + str((case.get("cfg") or {}).get("fmt"))
        return str(case.get("kind")) + ("|" + case["family"] if "family" in case else "")
    return "unclassified"
