"""C04 - a structure survives a CIF / BinaryCIF write-read cycle unchanged.

E2: bounded exhaustive input enumeration, five families.
  * annot  : every residue/chain layout of 1-4 atoms (28 skeletons) x every set of <= k deviations
             (awkward names, ids, coordinates, models, box, optional fields, extra field, a bond
             path) -> set_structure -> text / BinaryCIF / compressed BinaryCIF -> get_structure,
             compared field by field with the input; the three encodings must decode alike.
  * bonds  : residue templates built on the synthetic component dictionary x every edge set on
             the atoms x every assignment of a two-type palette (plus every single edge x all ten
             bond types), round trip with include_bonds.
  * table  : atom_site / struct_conn / chem_comp_bond / cell tables written by an independent
             model writer in mmCIF dictionary terms (text) and assembled as BinaryCIF columns;
             every assignment of alt ids and occupancies to the rows of a residue x altloc policy
             x model x author/label fields; oracle = per-residue recomputation.
  * ropts  : written files x every read option (model incl. out of range, altloc, extra_fields
             subsets, use_author_fields, include_bonds).
  * nonuniq: residues that are not uniquely identifiable: InvalidFileError or the exact bonds.
  * reuse  : two set_structure() calls on ONE file / block object (same block, two blocks, block object,
             lazily parsed file, compressed file), every ordered pair of a 7-structure palette, with and
             without a read in between; oracle = a fresh object that only saw the last structure;
             refused calls must leave the object unchanged.
  * flavour: one-factor families with differential oracles: array flavours of every annotation / coord /
             box (other widths, float64, non-contiguous, Fortran, read-only, lists, object), input aliasing
             (argument unchanged; file independent of later changes of the argument and of the returned
             structure), argument types of get_structure, all-empty string columns and empty stacks,
             9/10/11 and 99/100/101 models / chains / residues, every order of the atoms of a residue and of
             four residues of two chains, rotated / permuted / left-handed boxes, every subset of categories
             forced on a lazily parsed file, refused get_structure calls; strings with two awkward features
             (all pairs of quote / double quote / blank / tab / special first character / reserved word /
             line break) in every name position; identity of compress() results; three writes of other
             sizes on one file with count-caching reads in between; structures handed out by the library
             itself (indexing, slicing, concatenate, stack, get_structure, from_template, repeat) as input.
  * big    : chains of 1250-66000 hetero residues whose (struct_conn rows x atoms) product lies on both
             sides of the reader's 4 000 000 switch between dense and dictionary partner matching.
Every written file with bonds is also inspected row by row (struct_conn / chem_comp_bond rows must be
true statements about the input in mmCIF dictionary terms), see written_rows_check().
"""

import io
import os
import itertools
import json
import math
import warnings

import numpy as np

ID = "C04"
LEVEL = "model_checking"
EXHAUSTIVE = True
SHARD_TIMEOUT = {"quick": 600, "thorough": 2400}

FORMATS = ("cif", "bcif", "cbcif")
BT_NAMES = ["ANY", "SINGLE", "DOUBLE", "TRIPLE", "QUADRUPLE", "AROMATIC_SINGLE", "AROMATIC_DOUBLE",
            "AROMATIC_TRIPLE", "COORDINATION", "AROMATIC"]
OPT_FIELDS = ("atom_id", "b_factor", "occupancy", "charge")
EXTRA_NAME = "note"

# canonical (standard) polymer components of the wwPDB: what "canonical link" means for the oracle
STD_AA = {"ALA", "ARG", "ASN", "ASP", "CYS", "GLN", "GLU", "GLY", "HIS", "ILE", "LEU", "LYS", "MET", "PHE", "PRO",
          "PYL", "SER", "THR", "TRP", "TYR", "VAL", "SEC"}
STD_NUC = {"A", "C", "G", "U", "DA", "DC", "DG", "DT"}
# intra-residue bonds of the synthetic dictionary (mc/ccd.py), copied here as plain data: (a1, a2) -> type
CCD_BONDS = {
    "ALA": {("N", "CA"): 1, ("CA", "C"): 1, ("CA", "CB"): 1, ("C", "O"): 2, ("C", "OXT"): 1},
    "GLY": {("N", "CA"): 1, ("CA", "C"): 1, ("C", "O"): 2, ("C", "OXT"): 1},
    "SER": {("N", "CA"): 1, ("CA", "C"): 1, ("CA", "CB"): 1, ("C", "O"): 2, ("C", "OXT"): 1, ("CB", "OG"): 1},
    "A": {("P", "OP1"): 2, ("P", "O5'"): 1, ("O5'", "C5'"): 1, ("C5'", "O3'"): 1, ("C5'", "N9"): 1, ("N9", "C8"): 5},
    "DA": {("P", "O5'"): 1, ("O5'", "C5'"): 1, ("C5'", "O3'"): 1},
    "HOH": {("O", "H1"): 1, ("O", "H2"): 1},
    "LIG": {("C1", "C2"): 6, ("C2", "C3"): 5, ("C3", "N1"): 2, ("N1", "O1"): 1, ("O1", "C4"): 1, ("C4", "C1"): 5,
            ("C4", "C5"): 3},
    "NA": {},
}
CCD_LINK = {"ALA": "pep", "GLY": "pep", "SER": "pep", "A": "nuc", "DA": "nuc"}


# ---------------------------------------------------------------------------
# structure specs (JSON-able) -> biotite objects
# ---------------------------------------------------------------------------
# spec = {"atoms": [[chain, res_id, ins, res_name, hetero, atom_name, element], ...],
#         "coord": [model][atom][3], "stack": bool, "box": None | [model][3][3],
#         "opt": {field: [values]}, "extra": None | [strings], "bonds": None | [[i, j, t], ...]}

def fnum(x):
    return float("nan") if x == "nan" else float(x)


def build(spec):
    import biotite.structure as struc

    atoms = spec["atoms"]
    n = len(atoms)
    m = len(spec["coord"])
    if spec["stack"]:
        a = struc.AtomArrayStack(m, n)
        a.coord = np.array(spec["coord"], dtype=np.float32).reshape(m, n, 3)
    else:
        a = struc.AtomArray(n)
        a.coord = np.array(spec["coord"][0], dtype=np.float32).reshape(n, 3)
    a.chain_id = np.array([x[0] for x in atoms], dtype=str)
    a.res_id = np.array([x[1] for x in atoms], dtype=int)
    a.ins_code = np.array([x[2] for x in atoms], dtype=str)
    a.res_name = np.array([x[3] for x in atoms], dtype=str)
    a.hetero = np.array([bool(x[4]) for x in atoms], dtype=bool)
    a.atom_name = np.array([x[5] for x in atoms], dtype=str)
    a.element = np.array([x[6] for x in atoms], dtype=str)
    opt = spec.get("opt") or {}
    if "atom_id" in opt:
        a.set_annotation("atom_id", np.array(opt["atom_id"], dtype=int))
    if "b_factor" in opt:
        a.set_annotation("b_factor", np.array([fnum(v) for v in opt["b_factor"]], dtype=float))
    if "occupancy" in opt:
        a.set_annotation("occupancy", np.array([fnum(v) for v in opt["occupancy"]], dtype=float))
    if "charge" in opt:
        a.set_annotation("charge", np.array(opt["charge"], dtype=int))
    if spec.get("extra") is not None:
        a.set_annotation(EXTRA_NAME, np.array(spec["extra"], dtype=str))
    if spec.get("box") is not None:
        b = np.array(spec["box"], dtype=np.float32)
        a.box = b if spec["stack"] else b[0]
    if spec.get("bonds") is not None:
        rows = np.array(spec["bonds"], dtype=np.int64).reshape(-1, 3)
        a.bonds = struc.BondList(n, rows)
    return a


def write_file(struct, fmt, include_bonds, extra_fields):
    """set_structure + serialisation; returns str (cif) or bytes."""
    from biotite.structure.io import pdbx

    if fmt == "cif":
        f = pdbx.CIFFile()
        pdbx.set_structure(f, struct, include_bonds=include_bonds, extra_fields=list(extra_fields))
        s = io.StringIO()
        f.write(s)
        return s.getvalue()
    f = pdbx.BinaryCIFFile()
    pdbx.set_structure(f, struct, include_bonds=include_bonds, extra_fields=list(extra_fields))
    if fmt == "cbcif":
        f = pdbx.compress(f)
    s = io.BytesIO()
    f.write(s)
    return s.getvalue()


def read_file(data, fmt):
    from biotite.structure.io import pdbx

    if fmt == "cif":
        return pdbx.CIFFile.read(io.StringIO(data))
    return pdbx.BinaryCIFFile.read(io.BytesIO(data))


# ---------------------------------------------------------------------------
# observation of a biotite structure as plain data
# ---------------------------------------------------------------------------
def cell_of(box):
    """(a, b, c, alpha, beta, gamma) in float64, angles in degrees, textbook formulas."""
    v = [[float(x) for x in row] for row in box]
    ln = [math.sqrt(sum(x * x for x in r)) for r in v]

    def ang(p, q):
        d = sum(x * y for x, y in zip(v[p], v[q])) / (ln[p] * ln[q])
        return math.degrees(math.acos(max(-1.0, min(1.0, d))))

    return (ln[0], ln[1], ln[2], ang(1, 2), ang(0, 2), ang(0, 1))


def observe(a):
    import biotite.structure as struc

    o = {}
    o["kind"] = "stack" if isinstance(a, struc.AtomArrayStack) else "array"
    o["n"] = a.array_length()
    o["depth"] = a.stack_depth() if o["kind"] == "stack" else 1
    ann = {}
    for cat in a.get_annotation_categories():
        ann[cat] = a.get_annotation(cat).tolist()
    o["annot"] = ann
    c = np.asarray(a.coord)
    o["coord_dtype"] = str(c.dtype)
    o["coord"] = c.reshape(o["depth"], o["n"], 3).astype(np.float64).tolist()
    if a.bonds is None:
        o["bonds"] = None
    else:
        o["bonds"] = sorted([int(i), int(j), int(t)] for i, j, t in a.bonds.as_array())
        o["bonds_n"] = a.bonds.get_atom_count()
    if a.box is None:
        o["box"] = None
    else:
        b = np.asarray(a.box, dtype=np.float64)
        o["box"] = b.reshape(-1, 3, 3).tolist()
    return o


def residues_of(atoms):
    """Residue segmentation of an annotation table: a new residue starts where chain, res_id,
    ins_code or res_name changes.  Returns list of (start, stop)."""
    out = []
    start = 0
    for i in range(1, len(atoms) + 1):
        if i == len(atoms) or tuple(atoms[i][:4]) != tuple(atoms[i - 1][:4]):
            out.append((start, i))
            start = i
    return out


def well_formed(spec, need_unique_atoms):
    """Precondition of the statement: residues uniquely identifiable (and, where bonds are
    written, atoms uniquely identifiable inside a residue)."""
    atoms = spec["atoms"]
    res = residues_of(atoms)
    keys = [tuple(atoms[s][:4]) for s, _ in res]
    if len(set(keys)) != len(keys):
        return False
    if need_unique_atoms:
        for s, e in res:
            names = [atoms[i][5] for i in range(s, e)]
            if len(set(names)) != len(names):
                return False
    return True


# ---------------------------------------------------------------------------
# expected observation of get_structure(written file) from the spec
# ---------------------------------------------------------------------------
def expected(spec, model=None, extra_fields=None, include_bonds=None, altloc="first"):
    atoms = spec["atoms"]
    n = len(atoms)
    m = len(spec["coord"])
    e = {}
    if model is None:
        e["kind"], e["depth"] = "stack", m
        e["coord"] = spec["coord"]
    else:
        k = model - 1 if model > 0 else m + model
        e["kind"], e["depth"] = "array", 1
        e["coord"] = [spec["coord"][k]]
    e["n"] = n
    ann = {
        "chain_id": [x[0] for x in atoms], "res_id": [x[1] for x in atoms], "ins_code": [x[2] for x in atoms],
        "res_name": [x[3] for x in atoms], "hetero": [bool(x[4]) for x in atoms],
        "atom_name": [x[5] for x in atoms], "element": [x[6] for x in atoms],
    }
    opt = spec.get("opt") or {}
    if extra_fields is None:
        extra_fields = [f for f in OPT_FIELDS if f in opt] + ([EXTRA_NAME] if spec.get("extra") is not None else [])
    for f in extra_fields:
        if f == EXTRA_NAME:
            ann[f] = list(spec["extra"])
        elif f in ("b_factor", "occupancy"):
            ann[f] = [fnum(v) for v in opt[f]]
        else:
            ann[f] = list(opt[f])
    if altloc == "all":
        ann["altloc_id"] = ["."] * n
    e["annot"] = ann
    if include_bonds is None:
        include_bonds = spec.get("bonds") is not None
    if include_bonds:
        d = {}
        for i, j, t in spec["bonds"]:
            d[(min(i, j), max(i, j))] = t
        e["bonds"] = sorted([i, j, t] for (i, j), t in d.items())
    else:
        e["bonds"] = None
    if spec.get("box") is None:
        e["box"] = None
    else:
        e["box"] = [spec["box"][0]] * (e["depth"])
    return e


def feq(x, y, rel):
    if x != x or y != y:
        return x != x and y != y
    if x == y:
        return True
    if math.isinf(x) or math.isinf(y):
        return False
    return abs(x - y) <= rel * max(abs(x), abs(y))


def compare(exp, obs, fmt):
    """Returns a list of (field, expected, observed). `fmt` decides the float tolerance:
    exact for text and plain BinaryCIF, the documented relative 1e-6 after compress()."""
    rel = 1.5e-6 if fmt == "cbcif" else 0.0
    d = []
    for k in ("kind", "n", "depth"):
        if exp[k] != obs[k]:
            d.append((k, exp[k], obs[k]))
    if d:
        return d
    ea, oa = exp["annot"], obs["annot"]
    if sorted(ea) != sorted(oa):
        d.append(("annotation_categories", sorted(ea), sorted(oa)))
    for cat in ea:
        if cat not in oa:
            continue
        x, y = ea[cat], oa[cat]
        if cat in ("b_factor", "occupancy"):
            same = len(x) == len(y) and all(feq(float(p), float(q), rel) for p, q in zip(x, y))
        else:
            same = x == y and all(type(p) is type(q) or (isinstance(p, bool) == isinstance(q, bool))
                                  for p, q in zip(x, y))
        if not same:
            d.append((cat, x, y))
    if obs["coord_dtype"] != "float32":
        d.append(("coord_dtype", "float32", obs["coord_dtype"]))
    ec = [[[float(np.float32(v)) for v in at] for at in mod] for mod in exp["coord"]]
    same = all(feq(p, q, rel) for em, om in zip(ec, obs["coord"]) for ea_, oa_ in zip(em, om) for p, q in zip(ea_, oa_))
    if not same:
        d.append(("coord", ec, obs["coord"]))
    if exp["bonds"] != obs["bonds"]:
        d.append(("bonds", exp["bonds"], obs["bonds"]))
    elif exp["bonds"] is not None and obs.get("bonds_n") != exp["n"]:
        d.append(("bonds_atom_count", exp["n"], obs.get("bonds_n")))
    if (exp["box"] is None) != (obs["box"] is None):
        d.append(("box_presence", exp["box"] is not None, obs["box"] is not None))
    elif exp["box"] is not None:
        if len(obs["box"]) != len(exp["box"]):
            d.append(("box_depth", len(exp["box"]), len(obs["box"])))
        else:
            for k, (eb, ob) in enumerate(zip(exp["box"], obs["box"])):
                try:
                    ce, co = cell_of(eb), cell_of(ob)
                    ok = all(feq(p, q, 1e-4) for p, q in zip(ce, co))
                except (ZeroDivisionError, ValueError):
                    ce, co, ok = eb, ob, False
                if not ok:
                    d.append(("box_cell", list(ce), list(co)))
                    break
    return d


# ---------------------------------------------------------------------------
# generic evaluation of one written structure
# ---------------------------------------------------------------------------
ORDER_WORD = {1: "sing", 2: "doub", 3: "trip", 4: "quad", 5: "sing", 6: "doub", 7: "trip"}
COVALENT_CONN = ("covale", "covale_base", "covale_phosphate", "covale_sugar", "disulf", "modres", "modres_link")
INTRA_WORDS = {("SING", "N"): 1, ("DOUB", "N"): 2, ("TRIP", "N"): 3, ("QUAD", "N"): 4, ("SING", "Y"): 5,
               ("DOUB", "Y"): 6, ("TRIP", "Y"): 7, ("AROM", "Y"): 9}


def written_rows_check(f, spec):
    """Soundness of the bond rows of a written file, row by row, in mmCIF dictionary terms: every
    struct_conn row names two atoms that are bonded in the input and does not misstate the type
    (metalc <-> COORDINATION; pdbx_value_order, where given, is the order of the bond); every
    chem_comp_bond row is true for at least one residue of that component.  Completeness is left to
    the read-back comparison.  Returns diffs (field, expected, observed)."""
    block = f.block
    atoms = spec["atoms"]
    E = {(min(i, j), max(i, j)): t for i, j, t in spec["bonds"]}
    idx = {(a[0], a[3], int(a[1]), a[5], a[2]): k for k, a in enumerate(atoms)}
    diffs = []
    if "struct_conn" in block:
        sc = block["struct_conn"]

        def col(name):
            return [str(x) for x in sc[name].as_array(str)] if name in sc else None

        conn, order = col("conn_type_id"), col("pdbx_value_order")
        parts = []
        for p in (1, 2):
            parts.append([col("ptnr%d_label_asym_id" % p), col("ptnr%d_label_comp_id" % p),
                          col("ptnr%d_label_seq_id" % p), col("ptnr%d_label_atom_id" % p),
                          col("pdbx_ptnr%d_PDB_ins_code" % p)])
        for r in range(len(conn)):
            ks = []
            for cols in parts:
                ins = cols[4][r] if cols[4] is not None else ""
                try:
                    ks.append(idx.get((cols[0][r], cols[1][r], int(cols[2][r]), cols[3][r],
                                       "" if ins in (".", "?") else ins)))
                except (TypeError, ValueError):  # an identifying column is missing / not a number
                    ks.append(None)
            if None in ks:
                diffs.append(("written_file|struct_conn_row_names_no_atom_of_the_input", "partners among the atoms",
                              [c[r] for cols in parts for c in cols if c is not None]))
                continue
            t = E.get((min(ks), max(ks)))
            word = (order[r].lower() if order is not None else "?")
            said = {"conn_type_id": conn[r], "pdbx_value_order": word, "atoms": ks}
            if t is None:
                diffs.append(("written_file|struct_conn_row_for_a_bond_not_in_the_input", None, said))
            elif (t == 8) != (conn[r] == "metalc") or (t != 8 and conn[r] not in COVALENT_CONN):
                diffs.append(("written_file|struct_conn_conn_type_misstates_bond", BT_NAMES[t], said))
            elif word not in ("?", ".") and word != ORDER_WORD.get(t):
                diffs.append(("written_file|struct_conn_value_order_misstates_bond", BT_NAMES[t], said))
    if "chem_comp_bond" in block:
        cb = block["chem_comp_bond"]
        cols = {k: [str(x) for x in cb[k].as_array(str)] for k in
                ("comp_id", "atom_id_1", "atom_id_2", "value_order", "pdbx_aromatic_flag")}
        res = residues_of(atoms)
        for r in range(len(cols["comp_id"])):
            comp, a1, a2 = cols["comp_id"][r], cols["atom_id_1"][r], cols["atom_id_2"][r]
            word, flag = cols["value_order"][r].upper(), cols["pdbx_aromatic_flag"][r].upper()
            said = 0 if word in ("?", ".") else INTRA_WORDS.get((word, flag), -1)
            types = []
            for s_, e_ in res:
                if atoms[s_][3] != comp:
                    continue
                names = {atoms[k][5]: k for k in range(s_, e_)}
                if a1 in names and a2 in names:
                    types.append(E.get((min(names[a1], names[a2]), max(names[a1], names[a2]))))
            if said not in types:
                diffs.append(("written_file|chem_comp_bond_row_true_for_no_residue",
                              [BT_NAMES[t] if t is not None else None for t in types],
                              {"comp_id": comp, "atoms": [a1, a2], "value_order": word, "pdbx_aromatic_flag": flag}))
    return diffs


HANG_TIMEOUT = 4.0  # seconds granted to one compressed round trip in a forked child


def roundtrip(spec, fmt, ctx=None, isolate=False):
    """Write and read back; returns ('ok', [ (read_label, diffs) ]) / ('raises', stage, ExcName, msg) /
    ('hang', stage)."""
    from biotite.structure.io import pdbx

    has_bonds = spec.get("bonds") is not None
    extra = [EXTRA_NAME] if spec.get("extra") is not None else []
    opt = spec.get("opt") or {}
    read_extra = [f for f in OPT_FIELDS if f in opt] + extra

    def go():
        stage = "build"
        try:
            s = build(spec)
            stage = "set_structure"
            data = write_file(s, fmt, has_bonds, extra)
            stage = "read"
            f = read_file(data, fmt)
            out = []
            if has_bonds:
                stage = "inspect_written_file"
                out.append(("file", written_rows_check(f, spec)))
            m = len(spec["coord"])
            reads = [("stack", None)]
            if not spec["stack"] or m > 1:
                reads.append(("last", -1))
            for label, model in reads:
                stage = "get_structure"
                r = pdbx.get_structure(f, model=model, extra_fields=list(read_extra), include_bonds=has_bonds)
                o = observe(r)
                out.append((label, compare(expected(spec, model=model), o, fmt)))
                if label == "stack":
                    seen = json.dumps([o["annot"], o["coord"], o["bonds"], o["box"]], sort_keys=True, default=str)
            return ("ok", out, seen)
        except Exception as e:  # noqa: BLE001
            return ("raises", stage, type(e).__name__, str(e)[:200])

    with warnings.catch_warnings():
        warnings.simplefilter("ignore")
        if isolate and ctx is not None:
            r = ctx.isolated(go, timeout=HANG_TIMEOUT)
            if r[0] == "ok":
                return r[1]
            if r[0] == "timeout":
                return ("hang", "set_structure+compress")
            return ("raises", "child", r[0], repr(r[1:])[:200])
        return go()


# ---------------------------------------------------------------------------
# family 'annot'
# ---------------------------------------------------------------------------
def skeletons(max_atoms=4):
    """(sizes of consecutive residues, chain index per residue): 1..4 atoms, 1..3 residues, 1..2 chains."""
    out = []
    for n in range(1, max_atoms + 1):
        for k in range(1, min(3, n) + 1):
            for cuts in itertools.combinations(range(1, n), k - 1):
                b = (0,) + cuts + (n,)
                sizes = tuple(b[i + 1] - b[i] for i in range(k))
                for split in range(1, k + 1):  # residues [0, split) in chain 0, rest in chain 1
                    chains = tuple(0 if r < split else 1 for r in range(k))
                    out.append((sizes, chains))
    return out


SKELETONS = skeletons()

PALETTES = [
    {"chains": ["A", "B"], "res0": 1, "names": ["ALA", "GLY", "SER"], "off": 0.0, "bt": [1, 2]},
    {"chains": ["C", "D"], "res0": 7, "names": ["GLY", "SER", "ALA"], "off": 16.0, "bt": [5, 8]},
    {"chains": ["X", "A"], "res0": 100, "names": ["SER", "ALA", "GLY"], "off": -32.0, "bt": [0, 3]},
    {"chains": ["b", "a"], "res0": 2, "names": ["ALA", "SER", "GLY"], "off": 0.5, "bt": [6, 4]},
    {"chains": ["0", "1"], "res0": 998, "names": ["GLY", "ALA", "SER"], "off": 1024.0, "bt": [9, 7]},
]
POS_NAMES = [("N", "N"), ("CA", "C"), ("C", "C"), ("O", "O")]

F32_TINY = float(np.float32(1.17549435e-38))
F32_HUGE = float(np.float32(3.4e38))
COORD_VALUES = {"zero": 0.0, "negsmall": float(np.float32(-0.001)), "big": float(np.float32(123456.789)),
                "tiny": F32_TINY, "huge": F32_HUGE, "third": float(np.float32(1.0 / 3.0))}
BOXES = {
    "ortho": [[10.0, 0.0, 0.0], [0.0, 20.0, 0.0], [0.0, 0.0, 30.0]],
    "tric": [[10.5, 0.0, 0.0], [3.25, 20.25, 0.0], [-4.5, 6.75, 30.125]],
    "tric2": [[40.0, 0.0, 0.0], [-20.0, 34.5, 0.0], [0.0, 0.0, 55.5]],
}


def base_spec(skel, pal):
    sizes, chains = skel
    atoms, coord = [], []
    a = 0
    for r, size in enumerate(sizes):
        for p in range(size):
            nm, el = POS_NAMES[p]
            atoms.append([pal["chains"][chains[r]], pal["res0"] + r, "", pal["names"][r], 0, nm, el])
            coord.append([pal["off"] + 1.5 + a, pal["off"] - 2.25 - a, 0.125 * (a + 1)])
            a += 1
    return {"atoms": atoms, "coord": [coord], "stack": False, "box": None, "opt": {}, "extra": None, "bonds": None}


def ladder(skel, tier, reduced=False):
    """All single deviations [field, loc, label/value] of a skeleton."""
    sizes, chains = skel
    n, k, c = sum(sizes), len(sizes), len(set(chains))
    full = tier == "thorough"
    out = []
    if reduced:
        for ch in range(c):
            out.append(["chain", ch, "a'"])
        for r in range(k):
            out += [["res_name", r, 'X"Y'], ["res_id", r, -3], ["res_id", r, 128], ["ins", r, "A"], ["hetero", r, 1]]
        starts = [sum(sizes[:r]) for r in range(k)]
        for a in starts:
            out += [["atom_name", a, "O5'"], ["atom_name", a, 'C"1'], ["element", a, ""]]
        out += [["coord", [n - 1, (n - 1) % 3], "big"]]
        out += [["models", None, 2], ["stack", None, 1], ["box", None, "tric"], ["box", None, "permodel"],
                ["atom_id", None, "rev"], ["b_factor", None, "nan"], ["charge", None, "vals"],
                ["extra", None, "awk"], ["bonds", None, "path"]]
        return out
    for ch in range(c):
        out += [["chain", ch, v] for v in (["AB", "a'"] + (['"q', "x y"] if full else []))]
    for r in range(k):
        out += [["res_name", r, v] for v in (["LIG", 'X"Y', "A B"] + (["ABCDEFGH"] if full else []))]
        # 128 / 32768: first value beyond a signed integer type - together with a negative id elsewhere
        # the compressed BinaryCIF column needs a signed type that must still hold it
        out += [["res_id", r, v] for v in ([0, -3, 10000, 128, 32768] +
                                           ([-1, 2147483647, 127, -128, -129, 32767, -32768, -32769] if full else []))]
        out += [["ins", r, v] for v in (["A"] + (["'"] if full else []))]
        out.append(["hetero", r, 1])
    for a in range(n):
        out += [["atom_name", a, v] for v in (["O5'", 'C"1', "N 1", "_X", "O' 1"] + (["'A'", "", 'C" 1'] if full else []))]
        out += [["element", a, v] for v in ["FE", ""]]
        axes = range(3) if (full and a == 0) else [a % 3]
        for ax in axes:
            out += [["coord", [a, ax], v] for v in (["zero", "negsmall", "big", "tiny", "huge"]
                                                    + (["third"] if full else []))]
    out += [["models", None, 2], ["models", None, 3], ["stack", None, 1]]
    out += [["box", None, "ortho"], ["box", None, "tric"], ["box", None, "permodel"]]
    out += [["atom_id", None, "rev"], ["atom_id", None, "neg"]]
    out += [["b_factor", None, "vals"], ["b_factor", None, "nan"]]
    out += [["occupancy", None, "vals"], ["charge", None, "vals"], ["charge", None, "big"]]
    out += [["extra", None, "plain"], ["extra", None, "awk"], ["extra", None, "awk2"], ["bonds", None, "path"]]
    return out


def dev_class(dev):
    """field:label used in signatures (a class, not a raw value, for numbers)."""
    f, loc, v = dev
    if f in ("chain", "res_name", "atom_name", "ins", "element"):
        lab = {"": "empty", "AB": "two_chars", "a'": "prime", '"q': "leading_dquote", "x y": "space",
               "LIG": "ligand", 'X"Y': "dquote", "A B": "space", "ABCDEFGH": "long", "A": "letter", "'": "squote",
               "O5'": "prime", 'C"1': "dquote", "N 1": "space", "_X": "leading_underscore", "'A'": "squoted", "O' 1": "prime_space", 'C" 1': "dquote_space",
               "FE": "two_chars"}.get(v, "other")
    elif f == "res_id":
        lab = {0: "zero", -3: "negative", 10000: "five_digits", -1: "minus_one", 2147483647: "int32_max",
               128: "int8_max_plus_1", 32768: "int16_max_plus_1", 127: "int8_max", -128: "int8_min",
               -129: "int8_min_minus_1", 32767: "int16_max", -32768: "int16_min",
               -32769: "int16_min_minus_1"}.get(v, "other")
    else:
        lab = str(v)
    return "%s:%s" % (f, lab)


def valid_combo(devs):
    """No two deviations at the same (field, loc); dependent deviations need their enabler."""
    seen = set()
    for f, loc, v in devs:
        key = (f, json.dumps(loc))
        if key in seen:
            return False
        seen.add(key)
    fields = {d[0]: d for d in devs}
    if "box" in fields and fields["box"][2] == "permodel" and "models" not in fields:
        return False
    if "stack" in fields and "models" in fields:
        return False  # a multi-model structure is a stack anyway: would repeat a case
    return True


def apply_devs(skel, pal, devs):
    sizes, chains = skel
    spec = base_spec(skel, pal)
    atoms = spec["atoms"]
    n = len(atoms)
    res_of = [r for r, size in enumerate(sizes) for _ in range(size)]
    order = {"models": 0, "stack": 1}
    for f, loc, v in sorted(devs, key=lambda d: order.get(d[0], 5)):
        if f == "chain":
            for a in range(n):
                if chains[res_of[a]] == loc:
                    atoms[a][0] = v
        elif f in ("res_name", "res_id", "ins", "hetero"):
            col = {"res_id": 1, "ins": 2, "res_name": 3, "hetero": 4}[f]
            for a in range(n):
                if res_of[a] == loc:
                    atoms[a][col] = v
        elif f == "atom_name":
            atoms[loc][5] = v
        elif f == "element":
            atoms[loc][6] = v
        elif f == "coord":
            spec["coord"][0][loc[0]][loc[1]] = COORD_VALUES[v]
        elif f == "models":
            cyc = [0.0, COORD_VALUES["negsmall"], 1.5, COORD_VALUES["big"], COORD_VALUES["third"], -77.0625]
            for mdl in range(1, v):
                spec["coord"].append([[cyc[(mdl + a + ax) % len(cyc)] + (0.0 if (a + ax) % 2 else 8.0 * mdl)
                                       for ax in range(3)] for a in range(n)])
                spec["coord"][mdl] = [[float(np.float32(x)) for x in at] for at in spec["coord"][mdl]]
            spec["stack"] = True
        elif f == "stack":
            spec["stack"] = True
        elif f == "box":
            m = len(spec["coord"])
            if v == "permodel":
                spec["box"] = [BOXES[["tric", "ortho", "tric2"][i % 3]] for i in range(m)]
            else:
                spec["box"] = [BOXES[v]] * m
        elif f == "atom_id":
            spec["opt"]["atom_id"] = list(range(n, 0, -1)) if v == "rev" else [3 * a - 5 for a in range(n)]
        elif f == "b_factor":
            spec["opt"]["b_factor"] = ([0.0, -1.0, 999.99, 12.5][:n] if v == "vals" else (["nan"] + [1.0] * n)[:n])
        elif f == "occupancy":
            spec["opt"]["occupancy"] = [0.0, 1.0, 0.5, 0.25][:n]
        elif f == "charge":
            # 'big': two- and three-digit charges (the written text is wider than the usual '+1')
            spec["opt"]["charge"] = ([-2, 0, 2, 1] if v == "vals" else [10, -12, 100, -9])[:n]
        elif f == "extra":
            spec["extra"] = {"plain": ["x", "yy", "x", "z9"], "awk": ["a b", "'q", "", 'd"q'],
                             "awk2": ["5' end", 'd" q', "a'b c'd", 'e"f g"h']}[v][:n]
        elif f == "bonds":
            spec["bonds"] = [[a, a + 1, 1] for a in range(n - 1)] if v == "path" else []
    if not spec["stack"]:
        if spec["box"] is not None:
            spec["box"] = spec["box"][:1]
    return spec


EXTREME = ("tiny", "huge")


def is_extreme(devs):
    return sorted({d[2] for d in devs if d[0] == "coord" and d[2] in EXTREME})


# ---------------------------------------------------------------------------
# classification of bond differences (input classes for signatures)
# ---------------------------------------------------------------------------
def type_class(t):
    if t is None:
        return "none"
    if t in (2, 3, 4):
        return "ORDER2-4"
    if t in (5, 6, 7):
        return "AROMATIC_ORDERED"
    return BT_NAMES[t] if 0 <= t < len(BT_NAMES) else "type%d" % t


def polymer_kind(res_name):
    return "pep" if res_name in STD_AA else ("nuc" if res_name in STD_NUC else None)


def bond_classes(spec, exp_bonds, obs_bonds):
    """Classify every difference between the expected and the observed typed bond sets by the
    position of the bond in the *input* (intra-residue / standard polymer link / other
    inter-residue), the way it differs and the feature of the input that goes with it.  A class
    names one cause; anything that does not fit a named cause keeps its full detail.
    Returns {class_string: (pair, expected_type, observed_type)} (first witness per class)."""
    atoms = spec["atoms"]
    res = residues_of(atoms)
    rix = [None] * len(atoms)
    for r, (s, e) in enumerate(res):
        for a in range(s, e):
            rix[a] = r
    E = {(i, j): t for i, j, t in (exp_bonds or [])}
    O = {(i, j): t for i, j, t in (obs_bonds or [])}
    any_intra = any(rix[i] == rix[j] for (i, j) in E if j < len(atoms))
    out = {}
    for pair in sorted(set(E) | set(O)):
        et, ot = E.get(pair), O.get(pair)
        if et == ot:
            continue
        i, j = pair
        how = "lost" if ot is None else ("added" if et is None else "retyped")
        tc = "%s->%s" % (type_class(et), BT_NAMES[ot] if ot is not None and 0 <= ot < 10 else str(ot))
        if j >= len(atoms) or i < 0:
            cls = "out_of_range_atom"
        elif rix[i] == rix[j]:
            rn = atoms[i][3]
            n1, n2 = atoms[i][5], atoms[j][5]
            twin_types = set()  # types the same pair of atom names carries in other residues of this name
            for r, (s, e) in enumerate(res):
                if r == rix[i] or atoms[s][3] != rn:
                    continue
                idx = {atoms[a][5]: a for a in range(s, e)}
                if n1 in idx and n2 in idx:
                    twin_types.add(E.get((min(idx[n1], idx[n2]), max(idx[n1], idx[n2]))))
            ccd_t = CCD_BONDS.get(rn, {}).get((n1, n2), CCD_BONDS.get(rn, {}).get((n2, n1)))
            if how != "lost" and ot in twin_types:
                cls = "intra|%s|residue_of_the_same_name_has_this_bond" % how
            elif how == "added" and not any_intra and ccd_t == ot:
                cls = "intra|added|input_without_intra_bonds_gets_dictionary_bonds"
            else:
                cls = "intra|%s|%s" % (how, tc)
        else:
            ri, rj = rix[i], rix[j]
            ai, aj = atoms[i], atoms[j]
            ki, kj = polymer_kind(ai[3]), polymer_kind(aj[3])
            adjacent = rj == ri + 1
            # what struct_conn cannot say about a bond whatever its position: aromaticity; an unknown
            # order cannot be told from an unstated one
            inexpressible = None
            if how == "retyped":
                if et in (5, 6, 7) and ot == et - 4:
                    inexpressible = "aromaticity_not_expressible"
                elif et in (0, 9) and ot == 1:
                    inexpressible = tc
            proper = adjacent and ki is not None and ki == kj and (
                (ki == "pep" and ai[5] == "C" and aj[5] == "N") or (ki == "nuc" and ai[5] == "O3'" and aj[5] == "P"))
            if proper:
                if ai[0] != aj[0]:
                    where = "cross_chain"
                elif aj[1] - ai[1] > 1:
                    where = "res_id_gap"
                else:
                    where = "consecutive"
                if how == "lost":
                    cls = "link|lost|%s" % where
                elif how == "added" and ot == 1:
                    cls = "link|added|unbonded_in_input|%s" % where
                elif how == "retyped" and inexpressible is not None:
                    cls = "inter|retyped|%s" % inexpressible  # does not depend on the position of the bond
                elif how == "retyped" and ot == 1:
                    cls = "link|retyped|non_single->SINGLE|%s" % where
                else:
                    cls = "link|%s|%s|%s" % (how, tc, where)
            else:
                pseudo = (ki is not None and kj is not None and ai[5] in ("C", "O3'") and aj[5] in ("N", "P"))
                if how == "lost" and pseudo and adjacent:
                    cls = "inter|lost|connector_atom_names_but_no_polymer_link"
                elif how == "lost" and pseudo and rj > ri:
                    cls = "inter|lost|connector_atom_names_residues_%d_apart" % (rj - ri)
                elif inexpressible is not None:
                    cls = "inter|retyped|%s" % inexpressible
                else:
                    cls = "inter|%s|%s" % (how, tc)
        out.setdefault(cls, (list(pair), et, ot))
    return out


def expand_kinds(spec, res):
    """failure kinds of one roundtrip result; bond differences expanded into their classes.
    Returns {kind: (expected_detail, observed_detail)}."""
    if res[0] == "hang":
        return {"hang_" + res[1]: ("terminates", "no result within %.0f s" % HANG_TIMEOUT)}
    if res[0] == "raises":
        return {"%s_raises_%s" % (res[1], res[2]): ("success", "%s: %s" % (res[2], res[3]))}
    kinds = {}
    for label, diffs in res[1]:
        for field, e, o in diffs:
            if field == "bonds" and e is not None and o is not None:
                for cls, (pair, et, ot) in bond_classes(spec, e, o).items():
                    kinds.setdefault("bonds|" + cls, ({"read": label, "pair": pair, "type": et, "all": e},
                                                      {"read": label, "pair": pair, "type": ot, "all": o}))
            elif label == "file":
                kinds.setdefault(field, (e, o))
            else:
                kinds.setdefault("differs_" + field, ({"read": label, field: e}, {"read": label, field: o}))
    return kinds


def fmt_label(fmts, tried=FORMATS):
    """'all' when every format that was tried fails alike, else the failing formats."""
    fmts = [f for f in FORMATS if f in fmts]
    return "all" if len(fmts) == len(tried) and len(tried) > 1 else "+".join(fmts)


def eval_spec(spec, ctx=None, isolate_cbcif=False, skip_cbcif=False, fmts=FORMATS):
    """Round trip in every format of `fmts`. Returns {kind: {"fmts": [...], "exp":.., "obs":..}}"""
    merged = {"_fmts": {"fmts": list(fmts), "exp": None, "obs": None}}
    for fmt in fmts:
        if fmt == "cbcif" and skip_cbcif:
            continue
        res = roundtrip(spec, fmt, ctx=ctx, isolate=(fmt == "cbcif" and isolate_cbcif))
        if res[0] == "ok" and "_seen" not in merged:
            merged["_seen"] = {"fmts": [], "exp": None, "obs": res[2]}
        for kind, (e, o) in expand_kinds(spec, res).items():
            ent = merged.setdefault(kind, {"fmts": [], "exp": e, "obs": o})
            ent["fmts"].append(fmt)
    return merged


def outcome_key(merged):
    return tuple(sorted((k, tuple(v["fmts"])) for k, v in merged.items() if not k.startswith("_")))


# ---------------------------------------------------------------------------
# family 'annot': run
# ---------------------------------------------------------------------------
def annot_sets(skel, tier, extreme):
    """Deviation sets (tuples of ladder entries) of one skeleton, smallest first, no repeats.
    extreme=False: no deviation is an extreme coordinate; extreme=True: at least one is."""
    lad = ladder(skel, tier)
    norm = [d for d in lad if not (d[0] == "coord" and d[2] in EXTREME)]
    ext = [d for d in lad if d[0] == "coord" and d[2] in EXTREME]
    if not extreme:
        yield ()
        for d in norm:
            yield (d,)
        small = tier == "quick" and sum(skel[0]) == 4
        for pair in itertools.combinations(ladder(skel, tier, reduced=True) if small else norm, 2):
            if valid_combo(pair):
                yield pair
        if tier == "thorough" and sum(skel[0]) <= 3:
            red = ladder(skel, tier, reduced=True)
            for tri in itertools.combinations(red, 3):
                if valid_combo(tri):
                    yield tri
    else:
        for d in ext:
            yield (d,)
        for d in ext:
            for o in norm:
                if valid_combo((d, o)):
                    yield (d, o)
        for pair in itertools.combinations(ext, 2):
            if valid_combo(pair):
                yield pair


_RED = {}


def wants_cbcif(skel, devs):
    """compress() works column by column, so the compressed encoding is exercised on every single
    deviation and on the pairs of the reduced ladder only (it costs ten times the other two)."""
    if len(devs) <= 1:
        return True
    if len(devs) > 2:
        return False
    if skel not in _RED:
        _RED[skel] = {json.dumps(d) for d in ladder(skel, "quick", reduced=True)}
    return all(json.dumps(list(d)) in _RED[skel] or (d[0] == "coord" and d[2] in EXTREME) for d in devs)


def annot_eval(ctx, skel_i, pal_i, devs, memo, hang_memo=None):
    """Evaluate one deviation set; returns merged kinds or None if outside the precondition."""
    key = json.dumps(devs)
    if key in memo:
        return memo[key]
    spec = apply_devs(SKELETONS[skel_i], PALETTES[pal_i], devs)
    if not well_formed(spec, spec["bonds"] is not None):
        memo[key] = None
        return None
    ext = is_extreme(devs)
    skip = False
    if ext and hang_memo is not None:
        skip = hang_memo.get("+".join(ext), False)
    fmts = FORMATS if wants_cbcif(SKELETONS[skel_i], devs) else FORMATS[:2]
    merged = eval_spec(spec, ctx=ctx, isolate_cbcif=bool(ext), skip_cbcif=skip, fmts=fmts)
    if spec["bonds"] is not None and any(a[5] == "" or a[3] == "" for a in spec["atoms"]):
        # empty atom / residue name together with bonds: BadStructureError is the announced answer of
        # set_structure; the statement is silent -> that error or the exact round trip
        merged.pop("set_structure_raises_BadStructureError", None)
        merged["_unspecified"] = {"fmts": [], "exp": None, "obs": None}
    if skip:
        merged["_cbcif_skipped"] = {"fmts": [], "exp": None, "obs": None}
    if ext and hang_memo is not None and any(k.startswith("hang_") for k in merged):
        hang_memo["+".join(ext)] = True
    memo[key] = merged
    return merged


def annot_case(ctx, skel_i, pal_i, devs, memo, hang_memo=None):
    devs = [list(d) for d in devs]
    case = {"fam": "annot", "skel": skel_i, "pal": pal_i, "devs": devs}
    if not ctx.journal(json.dumps(case)):
        return
    merged = annot_eval(ctx, skel_i, pal_i, devs, memo, hang_memo)
    if merged is None:
        ctx.count("annot_outside_precondition")
        return
    if "_cbcif_skipped" in merged:
        ctx.count("cbcif_skipped_after_hang")
    ctx.ev(1, 1 if devs else 0)
    ctx.count("unspecified" if "_unspecified" in merged else "accepted")
    ctx.outcome(("annot", merged.get("_seen", {}).get("obs"), outcome_key(merged)))
    if len(ctx.samples) < 2 and len(devs) >= 2:
        ctx.sample(case)
    for kind, ent in merged.items():
        if kind.startswith("_"):
            continue
        fl = fmt_label(ent["fmts"], merged["_fmts"]["fmts"])
        if kind.startswith("bonds|"):
            ctx.violation("roundtrip|%s|%s" % (fl, kind), "read-back bond set differs from the written one (%s)" % kind,
                          case, ent["exp"], ent["obs"])
            continue
        # report only where no proper sub-set of the deviations shows the same failure
        subsumed = False
        for r in range(len(devs)):
            for sub in itertools.combinations(devs, r):
                if not valid_combo(sub):
                    continue
                sm = annot_eval(ctx, skel_i, pal_i, [list(d) for d in sub], memo, hang_memo)
                if sm is not None and kind in sm:
                    subsumed = True
                    break
            if subsumed:
                break
        if subsumed:
            ctx.count("failing_case_subsumed_by_smaller_one")
            continue
        # 'models' / 'stack' only change the shape (column lengths); they are named only when alone
        vd = [d for d in devs if d[0] not in ("models", "stack")] or devs
        cls = "+".join(sorted({dev_class(d) for d in vd})) or "plain"
        ctx.violation("roundtrip|%s|%s|%s" % (fl, kind, cls),
                      "write/read cycle does not return the structure (%s) for deviations %s" % (kind, cls),
                      case, ent["exp"], ent["obs"])


def run_annot(shard, ctx):
    skel_i, pal_i = shard["skel"], shard["pal"]
    memo, hang_memo = {}, {}
    for idx, devs in enumerate(annot_sets(SKELETONS[skel_i], ctx.tier, shard["extreme"])):
        if idx % shard["parts"] != shard["part"]:
            continue
        annot_case(ctx, skel_i, pal_i, devs, memo, hang_memo)
        if len(memo) > 20000:
            memo.clear()


# ---------------------------------------------------------------------------
# family 'bonds'
# ---------------------------------------------------------------------------
# template: list of residues (chain, res_id, ins, res_name, hetero, [(atom_name, element), ...])
TEMPLATES = {
    "pep3+1": [("A", 1, "", "ALA", 0, [("N", "N"), ("CA", "C"), ("C", "C")]), ("A", 2, "", "GLY", 0, [("N", "N")])],
    "twin_ala": [("A", 1, "", "ALA", 0, [("CA", "C"), ("C", "C")]), ("A", 2, "", "ALA", 0, [("N", "N"), ("CA", "C")])],
    "twin_lig": [("A", 1, "", "LIG", 1, [("C1", "C"), ("C2", "C")]), ("B", 1, "", "LIG", 1, [("C1", "C"), ("C2", "C")])],
    "xchain": [("A", 1, "", "ALA", 0, [("CA", "C"), ("C", "C")]), ("B", 2, "", "GLY", 0, [("N", "N"), ("CA", "C")])],
    "gap": [("A", 1, "", "ALA", 0, [("CA", "C"), ("C", "C")]), ("A", 5, "", "GLY", 0, [("N", "N"), ("CA", "C")])],
    "nuc": [("A", 1, "", "A", 0, [("C5'", "C"), ("O3'", "O")]), ("A", 2, "", "DA", 0, [("P", "P"), ("O5'", "O")])],
    "mixed": [("A", 1, "", "ALA", 0, [("CA", "C"), ("C", "C")]), ("A", 2, "", "A", 0, [("P", "P"), ("O5'", "O")])],
    "unk+ion": [("A", 1, "", 'X"Y', 1, [('C"1', "C"), ("O5'", "O"), ("N 1", "N")]), ("A", 2, "", "NA", 1, [("NA", "NA")])],
    "lig4": [("A", 1, "", "LIG", 1, [("C1", "C"), ("C2", "C"), ("C3", "C"), ("N1", "N")])],
    "ins": [("A", 1, "", "ALA", 0, [("CA", "C"), ("C", "C")]), ("A", 1, "A", "GLY", 0, [("N", "N"), ("CA", "C")])],
    "desc": [("A", 5, "", "ALA", 0, [("CA", "C"), ("C", "C")]), ("A", 4, "", "GLY", 0, [("N", "N"), ("CA", "C")])],
    "wat": [("A", 1, "", "GLY", 0, [("N", "N"), ("CA", "C")]), ("A", 2, "", "HOH", 1, [("O", "O"), ("H1", "H")])],
    "three": [("A", 1, "", "ALA", 0, [("C", "C")]), ("A", 2, "", "GLY", 0, [("N", "N"), ("C", "C")]),
              ("A", 3, "", "SER", 0, [("N", "N")])],
    "hetero_seq": [("A", 1, "", "ALA", 0, [("CA", "C"), ("C", "C")]), ("A", 1, "", "GLY", 0, [("N", "N"), ("CA", "C")])],
    "ala4": [("A", -2, "", "ALA", 0, [("N", "N"), ("CA", "C"), ("C", "C"), ("O", "O")])],
    "four": [("A", 1, "", "ALA", 0, [("C", "C")]), ("A", 2, "", "GLY", 0, [("N", "N")]),
             ("A", 3, "", "ALA", 0, [("C", "C")]), ("A", 4, "", "GLY", 0, [("N", "N")])],
    "ins_twin": [("A", 1, "", "LIG", 1, [("C1", "C"), ("C2", "C")]), ("A", 1, "A", "LIG", 1, [("C1", "C"), ("C2", "C")])],
    "negid": [("a'", -3, "", "SER", 0, [("CB", "C"), ("OG", "O")]), ("a'", 0, "A", "A B", 1, [("_X", "X"), ("C", "C")])],
    # names whose concatenations collide (seed C04-g: string keys without separator): LIG|1|12 = LIG|11|2, and the
    # boundary between residue name and atom name shifted: LI|G1|2 = LIG|1|2
    "numnames": [("A", 1, "", "LIG", 1, [("1", "C"), ("12", "C"), ("11", "C"), ("2", "C")])],
    "shiftnames": [("A", 1, "", "LI", 1, [("G1", "C"), ("2", "C")]), ("A", 2, "", "LIG", 1, [("1", "C"), ("2", "C")])],
}


def template_spec(name, edges, stack=False, models=1):
    atoms, coord = [], []
    for ch, rid, ins, rn, het, ats in TEMPLATES[name]:
        for an, el in ats:
            a = len(atoms)
            atoms.append([ch, rid, ins, rn, het, an, el])
            coord.append([1.5 * a, -0.25 * a, 3.0 + a])
    cs = [coord] + [[[x + 16.0 * k for x in at] for at in coord] for k in range(1, models)]
    return {"atoms": atoms, "coord": cs, "stack": stack or models > 1, "box": None, "opt": {}, "extra": None,
            "bonds": [list(e) for e in edges]}


def template_pairs(name):
    n = sum(len(r[5]) for r in TEMPLATES[name])
    return list(itertools.combinations(range(n), 2))


def bonds_case(ctx, case):
    """case = {"fam": "bonds", "tpl": name, "edges": [[i, j, t], ...], "stack": 0/1, "models": m}"""
    if not ctx.journal(json.dumps(case)):
        return
    spec = template_spec(case["tpl"], case["edges"], bool(case.get("stack")), case.get("models", 1))
    fmts = FORMATS if case.get("cbcif") else FORMATS[:2]
    merged = eval_spec(spec, fmts=fmts)
    ctx.ev(1, 1 if case["edges"] else 0)
    ctx.count("accepted")
    ctx.outcome(("bonds", merged.get("_seen", {}).get("obs"), outcome_key(merged)))
    if len(ctx.samples) < 2 and len(case["edges"]) >= 3:
        ctx.sample(case)
    for kind, ent in merged.items():
        if kind.startswith("_"):
            continue
        fl = fmt_label(ent["fmts"], fmts)
        if kind.startswith("bonds|"):
            ctx.violation("roundtrip|%s|%s" % (fl, kind), "read-back bond set differs from the written one (%s)" % kind,
                          case, ent["exp"], ent["obs"])
            continue
        # an exception / other difference: report on the smallest edge sub-set that still shows it
        edges = [list(e) for e in case["edges"]]
        changed = True
        while changed and len(edges) > 0:
            changed = False
            for k in range(len(edges)):
                sub = edges[:k] + edges[k + 1:]
                sm = eval_spec(template_spec(case["tpl"], sub, bool(case.get("stack")), case.get("models", 1)),
                               fmts=ent["fmts"][:1])
                if kind in sm:
                    edges, changed = sub, True
                    break
        if len(edges) < len(case["edges"]):
            ctx.count("failing_case_subsumed_by_smaller_one")
            continue
        cls = "+".join(sorted({edge_class(spec, e) for e in edges})) or "no_bond"
        ctx.violation("roundtrip|%s|%s|%s" % (fl, kind, cls),
                      "write/read cycle fails (%s) for a bond list with %s" % (kind, cls), case, ent["exp"], ent["obs"])


def edge_class(spec, e):
    atoms = spec["atoms"]
    res = residues_of(atoms)
    rix = {}
    for r, (s, t) in enumerate(res):
        for a in range(s, t):
            rix[a] = r
    i, j, t = e
    where = "intra" if rix[i] == rix[j] else "inter"
    return "%s:%s" % (where, BT_NAMES[t])


def run_bonds(shard, ctx):
    name = shard["tpl"]
    pairs = template_pairs(name)
    mode = shard["mode"]
    if mode == "graphs":
        t1, t2 = shard["types"]
        idx = 0
        for assign in itertools.product((None, t1, t2), repeat=len(pairs)):
            idx += 1
            if idx % shard["parts"] != shard["part"]:
                continue
            edges = [[p[0], p[1], t] for p, t in zip(pairs, assign) if t is not None]
            bonds_case(ctx, {"fam": "bonds", "tpl": name, "edges": edges, "stack": 0, "models": 1})
    elif mode == "single":
        for p in pairs:
            for t in range(10):
                for stack, models in ((0, 1), (1, 1), (1, 2)):
                    if (stack, models) == (0, 1) and any(t in pt for pt in shard.get("skip", [])):
                        continue  # already one of the 'graphs' cases of this run
                    bonds_case(ctx, {"fam": "bonds", "tpl": name, "edges": [[p[0], p[1], t]], "stack": stack,
                                     "models": models, "cbcif": 1})
    elif mode == "double":
        idx = 0
        for p, q in itertools.combinations(pairs, 2):
            for t in range(10):
                for u in range(10):
                    idx += 1
                    if idx % shard["parts"] != shard["part"]:
                        continue
                    if any(t in pt and u in pt for pt in shard.get("skip", [])):
                        continue  # already one of the 'graphs' cases of this run
                    bonds_case(ctx, {"fam": "bonds", "tpl": name, "edges": [[p[0], p[1], t], [q[0], q[1], u]],
                                     "stack": 0, "models": 1})


# ---------------------------------------------------------------------------
# family 'table': files written by an independent model writer
# ---------------------------------------------------------------------------
import re  # noqa: E402

SIMPLE_TOKEN = re.compile(r"[A-Za-z0-9+\-.?][A-Za-z0-9+\-.'*_]*\Z")
INT_COLS = {"id", "label_seq_id", "auth_seq_id", "pdbx_PDB_model_num", "label_entity_id", "pdbx_ordinal",
            "pdbx_formal_charge"}
FLOAT_COLS = {"Cartn_x", "Cartn_y", "Cartn_z", "occupancy", "B_iso_or_equiv", "length_a", "length_b", "length_c",
              "angle_alpha", "angle_beta", "angle_gamma"}


def table_text(cats):
    """cats: [(category, {column: [token, ...]})] -> CIF text (loops of bare tokens only)."""
    lines = ["data_MODEL"]
    for name, cols in cats:
        lines.append("#")
        lines.append("loop_")
        for c in cols:
            lines.append("_%s.%s" % (name, c))
        for row in zip(*cols.values()):
            for tok in row:
                if not SIMPLE_TOKEN.match(tok) or tok.lower() in ("loop_", "stop_", "global_") or tok.lower().startswith(
                        ("data_", "save_")):
                    raise ValueError("model writer: token %r needs quoting" % tok)
            lines.append(" ".join(row))
    lines.append("#")
    return "\n".join(lines) + "\n"


def table_bcif(cats):
    """The same table as BinaryCIF bytes: typed columns with masks for '.' and '?'."""
    from biotite.structure.io.pdbx import BinaryCIFBlock, BinaryCIFCategory, BinaryCIFColumn, BinaryCIFFile

    block = BinaryCIFBlock()
    for name, cols in cats:
        cat = BinaryCIFCategory()
        for c, toks in cols.items():
            mask = np.array([1 if t == "." else (2 if t == "?" else 0) for t in toks], dtype=np.uint8)
            if c in INT_COLS:
                data = np.array([0 if k else int(t) for t, k in zip(toks, mask)], dtype=np.int32)
            elif c in FLOAT_COLS:
                data = np.array([0.0 if k else float(t) for t, k in zip(toks, mask)],
                                dtype=np.float32 if c.startswith("Cartn") else np.float64)
            else:
                data = np.array(["" if k else t for t, k in zip(toks, mask)], dtype=str)
            cat[c] = BinaryCIFColumn(data, mask if mask.any() else None)
        block[name] = cat
    f = BinaryCIFFile()
    f["MODEL"] = block
    s = io.BytesIO()
    f.write(s)
    return s.getvalue()


def ftok(x):
    """Decimal token of a float32-representable number."""
    return repr(float(x))


def table_read(cats, fmt):
    if fmt == "cif":
        return read_file(table_text(cats), "cif")
    f = read_file(table_bcif(cats), "bcif")
    if fmt == "cbcif":
        from biotite.structure.io.pdbx import compress

        s = io.BytesIO()
        compress(f).write(s)
        f = read_file(s.getvalue(), "bcif")
    return f


# rows of an atom_site table: dicts (group, elem, name, alt, comp, asym, seq, ins, x, y, z, occ, b, charge,
# a_seq, a_comp, a_asym, a_name, model, id)
def atom_site_cols(rows, drop=()):
    cols = {
        "group_PDB": [r["group"] for r in rows], "id": [str(r["id"]) for r in rows],
        "type_symbol": [r["elem"] for r in rows], "label_atom_id": [r["name"] for r in rows],
        "label_alt_id": [r["alt"] for r in rows], "label_comp_id": [r["comp"] for r in rows],
        "label_asym_id": [r["asym"] for r in rows], "label_entity_id": ["1" for r in rows],
        "label_seq_id": [str(r["seq"]) for r in rows], "pdbx_PDB_ins_code": [r["ins"] or "?" for r in rows],
        "Cartn_x": [ftok(r["x"]) for r in rows], "Cartn_y": [ftok(r["y"]) for r in rows],
        "Cartn_z": [ftok(r["z"]) for r in rows], "occupancy": [r["occ"] if isinstance(r["occ"], str) else ftok(r["occ"]) for r in rows],
        "B_iso_or_equiv": [ftok(r["b"]) for r in rows],
        "pdbx_formal_charge": [str(r["charge"]) if r["charge"] else "?" for r in rows],
        "auth_seq_id": [str(r["a_seq"]) for r in rows], "auth_comp_id": [r["a_comp"] for r in rows],
        "auth_asym_id": [r["a_asym"] for r in rows], "auth_atom_id": [r["a_name"] for r in rows],
        "pdbx_PDB_model_num": [str(r["model"]) for r in rows],
    }
    for d in drop:
        del cols[d]
    return cols


def model_get_structure(rows, present, model, altloc, use_author, extra_fields, bonds=None):
    """Reference reader for an atom_site table, from the get_structure documentation.
    rows: all rows; present: set of optional columns present ('label_alt_id', 'occupancy').
    bonds: None or a function(kept_rows) -> [[i, j, t]] giving the expected bonds on kept rows.
    Returns ('value', observation, admissible_alternatives) / ('refuse',) / ('either', observation)."""
    nums = []
    for r in rows:
        if r["model"] not in nums:
            nums.append(r["model"])
    m = len(nums)
    if model is not None:
        if model == 0 or model > m or model < -m:
            return ("refuse",)
        k = model - 1 if model > 0 else m + model
        sel = [[r for r in rows if r["model"] == nums[k]]]
    else:
        sel = [[r for r in rows if r["model"] == nums[k]] for k in range(m)]
    first = sel[0]
    idk = ("a_asym", "a_seq", "ins", "a_comp") if use_author else ("asym", "seq", "ins", "comp")

    def seqnum(v):
        return -1 if v in (".", "?") else int(v)

    keys = [(r[idk[0]], seqnum(r[idk[1]]), r[idk[2]], r[idk[3]]) for r in first]
    spans = []
    s = 0
    for i in range(1, len(first) + 1):
        if i == len(first) or keys[i] != keys[i - 1]:
            spans.append((s, i))
            s = i
    has_alt = "label_alt_id" in present
    alts = [r["alt"] if has_alt else "." for r in first]
    status = "value"
    keep_options = [None]
    if not has_alt:
        keep_options = [[True] * len(first)]
    elif altloc == "all":
        keep_options = [[True] * len(first)]
    elif altloc == "first" or (altloc == "occupancy" and "occupancy" not in present):
        if altloc == "occupancy" and any(a not in (".", "?") for a in alts):
            status = "either"  # alt ids but no occupancy in the file: the statement is silent
        keep = [a in (".", "?") for a in alts]
        for s, e in spans:
            letters = [alts[i] for i in range(s, e) if alts[i] not in (".", "?")]
            if letters:
                for i in range(s, e):
                    if alts[i] == letters[0]:
                        keep[i] = True
        keep_options = [keep]
    elif altloc == "occupancy":
        per_res = []
        for s, e in spans:
            sums = {}
            masked = False
            for i in range(s, e):
                if alts[i] not in (".", "?"):
                    if isinstance(first[i]["occ"], str):
                        masked = True  # '?' / '.': occupancy unknown
                        sums.setdefault(alts[i], 0.0)
                    else:
                        sums[alts[i]] = sums.get(alts[i], 0.0) + first[i]["occ"]
            if sums and masked:
                per_res.append(list(sums))  # any one ID, but one
            elif sums:
                best = max(sums.values())
                per_res.append([a for a in sums if sums[a] == best])  # ties: any of them (unspecified)
            else:
                per_res.append([None])
        keep_options = []
        for choice in itertools.product(*per_res):
            keep = [a in (".", "?") for a in alts]
            for (s, e), c in zip(spans, choice):
                for i in range(s, e):
                    if c is not None and alts[i] == c:
                        keep[i] = True
            keep_options.append(keep)
    else:
        return ("refuse",)
    outs = []
    for keep in keep_options:
        idx = [i for i, k in enumerate(keep) if k]
        o = {"kind": "stack" if model is None else "array", "depth": len(sel), "n": len(idx)}
        kept = [first[i] for i in idx]
        ann = {
            "chain_id": [r[idk[0]] for r in kept], "res_id": [seqnum(r[idk[1]]) for r in kept],
            "ins_code": [r["ins"] for r in kept], "res_name": [r[idk[3]] for r in kept],
            "hetero": [r["group"] == "HETATM" for r in kept],
            "atom_name": [r["a_name" if use_author else "name"] for r in kept], "element": [r["elem"] for r in kept],
        }
        for f in extra_fields:
            if f == "atom_id":
                ann[f] = [r["id"] for r in kept]
            elif f == "b_factor":
                ann[f] = [r["b"] for r in kept]
            elif f == "occupancy":
                ann[f] = [r["occ"] for r in kept] if "occupancy" in present else [1.0] * len(kept)
            elif f == "charge":
                ann[f] = [r["charge"] for r in kept]
            else:
                ann[f] = [str(r[f]) for r in kept]
        if altloc == "all" and has_alt:
            ann["altloc_id"] = [r["alt"] for r in kept]
        o["annot"] = ann
        o["coord"] = [[[sel[k][i]["x"], sel[k][i]["y"], sel[k][i]["z"]] for i in idx] for k in range(len(sel))]
        o["bonds"] = None
        if bonds is not None:
            d = {}
            for i, j, t in bonds(kept):
                d.setdefault((min(i, j), max(i, j)), t)
            o["bonds"] = sorted([i, j, t] for (i, j), t in d.items())
        o["box"] = None
        outs.append(o)
    return (status, outs)


INTRA_SPELL = [("SING", "N", 1), ("DOUB", "N", 2), ("TRIP", "N", 3), ("QUAD", "N", 4), ("SING", "Y", 5),
               ("DOUB", "Y", 6), ("TRIP", "Y", 7), ("AROM", "Y", 9), ("sing", "N", 1), ("doub", "N", 2),
               ("trip", "N", 3), ("arom", "Y", 9), ("?", "?", 0)]
# (conn_type_id, pdbx_value_order, expected bond type or None when the row is no covalent bond)
INTER_SPELL = [("covale", "?", 1), ("covale", "sing", 1), ("covale", "doub", 2), ("covale", "trip", 3),
               ("covale", "quad", 4), ("disulf", "?", 1), ("metalc", "?", 8), ("covale_base", "?", 1),
               ("covale_sugar", "sing", 1), ("covale_phosphate", "?", 1), ("hydrog", "?", None),
               ("saltbr", "?", None), ("mismat", "?", None)]


def table_cats(tb, drop=()):
    """tb = {"rows": [...], "ccb": None | [(comp, a1, a2, order, arom)], "conn": [ {type, order, p1, p2} ],
    "cell": None | [6 numbers]} -> category list for the writers.  p1/p2 are row indices."""
    rows = tb["rows"]
    cats = []
    if tb.get("conn"):
        cols = {k: [] for k in ["id", "conn_type_id", "pdbx_value_order"]}
        for p in (1, 2):
            for k in ("ptnr%d_label_asym_id", "ptnr%d_label_comp_id", "ptnr%d_label_seq_id", "ptnr%d_label_atom_id",
                      "pdbx_ptnr%d_label_alt_id", "pdbx_ptnr%d_PDB_ins_code", "ptnr%d_auth_asym_id",
                      "ptnr%d_auth_comp_id", "ptnr%d_auth_seq_id"):
                cols[k % p] = []
        for n, c in enumerate(tb["conn"]):
            cols["id"].append(str(n + 1))
            cols["conn_type_id"].append(c["type"])
            cols["pdbx_value_order"].append(c["order"])
            for p, key in ((1, "p1"), (2, "p2")):
                r = c[key] if isinstance(c[key], dict) else rows[c[key]]
                cols["ptnr%d_label_asym_id" % p].append(r["asym"])
                cols["ptnr%d_label_comp_id" % p].append(r["comp"])
                cols["ptnr%d_label_seq_id" % p].append(str(r["seq"]))
                cols["ptnr%d_label_atom_id" % p].append(r["name"])
                cols["pdbx_ptnr%d_label_alt_id" % p].append(r["alt"] if r["alt"] != "." else "?")
                cols["pdbx_ptnr%d_PDB_ins_code" % p].append(r["ins"] or "?")
                cols["ptnr%d_auth_asym_id" % p].append(r["a_asym"])
                cols["ptnr%d_auth_comp_id" % p].append(r["a_comp"])
                cols["ptnr%d_auth_seq_id" % p].append(str(r["a_seq"]))
        cats.append(("struct_conn", cols))
    if tb.get("ccb"):
        cats.append(("chem_comp_bond", {
            "comp_id": [b[0] for b in tb["ccb"]], "atom_id_1": [b[1] for b in tb["ccb"]],
            "atom_id_2": [b[2] for b in tb["ccb"]], "value_order": [b[3] for b in tb["ccb"]],
            "pdbx_aromatic_flag": [b[4] for b in tb["ccb"]], "pdbx_stereo_config": ["N" for b in tb["ccb"]],
            "pdbx_ordinal": [str(k + 1) for k in range(len(tb["ccb"]))]}))
    cats.append(("atom_site", atom_site_cols(rows, drop)))
    if tb.get("cell"):
        c = tb["cell"]
        cats.append(("cell", {k: [ftok(v)] for k, v in zip(
            ["length_a", "length_b", "length_c", "angle_alpha", "angle_beta", "angle_gamma"], c)}))
    return cats


def model_bonds_fn(tb, use_author):
    """Expected bonds of get_structure(include_bonds=True) on the kept rows, from the documentation:
    intra-residue bonds from chem_comp_bond if present, else from the component dictionary; links
    between consecutive polymer residues (C-N, O3'-P); covalent struct_conn rows."""
    idk = ("a_asym", "a_seq", "ins", "a_comp") if use_author else ("asym", "seq", "ins", "comp")
    nk = "a_name" if use_author else "name"
    if tb.get("ccb"):
        table = {}
        for comp, a1, a2, order, arom in tb["ccb"]:
            t = [s[2] for s in INTRA_SPELL if s[0] == order and s[1] == arom][0]
            table.setdefault(comp, {})[(a1, a2)] = t
    else:
        table = CCD_BONDS
    rows = tb["rows"]

    nper = len([r for r in rows if r["model"] == rows[0]["model"]])

    def fn(kept):
        pos = {(r["id"] - 1) % nper: i for i, r in enumerate(kept)}
        keys = [(r[idk[0]], int(r[idk[1]]) if r[idk[1]] not in (".", "?") else -1, r[idk[2]], r[idk[3]]) for r in kept]
        spans = []
        s = 0
        for i in range(1, len(kept) + 1):
            if i == len(kept) or keys[i] != keys[i - 1]:
                spans.append((s, i))
                s = i
        out = []
        for s, e in spans:
            comp = keys[s][3]
            for (a1, a2), t in table.get(comp, {}).items():
                for i in range(s, e):
                    for j in range(s, e):
                        if kept[i][nk] == a1 and kept[j][nk] == a2:
                            out.append([i, j, t])
        for (s, e), (s2, e2) in zip(spans, spans[1:]):
            k1, k2 = CCD_LINK.get(keys[s][3]), CCD_LINK.get(keys[s2][3])
            if k1 is None or k1 != k2 or keys[s][0] != keys[s2][0] or keys[s2][1] - keys[s][1] != 1:
                continue
            n1, n2 = ("C", "N") if k1 == "pep" else ("O3'", "P")
            c1 = [i for i in range(s, e) if kept[i][nk] == n1]
            c2 = [i for i in range(s2, e2) if kept[i][nk] == n2]
            if c1 and c2:
                out.append([c1[0], c2[0], 1])
        for c in tb.get("conn") or []:
            t = [s[2] for s in INTER_SPELL if s[0] == c["type"] and s[1] == c["order"]][0]
            if t is None:
                continue
            if not isinstance(c["p1"], dict) and not isinstance(c["p2"], dict) and c["p1"] in pos and c["p2"] in pos:
                out.append([pos[c["p1"]], pos[c["p2"]], t])
        return out

    return fn


def table_one(f, fmt, tb, present, rd):
    """One get_structure call on a model-written table against the reference reader.
    Returns (class, {kind: (expected, observed)}, outcome)."""
    from biotite.structure.io import pdbx

    model = model_get_structure(tb["rows"], present, rd["model"], rd["altloc"], rd["author"], rd["extra"],
                                model_bonds_fn(tb, rd["author"]) if rd["bonds"] else None)
    if model[0] != "refuse" and tb.get("cell"):
        for o in model[1]:
            o["box"] = [cell_to_box(tb["cell"])] * o["depth"]
    try:
        r = pdbx.get_structure(f, model=rd["model"], altloc=rd["altloc"], use_author_fields=rd["author"],
                               extra_fields=list(rd["extra"]), include_bonds=rd["bonds"])
        got = ("value", observe(r))
    except Exception as e:  # noqa: BLE001
        got = ("raised", type(e).__name__, str(e)[:200])
    if model[0] == "refuse":
        if got[0] == "value" and got[1]["n"] > 0:
            return "refused", {"nonexistent_model_returns_atoms": ("error or no atoms", {"atoms": got[1]["n"]})}, None
        return "refused", {}, ("refuse", got[0])
    cls = "unspecified" if model[0] == "either" else "accepted"
    if got[0] == "raised":
        if model[0] == "either":
            return cls, {}, ("either", "raised")
        return cls, {"get_structure_raises_" + got[1]: ("value", got[2])}, None
    best = None
    for exp in model[1]:
        d = compare(exp, got[1], fmt)
        if not d:
            return cls, {}, (json.dumps(got[1]["annot"].get("atom_name")), got[1]["n"], json.dumps(got[1]["bonds"]))
        if best is None or len(d) < len(best[0]):
            best = (d, exp)
    d, exp = best
    kinds = {}
    for field, e, o in d[:2]:
        if field == "bonds" and e is not None and o is not None:
            spec_like = {"atoms": [[a, b, c_, dd, 0, n_, ""] for a, b, c_, dd, n_ in zip(
                exp["annot"]["chain_id"], exp["annot"]["res_id"], exp["annot"]["ins_code"],
                exp["annot"]["res_name"], exp["annot"]["atom_name"])]}
            for bc, (pair, et, ot) in bond_classes(spec_like, e, o).items():
                kinds["bonds|" + bc] = ({"pair": pair, "type": et, "all": e}, {"pair": pair, "type": ot, "all": o})
        else:
            kinds["differs_" + field] = (e, o)
    return cls, kinds, None


TABLE_DEFAULT = {"model": None, "altloc": "first", "author": True, "bonds": False, "extra": []}


def run_reads(ctx, fam, case, tb, drop, reads, sig_class):
    """Read the table in both encodings with every option set of `reads` and compare with the
    reference reader.  reads: list of dicts(model, altloc, author, extra, bonds).  A failing option
    set is attributed to the options whose reset to the default cures it."""
    present = {"label_alt_id", "occupancy"} - set(drop)
    cats = table_cats(tb, drop)
    nmodels = len({r["model"] for r in tb["rows"]})
    found = {}
    with warnings.catch_warnings():
        warnings.simplefilter("ignore")
        for fmt in ("cif", "bcif"):
            try:
                f = table_read(cats, fmt)
            except Exception as e:  # noqa: BLE001
                ent = found.setdefault(("read_raises_" + type(e).__name__, "-"), {"fmts": set(), "rd": None,
                                                                                "e": "parsed", "o": str(e)[:200]})
                ent["fmts"].add(fmt)
                continue
            for rd in reads:
                cls, kinds, outcome = table_one(f, fmt, tb, present, rd)
                ctx.ev(1, 1)
                ctx.count(cls)
                if outcome is not None:
                    ctx.outcome((fam, outcome))
                for kind, (e, o) in kinds.items():
                    if kind.startswith("bonds|"):
                        rc = "-"
                    else:
                        ess = []
                        for key in TABLE_DEFAULT:
                            if rd[key] == TABLE_DEFAULT[key]:
                                continue
                            rd2 = dict(rd)
                            rd2[key] = TABLE_DEFAULT[key]
                            if kind not in table_one(f, fmt, tb, present, rd2)[1]:
                                ess.append(key)
                        if not ess:
                            ess = [k for k in TABLE_DEFAULT if rd[k] != TABLE_DEFAULT[k]]
                        rc = ",".join(ropt_class(rd, k, nmodels, list(OPT_FIELDS)) for k in ess) or "defaults"
                    ent = found.setdefault((kind, rc), {"fmts": set(), "rd": rd, "e": e, "o": o})
                    ent["fmts"].add(fmt)
    for (kind, rc), ent in found.items():
        fl = "all" if len(ent["fmts"]) == 2 else sorted(ent["fmts"])[0]
        if kind.startswith("bonds|"):
            ctx.violation("%s|%s|%s" % (fam, fl, kind), "get_structure on a model-written table: %s" % kind,
                          {**case, "read": ent["rd"]}, ent["e"], ent["o"])
        else:
            ctx.violation("%s|%s|%s|%s|%s" % (fam, fl, kind, rc, sig_class),
                          "get_structure on a model-written table: %s (%s; %s)" % (kind, rc, sig_class),
                          {**case, "read": ent["rd"]}, ent["e"], ent["o"])


def cell_to_box(c):
    a, b, cc, al, be, ga = [float(x) for x in c]
    al, be, ga = math.radians(al), math.radians(be), math.radians(ga)
    bx = b * math.cos(ga)
    by = b * math.sin(ga)
    cx = cc * math.cos(be)
    cy = cc * (math.cos(al) - math.cos(be) * math.cos(ga)) / math.sin(ga)
    cz = math.sqrt(max(0.0, cc * cc - cx * cx - cy * cy))
    return [[a, 0.0, 0.0], [bx, by, 0.0], [cx, cy, cz]]


# ---- 'sel': alternate locations, models, author/label fields ---------------------------------
OCC_VALUES = [0.25, 0.5, 0.75]


def sel_table(case):
    names = [("N", "N"), ("CA", "C"), ("CB", "C")] if case["names"] == 0 else [("CA", "C"), ("CB", "C"), ("CB", "C")]
    rows = []

    def add(comp, seq, name, elem, alt, occ, group="ATOM"):
        k = len(rows)
        rows.append({"group": group, "elem": elem, "name": name, "alt": alt, "comp": comp, "asym": "A", "seq": seq,
                     "ins": "", "x": 1.5 + k, "y": -2.25 * k, "z": 0.125 * k, "occ": occ, "b": 10.0 + k,
                     "charge": [0, 1, -1][k % 3], "a_seq": seq + 100, "a_comp": comp, "a_asym": "P",
                     "a_name": name if name != "N" else "NT", "model": 1, "id": k + 1})

    for (nm, el), alt, oc in zip(names, case["alts"], case["occ"]):
        add("ALA", 1, nm, el, alt, OCC_VALUES[oc])
    add("ALA", 1, "C", "C", ".", 1.0)
    r2 = case["r2"]
    if r2 is not None:
        for k, alt in enumerate(r2):
            add("GLY", 2, "N", "N", alt, [0.5, 0.25][k])
    if case["variant"] == "q_alt":
        for r in rows:
            if r["alt"] == ".":
                r["alt"] = "?"
    conn = []
    if r2 is not None:
        conn.append({"type": "covale", "order": "?", "p1": 0, "p2": 4})
    n = len(rows)
    for mdl in range(2, case["models"] + 1):
        for k in range(n):
            r = dict(rows[k])
            r.update(model=mdl, id=len(rows) + 1, x=r["x"] + 8.0, y=r["y"] - 16.0)
            rows.append(r)
    drop = {"no_occ": ("occupancy",), "no_alt": ("label_alt_id",)}.get(case["variant"], ())
    return {"rows": rows, "ccb": None, "conn": conn, "cell": None}, drop


def sel_class(case):
    letters = {a for a in list(case["alts"]) + list(case["r2"] or "") if a != "."}
    return "variant=%s,alt_ids=%s" % (case["variant"], ["none", "one_letter", "two_letters"][len(letters)])


def sel_case(ctx, case):
    if not ctx.journal(json.dumps(case)):
        return
    tb, drop = sel_table(case)
    reads = []
    models = [None, 1] + ([2, -1] if case["models"] == 2 else [])
    for altloc in ("first", "occupancy", "all"):
        for author in (True, False):
            for model in models:
                extra = ["atom_id", "b_factor", "occupancy", "charge"] if author and model is None else []
                if "occupancy" in drop:
                    extra = [x for x in extra if x != "occupancy"]
                reads.append({"model": model, "altloc": altloc, "author": author, "extra": extra, "bonds": False})
                ambiguous = case["variant"] == "no_alt" and case["r2"] is not None and len(case["r2"]) == 2
                if altloc != "all" and (model is None or model == 1) and not ambiguous:
                    reads.append({"model": model, "altloc": altloc, "author": author, "extra": [], "bonds": True})
    if len(ctx.samples) < 1:
        ctx.sample(case)
    run_reads(ctx, "sel", case, tb, drop, reads, sel_class(case))


def sel_cases(tier):
    alts3 = list(itertools.product(".AB", repeat=3))
    occ3 = list(itertools.product(range(3), repeat=3))
    fixed_occ = (1, 0, 2)
    for alts in alts3:
        for occ in occ3:
            yield {"fam": "sel", "names": 0, "alts": list(alts), "occ": list(occ), "r2": None, "models": 1, "variant": "full"}
    for alts in alts3:
        for names in (0, 1):
            for r2 in (None, ".", "A", "B", "AB", "BA"):
                for models in (1, 2):
                    for variant in ("full", "no_occ", "no_alt", "q_alt"):
                        if (names, r2, models, variant) == (0, None, 1, "full"):
                            continue
                        if variant != "full" and (models == 2 or (names == 1 and tier == "quick")):
                            continue
                        yield {"fam": "sel", "names": names, "alts": list(alts), "occ": list(fixed_occ), "r2": r2,
                               "models": models, "variant": variant}


# ---- 'occ': boundary values of the quantity the 'occupancy' policy compares ------------------------
OCC_PALETTE = [0.0, 0.3, 0.5, 1.0, "?", "."]


def occ_table(case):
    """Residue 0 without alt ids; residue 1 with ids A (two atoms: sums) and B; residue 2 with ids
    C, A, B in that file order (first id not alphabetically first).  case["vary"] names the residue whose
    three occupancies take case["occ"]; the other one keeps fixed distinct values."""
    rows = []

    def add(comp, seq, name, elem, alt, occ):
        k = len(rows)
        rows.append({"group": "ATOM", "elem": elem, "name": name, "alt": alt, "comp": comp, "asym": "A", "seq": seq,
                     "ins": "", "x": 1.5 + k, "y": -2.25 * k, "z": 0.125 * k, "occ": occ, "b": 10.0 + k, "charge": 0,
                     "a_seq": seq + 100, "a_comp": comp, "a_asym": "P", "a_name": name, "model": 1, "id": k + 1})

    o1 = case["occ"] if case["vary"] == 1 else [0.3, 0.3, 0.5]
    o2 = case["occ"] if case["vary"] == 2 else [0.3, 1.0, 0.5]
    add("GLY", 1, "N", "N", ".", 1.0)
    add("ALA", 2, "N", "N", ".", 1.0)
    add("ALA", 2, "CA", "C", "A", o1[0])
    add("ALA", 2, "CB", "C", "A", o1[1])
    add("ALA", 2, "CA", "C", "B", o1[2])
    add("SER", 3, "CA", "C", "C", o2[0])
    add("SER", 3, "CA", "C", "A", o2[1])
    add("SER", 3, "CA", "C", "B", o2[2])
    add("SER", 3, "N", "N", ".", 1.0)
    n = len(rows)
    for mdl in range(2, case["models"] + 1):
        for k in range(n):
            r = dict(rows[k])
            r.update(model=mdl, id=len(rows) + 1, x=r["x"] + 8.0)
            rows.append(r)
    return {"rows": rows, "ccb": None, "conn": [], "cell": None}


def occ_class(case):
    o = case["occ"]
    if any(isinstance(v, str) for v in o):
        return "masked_all" if all(isinstance(v, str) for v in o) else "masked_some"
    sums = [o[0] + o[1], o[2]] if case["vary"] == 1 else list(o)
    if max(sums) == 0.0:
        return "all_zero"
    if sums.count(max(sums)) > 1:
        return "tie_at_maximum"
    return "first_id_is_maximum" if sums[0] == max(sums) else "later_id_is_maximum"


def occ_case(ctx, case):
    if not ctx.journal(json.dumps(case)):
        return
    tb = occ_table(case)
    cats = table_cats(tb, ())
    present = {"label_alt_id", "occupancy"}
    found = {}
    with warnings.catch_warnings():
        warnings.simplefilter("ignore")
        for fmt in FORMATS:
            f = table_read(cats, fmt)
            for altloc in ("first", "occupancy", "all"):
                for model in ((None, 1) if case["models"] == 1 else (None, 1, -1)):
                    rd = {"model": model, "altloc": altloc, "author": bool(case["vary"] % 2), "extra": ["atom_id"], "bonds": False}
                    cls, kinds, outcome = table_one(f, fmt, tb, present, rd)
                    ctx.ev(1, 1)
                    ctx.count("unspecified" if altloc == "occupancy" and occ_class(case) in (
                        "masked_all", "masked_some", "tie_at_maximum", "all_zero") else cls)
                    if outcome is not None:
                        ctx.outcome(("occ", altloc, outcome))
                    for kind, (e, o) in kinds.items():
                        ent = found.setdefault((kind, altloc), {"fmts": [], "rd": rd, "e": e, "o": o})
                        if fmt not in ent["fmts"]:
                            ent["fmts"].append(fmt)
    if len(ctx.samples) < 1:
        ctx.sample(case)
    for (kind, altloc), ent in found.items():
        ctx.violation("occ|%s|%s|altloc=%s|residue_with_%d_alt_ids,%s" % (
            fmt_label(ent["fmts"]), kind, altloc, 2 if case["vary"] == 1 else 3, occ_class(case)),
            "altloc policy on a hand-written table: %s (altloc=%s, occupancies %s)" % (kind, altloc, occ_class(case)),
            {**case, "read": ent["rd"]}, ent["e"], ent["o"])


def occ_cases(tier):
    for vary in (1, 2):
        for occ in itertools.product(OCC_PALETTE, repeat=3):
            yield {"fam": "occ", "vary": vary, "occ": list(occ), "models": 2 if occ[0] == occ[2] else 1}


# ---- 'indep': bond categories spelled in dictionary terms --------------------------------------
INDEP_TEMPLATES = ["pep3+1", "twin_ala", "twin_lig", "nuc", "lig4", "wat", "three", "ala4"]


def indep_table(case):
    """case = {"fam": "indep", "tpl": name, "edges": [[i, j, spelling index], ...], "models": m, "cell": 0/1}"""
    rows = []
    for ch, rid, ins, rn, het, ats in TEMPLATES[case["tpl"]]:
        for an, el in ats:
            k = len(rows)
            rows.append({"group": "HETATM" if het else "ATOM", "elem": el, "name": an, "alt": ".", "comp": rn,
                         "asym": ch, "seq": rid, "ins": ins, "x": 1.5 * k, "y": -0.25 * k, "z": 3.0 + k, "occ": 1.0,
                         "b": 0.0, "charge": 0, "a_seq": rid, "a_comp": rn, "a_asym": ch, "a_name": an, "model": 1,
                         "id": k + 1})
    n = len(rows)
    spec_like = {"atoms": [[r["asym"], r["seq"], r["ins"], r["comp"], 0, r["name"], r["elem"]] for r in rows]}
    res = residues_of(spec_like["atoms"])
    rix = {a: k for k, (s, e) in enumerate(res) for a in range(s, e)}
    ccb, conn = [], []
    seen = {}
    for i, j, sp in case["edges"]:
        if rix[i] == rix[j]:
            order, arom, _ = INTRA_SPELL[sp % len(INTRA_SPELL)]
            key = (rows[i]["comp"], frozenset((rows[i]["name"], rows[j]["name"])))
            if key in seen and seen[key] != (order, arom):
                return None, ()  # two statements about one component bond: not a well-formed table
            if key not in seen:
                ccb.append((rows[i]["comp"], rows[i]["name"], rows[j]["name"], order, arom))
            seen[key] = (order, arom)
        else:
            ctype, order, _ = INTER_SPELL[sp % len(INTER_SPELL)]
            ri, rj = rows[i], rows[j]
            kind = CCD_LINK.get(ri["comp"])
            if (rix[j] == rix[i] + 1 and kind is not None and kind == CCD_LINK.get(rj["comp"])
                    and (ri["name"], rj["name"]) == (("C", "N") if kind == "pep" else ("O3'", "P"))):
                return None, ()  # the pair is an implied polymer link already: two statements about one bond
            conn.append({"type": ctype, "order": order, "p1": i, "p2": j})
    for mdl in range(2, case.get("models", 1) + 1):
        for k in range(n):
            r = dict(rows[k])
            r.update(model=mdl, id=len(rows) + 1, x=r["x"] + 8.0)
            rows.append(r)
    cell = [10.5, 20.25, 30.125, 80.0, 95.5, 101.25] if case.get("cell") else None
    return {"rows": rows, "ccb": ccb or None, "conn": conn, "cell": cell}, ()


def indep_case(ctx, case):
    if not ctx.journal(json.dumps(case)):
        return
    tb, drop = indep_table(case)
    if tb is None:
        ctx.count("indep_not_well_formed")
        return
    reads = [{"model": None, "altloc": "first", "author": True, "extra": [], "bonds": True},
             {"model": -1, "altloc": "occupancy", "author": False, "extra": ["atom_id", "charge"], "bonds": True}]
    if len(ctx.samples) < 1 and len(case["edges"]) > 1:
        ctx.sample(case)
    kinds = []
    spec_like = [[r["asym"], r["seq"], r["ins"], r["comp"], 0, r["name"], r["elem"]] for r in tb["rows"]]
    res = residues_of(spec_like)
    rix = {a: k for k, (s, e) in enumerate(res) for a in range(s, e)}
    for i, j, sp in case["edges"]:
        if rix[i] == rix[j]:
            kinds.append("intra:%s/%s" % INTRA_SPELL[sp % len(INTRA_SPELL)][:2])
        else:
            kinds.append("inter:%s/%s" % INTER_SPELL[sp % len(INTER_SPELL)][:2])
    run_reads(ctx, "indep", case, tb, drop, reads, "+".join(sorted(set(kinds))) or "no_bond_rows")


def indep_cases(tier, seed):
    for name in INDEP_TEMPLATES:
        pairs = template_pairs(name)
        nsp = max(len(INTRA_SPELL), len(INTER_SPELL))
        yield {"fam": "indep", "tpl": name, "edges": [], "models": 1, "cell": 1}
        for p in pairs:
            for sp in range(nsp):
                yield {"fam": "indep", "tpl": name, "edges": [[p[0], p[1], sp]], "models": 1 + sp % 2, "cell": sp % 2}
        # pairs of bond rows: a two-spelling palette chosen by the seed (thorough: three palettes)
        pals = [(seed % nsp, (seed + 2) % nsp)] if tier == "quick" else [(k, (k + 2 + seed) % nsp) for k in (0, 3, 6)]
        for s1, s2 in pals:
            for p, q in itertools.combinations(pairs, 2):
                for a, b in ((s1, s1), (s1, s2), (s2, s1), (s2, s2)):
                    yield {"fam": "indep", "tpl": name, "edges": [[p[0], p[1], a], [q[0], q[1], b]], "models": 1,
                           "cell": 0}


# ---- 'ropts': every read option on written files ------------------------------------------------
ROPT_SKEL = ((2, 1, 1), (0, 0, 1))
ROPT_VARIANTS = {
    "array_full": [["box", None, "tric"], ["atom_id", None, "rev"], ["b_factor", None, "vals"],
                   ["occupancy", None, "vals"], ["charge", None, "vals"], ["extra", None, "plain"],
                   ["bonds", None, "path"]],
    "stack1_full": [["stack", None, 1], ["box", None, "ortho"], ["atom_id", None, "neg"], ["b_factor", None, "vals"],
                    ["occupancy", None, "vals"], ["charge", None, "vals"], ["extra", None, "awk"],
                    ["bonds", None, "path"]],
    "stack2_full": [["models", None, 2], ["box", None, "permodel"], ["atom_id", None, "rev"],
                    ["b_factor", None, "vals"], ["occupancy", None, "vals"], ["charge", None, "vals"],
                    ["extra", None, "plain"], ["bonds", None, "path"]],
    "stack3_full": [["models", None, 3], ["atom_id", None, "neg"], ["b_factor", None, "vals"],
                    ["occupancy", None, "vals"], ["charge", None, "vals"], ["extra", None, "plain"],
                    ["bonds", None, "path"]],
    "stack3_bare": [["models", None, 3], ["bonds", None, "path"]],
    "array_bare": [],
}


ROPT_DEFAULT = {"model": None, "altloc": "first", "author": True, "bonds": False, "extra": []}


def ropts_one(f, fmt, spec, rd, bare, names):
    """One get_structure call on a written file against the model.  Returns (class, kind, exp, obs):
    class in accepted / refused / unspecified; kind None when the call agrees with the model."""
    from biotite.structure.io import pdbx

    m, n = len(spec["coord"]), len(spec["atoms"])
    model = rd["model"]
    try:
        r = pdbx.get_structure(f, model=model, altloc=rd["altloc"], use_author_fields=rd["author"],
                               extra_fields=list(rd["extra"]), include_bonds=rd["bonds"])
        got = ("value", observe(r))
    except Exception as e:  # noqa: BLE001
        got = ("raised", type(e).__name__, str(e)[:200])
    in_range = model is None or (model != 0 and -m <= model <= m)
    if not in_range:
        # a model that does not exist: an error, or nothing selected
        if got[0] == "value" and got[1]["n"] > 0:
            return "refused", "nonexistent_model_returns_atoms", "error or no atoms", {"atoms": got[1]["n"],
                                                                                     "coord": got[1]["coord"]}
        return "refused", None, None, got[0]
    unspecified = bare and any(x in rd["extra"] for x in ("b_factor", "occupancy", "charge"))
    cls = "unspecified" if unspecified else "accepted"
    if got[0] == "raised":
        if unspecified:
            return cls, None, None, "raised"
        return cls, "get_structure_raises_" + got[1], "value", got[2]
    sp = spec
    if bare:
        sp = dict(spec)
        k = 0 if model is None else (model - 1 if model > 0 else m + model)
        sp["opt"] = {"atom_id": list(range(k * n + 1, k * n + n + 1)), "b_factor": ["nan"] * n,
                     "occupancy": [1.0] * n, "charge": [0] * n}
    exp = expected(sp, model=model, extra_fields=rd["extra"], include_bonds=rd["bonds"], altloc=rd["altloc"])
    d = compare(exp, got[1], fmt)
    if d:
        return cls, "differs_" + d[0][0], d[0][1], d[0][2]
    return cls, None, None, (json.dumps(got[1]["annot"], sort_keys=True, default=str), got[1]["depth"],
                             json.dumps(got[1]["coord"]), json.dumps(got[1]["bonds"]))


def ropt_class(rd, key, m, names):
    v = rd[key]
    if key == "model":
        if v is None:
            return "model=none"
        if v != 0 and -m <= v <= m:
            return "model=existing_%s" % ("positive" if v > 0 else "negative")
        return "model=%s" % ("zero" if v == 0 else "m+1" if v == m + 1 else "-(m+1)" if v == -(m + 1) else "below_-(m+1)")
    if key == "extra":
        return "extra=%s" % ("none" if not v else "all" if len(v) == len(names) else "some")
    return "%s=%s" % (key, v)


def ropts_case(ctx, case):
    """case = {"fam": "ropts", "variant": name, "pal": i}: one written file per encoding, every option
    set.  A failing option set is attributed to the options whose reset to the default cures it."""
    if not ctx.journal(json.dumps(case)):
        return
    devs = ROPT_VARIANTS[case["variant"]]
    spec = apply_devs(ROPT_SKEL, PALETTES[case["pal"]], devs)
    bare = case["variant"].endswith("bare")
    has_bonds = spec["bonds"] is not None
    m = len(spec["coord"])
    names = list(OPT_FIELDS) + ([EXTRA_NAME] if not bare else [])
    subsets = [list(c) for k in range(len(names) + 1) for c in itertools.combinations(names, k)]
    models = [None] + list(range(1, m + 1)) + list(range(-m, 0)) + [0, m + 1, -(m + 1), -(m + 2)]
    only = case.get("read")
    found = {}
    with warnings.catch_warnings():
        warnings.simplefilter("ignore")
        for fmt in ("cif", "bcif"):
            extra_w = [EXTRA_NAME] if spec["extra"] is not None else []
            f = read_file(write_file(build(spec), fmt, has_bonds, extra_w), fmt)
            for model in models:
                for altloc in ("first", "occupancy", "all"):
                    for author in (True, False):
                        for bonds in ((False, True) if has_bonds else (False,)):
                            for extra in subsets:
                                rd = {"model": model, "altloc": altloc, "author": author, "bonds": bonds, "extra": extra}
                                if only is not None and rd != only:
                                    continue
                                cls, kind, e, o = ropts_one(f, fmt, spec, rd, bare, names)
                                ctx.ev(1, 1)
                                ctx.count(cls)
                                if kind is None:
                                    ctx.outcome(("ropts", cls, o))
                                    continue
                                ess = []
                                for key in ROPT_DEFAULT:
                                    if rd[key] == ROPT_DEFAULT[key]:
                                        continue
                                    rd2 = dict(rd)
                                    rd2[key] = ROPT_DEFAULT[key]
                                    if ropts_one(f, fmt, spec, rd2, bare, names)[1] != kind:
                                        ess.append(key)
                                if not ess:
                                    ess = [k for k in ROPT_DEFAULT if rd[k] != ROPT_DEFAULT[k]]
                                rc = ",".join(ropt_class(rd, k, m, names) for k in ess) or "defaults"
                                ent = found.setdefault((kind, rc), {"fmts": set(), "rd": rd, "e": e, "o": o})
                                ent["fmts"].add(fmt)
    for (kind, rc), ent in found.items():
        fl = "all" if len(ent["fmts"]) == 2 else sorted(ent["fmts"])[0]
        oc = "-" if kind.startswith("nonexistent_model") else ("optional_columns_%s" % ("absent" if bare else "present"))
        ctx.violation("ropts|%s|%s|%s|%s" % (fl, kind, rc, oc),
                      "get_structure option set on a written file: %s (%s)" % (kind, rc),
                      {"fam": "ropts", "variant": case["variant"], "pal": case["pal"], "read": ent["rd"]}, ent["e"], ent["o"])


# ---- 'nonuniq': residues that are not uniquely identifiable -------------------------------------
def nonuniq_spec(case):
    """LIG(A,1) [x] - GLY(A,2) [N] - LIG(A,1) [y]: the first and the third residue carry the same
    identifiers.  case: twin_names 'same'|'diff', bonded 'first'|'second'|'both', type t."""
    n2 = "C1" if case["twin_names"] == "same" else "C2"
    atoms = [["A", 1, "", "LIG", 1, "C1", "C"], ["A", 2, "", "GLY", 0, "N", "N"], ["A", 1, "", "LIG", 1, n2, "C"]]
    bonds = []
    if case["bonded"] in ("first", "both"):
        bonds.append([0, 1, case["type"]])
    if case["bonded"] in ("second", "both"):
        bonds.append([1, 2, case["type"]])
    coord = [[[1.5, 2.5, 3.5], [4.5, 5.5, 6.5], [7.5, 8.5, 9.5]]]
    return {"atoms": atoms, "coord": coord, "stack": False, "box": None, "opt": {}, "extra": None, "bonds": bonds}


def nonuniq_case(ctx, case):
    from biotite.structure.io import pdbx

    if not ctx.journal(json.dumps(case)):
        return
    spec = nonuniq_spec(case)
    fmt = case["fmt"]
    with warnings.catch_warnings():
        warnings.simplefilter("ignore")
        ctx.ev(2, 2)
        try:
            data = write_file(build(spec), fmt, True, [])
            f = read_file(data, fmt)
        except Exception as e:  # noqa: BLE001
            ctx.violation("nonuniq|%s|write_raises_%s|twins_%s" % (fmt, type(e).__name__, case["twin_names"]),
                          "writing a structure with repeated residue identifiers raised", case, "file", str(e)[:200])
            return
        # without bonds the structure has to come back whatever the identifiers are
        try:
            r = pdbx.get_structure(f, model=1, include_bonds=False)
            d = compare(expected(spec, model=1, include_bonds=False), observe(r), fmt)
        except Exception as e:  # noqa: BLE001
            d = [("get_structure_raises_" + type(e).__name__, "value", str(e)[:200])]
        ctx.count("accepted")
        for field, e, o in d[:1]:
            ctx.violation("nonuniq|%s|no_bonds_read|%s|twins_%s" % (fmt, field, case["twin_names"]),
                          "structure with repeated residue identifiers not returned (read without bonds)", case, e, o)
        # with bonds: the documented InvalidFileError, or exactly the written bonds
        ctx.count("unspecified")
        try:
            r = pdbx.get_structure(f, model=1, include_bonds=True)
        except Exception as e:  # noqa: BLE001
            ctx.outcome(("nonuniq", "raised", type(e).__name__))
            if type(e).__name__ != "InvalidFileError":
                ctx.violation("nonuniq|%s|raises_%s|twins_%s,bonded_%s" % (fmt, type(e).__name__, case["twin_names"],
                                                                         case["bonded"]),
                              "ambiguous struct_conn partner: expected InvalidFileError or the written bonds", case,
                              "InvalidFileError or exact bonds", "%s: %s" % (type(e).__name__, str(e)[:200]))
            return
        o = observe(r)
        ctx.outcome(("nonuniq", "value", json.dumps(o["bonds"])))
        e = expected(spec, model=1, include_bonds=True)
        if o["bonds"] != e["bonds"]:
            ctx.violation("nonuniq|%s|wrong_bond_placed|twins_%s,bonded_%s,type_%s" % (
                fmt, case["twin_names"], case["bonded"], type_class(case["type"])),
                "ambiguous struct_conn partner: a different bond set was returned instead of InvalidFileError", case,
                e["bonds"], o["bonds"])


def nonuniq_cases():
    for fmt in FORMATS:
        for twin_names in ("same", "diff"):
            for bonded in ("first", "second", "both"):
                for t in (1, 8):
                    yield {"fam": "nonuniq", "fmt": fmt, "twin_names": twin_names, "bonded": bonded, "type": t}



# ---- 'reuse': several set_structure() calls on one file / block object ------------------------------
REUSE_PALETTE = {
    # name: (skeleton, deviations)
    "plain2": (((2,), (0,)), []),
    "full4": (ROPT_SKEL, ROPT_VARIANTS["array_full"]),
    "bare4_bondlist": (ROPT_SKEL, [["bonds", None, "empty"]]),  # same atoms as full4, a bond list without bonds
    "stack3": (((1, 1), (0, 0)), [["models", None, 3], ["box", None, "ortho"], ["bonds", None, "path"]]),
    "intra3": (((3,), (0,)), [["bonds", None, "path"], ["charge", None, "vals"]]),
    "one_stack": (((1,), (0,)), [["stack", None, 1], ["extra", None, "awk"]]),
    "occ3": (((1, 1, 1), (0, 0, 1)), [["occupancy", None, "vals"], ["b_factor", None, "nan"]]),
}
REUSE_KINDS = ("same_default", "same_named", "two_blocks", "block_object", "lazy", "compress")
REFUSALS = ("empty_structure", "reserved_extra_field", "missing_extra_annotation", "intra_coordination_bond",
            "empty_atom_name_with_bonds", "not_a_structure")


def reuse_spec(name, pal_i):
    skel, devs = REUSE_PALETTE[name]
    return apply_devs(skel, PALETTES[pal_i], devs)


def _classes(flavour):
    from biotite.structure.io import pdbx

    if flavour == "cif":
        return pdbx.CIFFile, pdbx.CIFBlock
    return pdbx.BinaryCIFFile, pdbx.BinaryCIFBlock


def _put(target, spec, block_name=None):
    from biotite.structure.io import pdbx

    pdbx.set_structure(target, build(spec), data_block=block_name, include_bonds=spec["bonds"] is not None,
                       extra_fields=[EXTRA_NAME] if spec["extra"] is not None else [])


def _dump(flavour, fileobj):
    s = io.StringIO() if flavour == "cif" else io.BytesIO()
    fileobj.write(s)
    return s.getvalue()


def _load(flavour, data):
    File, _ = _classes(flavour)
    return File.read(io.StringIO(data) if flavour == "cif" else io.BytesIO(data))


def _cat_bytes(flavour, cat):
    """Serialised form of one category, for the category-by-category comparison."""
    File, Block = _classes(flavour)
    f = File()
    b = Block()
    b["c"] = cat
    f["x"] = b
    return _dump(flavour, f)


def _reads(target, block_name, fields):
    """Outcomes of a fixed set of get_structure calls as comparable JSON strings."""
    from biotite.structure.io import pdbx

    out = []
    for model, bonds, extra in ((None, True, fields[0]), (1, False, []), (-1, True, fields[1]), (1, True, fields[0])):
        try:
            r = pdbx.get_structure(target, data_block=block_name, model=model, include_bonds=bonds,
                                   extra_fields=list(extra))
            out.append(["value", observe(r)])
        except Exception as e:  # noqa: BLE001
            out.append(["raised", type(e).__name__])
    return out


def _fields(sa, sb):
    own = [f for f in OPT_FIELDS if f in sb["opt"]] + ([EXTRA_NAME] if sb["extra"] is not None else [])
    both = list(own)
    if sa is not None:
        both += [f for f in OPT_FIELDS if f in sa["opt"] and f not in both]
        if sa["extra"] is not None and EXTRA_NAME not in both:
            both.append(EXTRA_NAME)
    return own, both


def _block_of(target, block_name):
    from biotite.structure.io import pdbx

    if isinstance(target, (pdbx.CIFFile, pdbx.BinaryCIFFile)):
        return target[block_name] if block_name is not None else target.block
    return target


def reuse_compare(flavour, got_target, got_block, fresh_target, fresh_block, sa, sb, where):
    """Differential oracle: the reused object against a fresh one that only saw the last structure.
    Returns {failure: (expected, observed)} and the list of tolerated stale categories."""
    fails, tolerated = {}, []
    fields = _fields(sa, sb)
    gb, fb = _block_of(got_target, got_block), _block_of(fresh_target, fresh_block)
    gk, fk = list(gb.keys()), list(fb.keys())
    stale = [k for k in gk if k not in fk]
    for k in stale:
        if k in ("struct_conn", "chem_comp_bond") and sb["bonds"] is None:
            # the last structure carries no bond list at all: keeping the bond categories the object
            # already had is the read-modify-write idiom; the statement is silent
            tolerated.append(k)
            continue
        why = {"struct_conn": "last_structure_has_a_bond_list_without_inter_residue_bond",
               "chem_comp_bond": "last_structure_has_a_bond_list_without_intra_residue_bond",
               "cell": "last_structure_has_no_box"}.get(k, "other")
        fails["stale_category:%s|%s" % (k, why)] = (sorted(fk), sorted(gk))
    for k in fk:
        if k not in gk:
            fails["missing_category:%s" % k] = (sorted(fk), sorted(gk))
        else:
            a, b = _cat_bytes(flavour, fb[k]), _cat_bytes(flavour, gb[k])
            if a != b:
                fails["category_differs:%s" % k] = (a[:400] if isinstance(a, str) else repr(a[:200]),
                                                    b[:400] if isinstance(b, str) else repr(b[:200]))
    explained = {"bonds": ("struct_conn", "chem_comp_bond"), "box": ("cell",)}
    for label, g_t, f_t in (("live", got_target, fresh_target),
                            ("reparsed", _load(flavour, _dump(flavour, where["file"])) if where.get("file") is not None
                             else None, where.get("fresh_reparsed"))):
        if g_t is None or f_t is None:
            continue
        rg = _reads(g_t, got_block if label == "live" else where["block_in_file"], fields)
        rf = _reads(f_t, fresh_block if label == "live" else where["fresh_block_in_file"], fields)
        for k, (x, y) in enumerate(zip(rf, rg)):
            if json.dumps(x, sort_keys=True, default=str) == json.dumps(y, sort_keys=True, default=str):
                continue
            if x[0] != y[0]:
                field = "outcome"
            else:
                field = next((f for f in ("kind", "n", "depth", "annot", "coord", "bonds", "box")
                              if json.dumps(x[1].get(f), sort_keys=True, default=str)
                              != json.dumps(y[1].get(f), sort_keys=True, default=str)), "other")
            if any(c in stale for c in explained.get(field, ())):
                continue  # consequence of a stale category that is reported (or tolerated) on its own
            fails.setdefault("read_differs:%s|%s" % (field, label), (x if x[0] == "raised" else {field: x[1].get(field)},
                                                                   y if y[0] == "raised" else {field: y[1].get(field)}))
    return fails, tolerated


def reuse_case(ctx, case):
    """case = {"fam": "reuse", "kind": k, "first": a, "second": b, "mid_read": 0/1, "pal": i}"""
    from biotite.structure.io import pdbx

    if not ctx.journal(json.dumps(case)):
        return
    sa, sb = reuse_spec(case["first"], case["pal"]), reuse_spec(case["second"], case["pal"])
    kind = case["kind"]
    found = {}
    with warnings.catch_warnings():
        warnings.simplefilter("ignore")
        for flavour in (("bcif",) if kind == "compress" else ("cif", "bcif")):
            File, Block = _classes(flavour)
            try:
                name_a, name_b = {"same_default": (None, None), "same_named": ("blk", "blk"), "two_blocks": ("one", "two"),
                                  "block_object": (None, None), "lazy": (None, None), "compress": (None, None)}[kind]
                target = Block() if kind == "block_object" else File()
                _put(target, sa, name_a)
                if kind == "lazy":
                    target = _load(flavour, _dump(flavour, target))
                if kind == "compress":
                    target = pdbx.compress(target)
                if case["mid_read"]:
                    pdbx.get_structure(target, data_block=name_a, model=1, include_bonds=sa["bonds"] is not None,
                                       extra_fields=_fields(None, sa)[0])
                    if kind != "block_object":
                        _dump(flavour, target)
                _put(target, sb, name_b)
                fresh = Block() if kind == "block_object" else File()
                _put(fresh, sb, name_b)
                if kind == "compress":
                    target, fresh = pdbx.compress(target), pdbx.compress(fresh)
                where = {}
                if kind != "block_object":
                    bname = name_b if name_b is not None else "structure"
                    where = {"file": target, "block_in_file": bname, "fresh_block_in_file": bname,
                             "fresh_reparsed": _load(flavour, _dump(flavour, fresh))}
                fails, tolerated = reuse_compare(flavour, target, name_b, fresh, name_b, sa, sb, where)
                if kind == "two_blocks":
                    # the first block must still hold the first structure
                    fa = File()
                    _put(fa, sa, name_a)
                    f2, _ = reuse_compare(flavour, target, name_a, fa, name_a, None, sa, {})
                    for k, v in f2.items():
                        fails["first_block_" + k] = v
                    if list(target.keys()) != [name_a, name_b]:
                        fails["block_names"] = ([name_a, name_b], list(target.keys()))
            except Exception as e:  # noqa: BLE001
                fails, tolerated = {"raises_%s" % type(e).__name__: ("second write and reads succeed", str(e)[:200])}, []
            for t in tolerated:
                ctx.count("unspecified_bond_category_kept_for_structure_without_bond_list")
            for k, v in fails.items():
                ent = found.setdefault(k, {"fmts": [], "e": v[0], "o": v[1]})
                ent["fmts"].append(flavour)
    ctx.ev(1, 1)
    ctx.count("accepted")
    ctx.outcome(("reuse", case["kind"], case["first"], case["second"], case["mid_read"], tuple(sorted(found))))
    if len(ctx.samples) < 1:
        ctx.sample(case)
    for k, ent in found.items():
        fl = "all" if len(ent["fmts"]) == 2 or kind == "compress" else ent["fmts"][0]
        # a category left over from the first structure is one defect however the object is reused
        how = "any_reuse" if k.startswith("stale_category:") else ("rewrite" if kind.startswith("same") else kind)
        ctx.violation("reuse|%s|%s|%s" % (fl, how, k),
                      "second set_structure() on an object that already holds a structure: %s" % k, case, ent["e"], ent["o"])


def refusal_call(target, spec, refusal, block_name):
    """A set_structure call that has to be refused."""
    import biotite.structure as struc
    from biotite.structure.io import pdbx

    sp = json.loads(json.dumps(spec))
    kw = {"data_block": block_name}
    if refusal == "empty_structure":
        return pdbx.set_structure(target, struc.AtomArray(0), **kw)
    if refusal == "not_a_structure":
        return pdbx.set_structure(target, [1, 2, 3], **kw)
    if refusal == "reserved_extra_field":
        return pdbx.set_structure(target, build(sp), extra_fields=["charge"], **kw)
    if refusal == "missing_extra_annotation":
        return pdbx.set_structure(target, build(sp), extra_fields=["no_such_annotation"], **kw)
    n = len(sp["atoms"])
    if refusal == "intra_coordination_bond":
        first = sp["atoms"][0]
        sp["atoms"] = [[first[0], first[1], "", first[3], a[4], "X%d" % k, a[6]] for k, a in enumerate(sp["atoms"])]
        sp["bonds"] = [[0, n - 1, 8]] if n > 1 else []
    else:
        sp["atoms"][0][5] = ""
        sp["bonds"] = [[0, n - 1, 1]] if n > 1 else []
    return pdbx.set_structure(target, build(sp), include_bonds=True, **kw)


def refuse_case(ctx, case):
    """case = {"fam": "reuse", "kind": "refuse", "first": a, "refusal": r, "new_block": 0/1, "pal": i}:
    a refused set_structure() must leave the object readable and unchanged."""
    if not ctx.journal(json.dumps(case)):
        return
    sa = reuse_spec(case["first"], case["pal"])
    if case["refusal"] in ("intra_coordination_bond", "empty_atom_name_with_bonds") and len(sa["atoms"]) < 2:
        ctx.count("refuse_not_applicable")
        return
    found = {}
    with warnings.catch_warnings():
        warnings.simplefilter("ignore")
        for flavour in ("cif", "bcif"):
            File, _ = _classes(flavour)
            f = File()
            _put(f, sa, "blk")
            before = _dump(flavour, f)
            fields = _fields(None, sa)
            reads_before = json.dumps(_reads(f, "blk", fields), sort_keys=True, default=str)
            try:
                refusal_call(f, sa, case["refusal"], "other" if case["new_block"] else "blk")
                found.setdefault("not_refused", {"fmts": [], "e": "an exception", "o": "returned"})["fmts"].append(flavour)
                continue
            except Exception as e:  # noqa: BLE001
                exc = type(e).__name__
            try:
                after = _dump(flavour, f)
            except Exception as e:  # noqa: BLE001
                found.setdefault("unserialisable_after_refusal_%s" % type(e).__name__,
                                 {"fmts": [], "e": "file as before", "o": str(e)[:200]})["fmts"].append(flavour)
                continue
            explained = False
            if after != before:
                blocks = list(f.keys())
                cats = list(f["blk"].keys())
                old = _load(flavour, before)["blk"]
                changed = sorted(set(cats) ^ set(old.keys())
                                 | {c for c in cats if c in old and _cat_bytes(flavour, f["blk"][c]) != _cat_bytes(flavour, old[c])})
                if blocks != ["blk"]:
                    what = "empty_block_created_before_the_refusal"
                elif changed and set(changed) <= {"struct_conn", "chem_comp_bond"}:
                    what = "bond_categories_written_before_the_refusal"
                    explained = True
                else:
                    what = "changed:" + "+".join(changed)
                found.setdefault("file_changed_by_refused_call:%s" % what,
                                 {"fmts": [], "e": {"blocks": ["blk"], "raised": exc},
                                  "o": {"blocks": blocks, "categories": cats, "changed": changed}})["fmts"].append(flavour)
            reads_after = json.dumps(_reads(f, "blk", fields), sort_keys=True, default=str)
            if reads_after != reads_before and not explained:
                found.setdefault("structure_changed_by_refused_call",
                                 {"fmts": [], "e": reads_before[:300], "o": reads_after[:300]})["fmts"].append(flavour)
    ctx.ev(1, 1)
    ctx.count("refused")
    ctx.outcome(("refuse", case["first"], case["refusal"], case["new_block"], tuple(sorted(found))))
    for k, ent in found.items():
        fl = "all" if len(ent["fmts"]) == 2 else ent["fmts"][0]
        cls = case["refusal"] if k in ("not_refused", "structure_changed_by_refused_call") or k.startswith(
            "file_changed_by_refused_call:changed") else "-"
        ctx.violation("reuse|%s|refuse|%s|%s,%s" % (fl, k, cls, "new_block" if case["new_block"] else "same_block"),
                      "refused set_structure() on an object that holds a structure: %s" % k, case, ent["e"], ent["o"])


def reuse_cases(tier, seed):
    pal = seed % len(PALETTES)
    names = list(REUSE_PALETTE)
    for kind in REUSE_KINDS:
        for a in names:
            for b in names:
                for mid in (0, 1):
                    yield {"fam": "reuse", "kind": kind, "first": a, "second": b, "mid_read": mid, "pal": pal}
    for a in names:
        for r in REFUSALS:
            for nb in (0, 1):
                yield {"fam": "reuse", "kind": "refuse", "first": a, "refusal": r, "new_block": nb, "pal": pal}


# ---- 'flavour': aliasing, array flavours, many items, order, laziness, error paths ------------------
def _snapshot(a):
    """Everything observable of a structure incl. dtypes and writability (argument-unchanged checks)."""
    o = observe(a)
    o["dtypes"] = {c: str(a.get_annotation(c).dtype) for c in a.get_annotation_categories()}
    o["flags"] = {c: bool(a.get_annotation(c).flags.writeable) for c in a.get_annotation_categories()}
    return json.dumps(o, sort_keys=True, default=str)


def _mutate_in_place(a):
    """Change every array of a structure in place (not by assignment)."""
    a.coord += 1.0
    for c in a.get_annotation_categories():
        arr = a.get_annotation(c)
        if arr.dtype == bool:
            arr[:] = ~arr
        elif np.issubdtype(arr.dtype, np.number):
            arr += 1
        else:
            arr[:] = "Q"
    if a.box is not None:
        a.box *= 2.0
    if a.bonds is not None and a.array_length() > 1:
        a.bonds.add_bond(0, a.array_length() - 1, 3)
        a.bonds.remove_bond(0, 1)


def _same(x, y):
    return json.dumps(x, sort_keys=True, default=str) == json.dumps(y, sort_keys=True, default=str)


def _first_diff(x, y):
    """Name of the first differing part of two _reads() results."""
    for k, (p, q) in enumerate(zip(x, y)):
        if _same(p, q):
            continue
        if p[0] != q[0]:
            return "outcome"
        for f in ("kind", "n", "depth", "annot", "coord", "bonds", "box"):
            if not _same(p[1].get(f), q[1].get(f)):
                if f == "annot":
                    for c in sorted(set(p[1]["annot"]) | set(q[1]["annot"])):
                        if not _same(p[1]["annot"].get(c), q[1]["annot"].get(c)):
                            return "annot:" + c
                return f
    return None


FLAVOURS = {
    # name: (target, how the array is re-made)
    "coord_float64": ("coord", lambda x: x.astype(np.float64)),
    "coord_noncontiguous": ("coord", lambda x: np.repeat(x, 2, axis=-1)[..., ::2]),
    "coord_fortran": ("coord", lambda x: np.asfortranarray(x)),
    "coord_readonly": ("coord", lambda x: _ro(x.copy())),
    "box_float64": ("box", lambda x: x.astype(np.float64)),
    "box_noncontiguous": ("box", lambda x: np.repeat(x, 2, axis=-1)[..., ::2]),
    "box_readonly": ("box", lambda x: _ro(x.copy())),
    "res_id_int32": ("res_id", lambda x: x.astype(np.int32)),
    "res_id_int16": ("res_id", lambda x: x.astype(np.int16)),
    "res_id_noncontiguous": ("res_id", lambda x: np.repeat(x, 2)[::2]),
    "res_id_readonly": ("res_id", lambda x: _ro(x.copy())),
    "res_id_list": ("res_id", lambda x: [int(v) for v in x]),
    "chain_id_object": ("chain_id", lambda x: x.astype(object)),
    "chain_id_wide": ("chain_id", lambda x: x.astype("U12")),
    "chain_id_noncontiguous": ("chain_id", lambda x: np.repeat(x, 2)[::2]),
    "chain_id_readonly": ("chain_id", lambda x: _ro(x.copy())),
    "atom_name_list": ("atom_name", lambda x: [str(v) for v in x]),
    "atom_name_object": ("atom_name", lambda x: x.astype(object)),
    "res_name_readonly": ("res_name", lambda x: _ro(x.copy())),
    "element_noncontiguous": ("element", lambda x: np.repeat(x, 2)[::2]),
    "ins_code_readonly": ("ins_code", lambda x: _ro(x.copy())),
    "hetero_uint8": ("hetero", lambda x: x.astype(np.uint8)),
    "hetero_list": ("hetero", lambda x: [bool(v) for v in x]),
    "hetero_readonly": ("hetero", lambda x: _ro(x.copy())),
    "atom_id_int32": ("atom_id", lambda x: x.astype(np.int32)),
    "atom_id_uint16": ("atom_id", lambda x: x.astype(np.uint16)),
    "b_factor_float32": ("b_factor", lambda x: x.astype(np.float32)),
    "b_factor_readonly": ("b_factor", lambda x: _ro(x.copy())),
    "occupancy_float32": ("occupancy", lambda x: x.astype(np.float32)),
    "occupancy_noncontiguous": ("occupancy", lambda x: np.repeat(x, 2)[::2]),
    "charge_int8": ("charge", lambda x: x.astype(np.int8)),
    "charge_list": ("charge", lambda x: [int(v) for v in x]),
    "charge_readonly": ("charge", lambda x: _ro(x.copy())),
    "extra_object": (EXTRA_NAME, lambda x: x.astype(object)),
    "extra_readonly": (EXTRA_NAME, lambda x: _ro(x.copy())),
}
LENIENT_FLAVOURS = ("chain_id_object", "atom_name_object", "extra_object")  # object dtype: refusal is fine


def _ro(x):
    x.flags.writeable = False
    return x


def flavour_base(stack, pal_i):
    devs = [["box", None, "tric"], ["atom_id", None, "rev"], ["b_factor", None, "vals"], ["occupancy", None, "vals"],
            ["charge", None, "vals"], ["extra", None, "plain"], ["bonds", None, "path"]]
    if stack:
        devs = [["models", None, 2]] + devs
    spec = apply_devs(ROPT_SKEL, PALETTES[pal_i], devs)
    spec["opt"]["b_factor"] = [0.0, -1.0, 999.5, 12.5]  # exact in float32
    return spec


def flavoured(spec, name):
    """The structure of `spec` with one array re-made in another flavour, through the public API."""
    a = build(spec)
    target, fn = FLAVOURS[name]
    if target == "coord":
        a.coord = fn(a.coord)
    elif target == "box":
        a.box = fn(a.box)
    else:
        arr = fn(a.get_annotation(target))
        a.del_annotation(target)
        a.set_annotation(target, arr)
    return a


def _put_struct(target, a, spec, block_name=None):
    from biotite.structure.io import pdbx

    pdbx.set_structure(target, a, data_block=block_name, include_bonds=spec["bonds"] is not None,
                       extra_fields=[EXTRA_NAME] if spec["extra"] is not None else [])


def flavour_case(ctx, case):
    """case = {"fam": "flavour", "sub": ..., ...}; every sub-family compares with a plain reference
    (same structure built the plain way / fresh object / unforced file), no new expected values."""
    from biotite.structure.io import pdbx

    if not ctx.journal(json.dumps(case)):
        return
    sub = case["sub"]
    found = {}

    def hit(flavour, failure, cls, e, o):
        ent = found.setdefault((failure, cls), {"fmts": [], "e": e, "o": o})
        if flavour not in ent["fmts"]:
            ent["fmts"].append(flavour)

    unspecified = [False]
    with warnings.catch_warnings():
        warnings.simplefilter("ignore")
        for flavour in ("cif", "bcif"):
            File, Block = _classes(flavour)
            if sub == "dtype":
                spec = flavour_base(case["stack"], case["pal"])
                fields = _fields(None, spec)
                ref = File()
                _put(ref, spec)
                ref_reads = _reads(_load(flavour, _dump(flavour, ref)), None, fields)
                try:
                    a = flavoured(spec, case["flavour"])
                    before = _snapshot(a)
                    f = File()
                    _put_struct(f, a, spec)
                    data = _dump(flavour, f)
                    if flavour == "bcif":
                        _dump(flavour, pdbx.compress(f))
                    if _snapshot(a) != before:
                        hit(flavour, "argument_modified_by_set_structure", case["flavour"], "unchanged", "changed")
                    got = _reads(_load(flavour, data), None, fields)
                except Exception as e:  # noqa: BLE001
                    if case["flavour"] in LENIENT_FLAVOURS:
                        unspecified[0] = True
                        continue
                    hit(flavour, "raises_%s" % type(e).__name__, case["flavour"], "as for the plain array", str(e)[:200])
                    continue
                d = _first_diff(ref_reads, got)
                if d is not None:
                    hit(flavour, "read_differs:%s" % d, case["flavour"], "as for the plain array", d)
            elif sub == "alias":
                spec = flavour_base(case["stack"], case["pal"])
                fields = _fields(None, spec)
                if case["what"] == "argument_after_write":
                    a = build(spec)
                    f = File()
                    _put_struct(f, a, spec)
                    if case["compress"] and flavour == "bcif":
                        f = pdbx.compress(f)
                    _mutate_in_place(a)
                    ref = File()
                    _put(ref, spec)
                    if case["compress"] and flavour == "bcif":
                        ref = pdbx.compress(ref)
                    d = _first_diff(_reads(_load(flavour, _dump(flavour, ref)), None, fields),
                                    _reads(_load(flavour, _dump(flavour, f)), None, fields))
                    if d is not None:
                        hit(flavour, "file_follows_later_changes_of_the_structure_it_was_given:%s" % d,
                            "compressed" if case["compress"] else "plain", "independent of the argument", d)
                else:  # result of get_structure mutated in place
                    f = File()
                    _put(f, spec)
                    if case["what"] == "result_of_parsed_file":
                        f = _load(flavour, _dump(flavour, f))
                    before_reads = _reads(f, None, fields)
                    before_dump = _dump(flavour, f) if case["what"] == "result_of_parsed_file" else None
                    r = pdbx.get_structure(f, model=None if case["stack"] else 1, include_bonds=True,
                                           extra_fields=list(fields[0]))
                    _mutate_in_place(r)
                    d = _first_diff(before_reads, _reads(f, None, fields))
                    if d is not None:
                        hit(flavour, "file_follows_changes_of_the_structure_it_returned:%s" % d, case["what"],
                            "independent of the result", d)
                    # an independent result is demanded between two structures read from one file
                    r1 = pdbx.get_structure(f, model=1, include_bonds=True, extra_fields=list(fields[0]))
                    snap = _snapshot(r1)
                    r2 = pdbx.get_structure(f, model=1, include_bonds=True, extra_fields=list(fields[0]))
                    _mutate_in_place(r2)
                    if _snapshot(r1) != snap and d is None:
                        hit(flavour, "two_results_share_state", case["what"], "independent structures", "first changed")
            elif sub == "many":
                spec = many_spec(case)
                fields = _fields(None, spec)
                s_ = build(spec)
                data = write_file(s_, flavour, True, [])
                f = read_file(data, flavour)
                m = len(spec["coord"])
                for model in sorted({None, 1, 2 if m > 1 else 1, 9, 10, 11, m, -1, -m} - {0}, key=str):
                    if model is not None and abs(model) > m:
                        continue
                    try:
                        r = pdbx.get_structure(f, model=model, include_bonds=True, extra_fields=["atom_id"])
                        d = compare(expected(spec, model=model), observe(r), flavour)
                    except Exception as e:  # noqa: BLE001
                        d = [("raises_" + type(e).__name__, "value", str(e)[:200])]
                    for field, e_, o_ in d[:1]:
                        hit(flavour, "differs_" + field, "%s=%s" % (case["what"], count_class(case["count"])),
                            str(e_)[:300], str(o_)[:300])
            elif sub == "order":
                spec = order_spec(case)
                res = roundtrip(spec, flavour)
                for kind, (e_, o_) in expand_kinds(spec, res).items():
                    hit(flavour, kind, case["what"], e_, o_)
            elif sub == "lazy":
                spec = flavour_base(case["stack"], case["pal"])
                fields = _fields(None, spec)
                f0 = File()
                _put(f0, spec)
                data = _dump(flavour, f0)
                base = _reads(_load(flavour, data), None, fields)
                f = _load(flavour, data)
                twin = _load(flavour, data)
                if case["eq_first"] and not (f == twin):
                    hit(flavour, "parsed_files_of_one_text_unequal", "before_forcing", True, False)
                for cat in case["force"]:
                    f.block[cat]
                    if case["deep"]:
                        for col in f.block[cat].values():
                            col.as_array()
                d = _first_diff(base, _reads(f, None, fields))
                if d is not None:
                    hit(flavour, "read_differs:%s" % d, "after_forcing_categories", "as unforced", d)
                if not (f == twin) or not (twin == f):
                    hit(flavour, "parsed_files_of_one_text_unequal", "after_forcing_one", True, False)
                d = _first_diff(base, _reads(_load(flavour, _dump(flavour, f)), None, fields))
                if d is not None:
                    hit(flavour, "read_differs:%s" % d, "reserialised_after_forcing", "as unforced", d)
            elif sub == "errors":
                spec = flavour_base(case["stack"], case["pal"])
                fields = _fields(None, spec)
                f = File()
                _put(f, spec)
                if case["parsed"]:
                    f = _load(flavour, _dump(flavour, f))
                base = _reads(f, None, fields)
                dump0 = _dump(flavour, f)
                m = len(spec["coord"])
                extra_arg = list(fields[0])
                kw = {"zero_model": {"model": 0}, "model_above": {"model": m + 1}, "model_below": {"model": -(m + 1)},
                      "bad_altloc": {"altloc": "bogus"}, "missing_extra_field": {"extra_fields": ["no_such_column"]},
                      "missing_block": {"data_block": "no_such_block"}}[case["refusal"]]
                try:
                    pdbx.get_structure(f, include_bonds=True, **{"extra_fields": extra_arg, **kw})
                    hit(flavour, "not_refused", case["refusal"], "an exception", "returned")
                except Exception:  # noqa: BLE001
                    pass
                if extra_arg != list(fields[0]):
                    hit(flavour, "argument_modified_by_get_structure", "extra_fields", list(fields[0]), extra_arg)
                d = _first_diff(base, _reads(f, None, fields))
                if d is not None:
                    hit(flavour, "read_differs_after_refused_get_structure:%s" % d, case["refusal"], "as before", d)
                if _dump(flavour, f) != dump0:
                    hit(flavour, "file_changed_by_refused_get_structure", case["refusal"], "same serialisation", "differs")
            elif sub == "args":
                # numpy scalars / other containers as arguments of get_structure: as the Python int / list
                spec = flavour_base(1, case["pal"])
                fields = _fields(None, spec)
                f = File()
                _put(f, spec)
                f = _load(flavour, _dump(flavour, f))
                plain = {"model": case["model"], "extra_fields": list(fields[0])}
                conv = {"int64": np.int64, "int32": np.int32, "uint8": np.uint8, "int": int}[case["int_type"]]
                other = {"model": None if case["model"] is None else conv(case["model"]),
                         "extra_fields": {"tuple": tuple, "set": set, "ndarray": np.array, "list": list}[case["container"]](
                             fields[0])}
                outs = []
                for kw in (plain, other):
                    try:
                        outs.append(["value", observe(pdbx.get_structure(f, include_bonds=True, **kw))])
                    except Exception as e:  # noqa: BLE001
                        outs.append(["raised", type(e).__name__])
                if outs[1][0] == "raised" and case["container"] in ("set", "ndarray"):
                    unspecified[0] = True  # the documentation says "list of str"
                elif not _same(outs[0], outs[1]):
                    hit(flavour, "result_depends_on_argument_type", "model:%s,extra_fields:%s" % (case["int_type"], case["container"]),
                        outs[0][0], outs[1] if outs[1][0] == "raised" else _first_diff([outs[0]], [outs[1]]))
            elif sub == "empty":
                import biotite.structure as struc

                if case["what"].startswith("depth0") or case["what"].startswith("length0"):
                    st = struc.AtomArrayStack(0, 2) if case["what"].startswith("depth0") else struc.AtomArrayStack(2, 0)
                    f = File()
                    try:
                        pdbx.set_structure(f, st)
                        hit(flavour, "not_refused", case["what"], "BadStructureError", "returned")
                    except struc.BadStructureError:
                        pass
                    except Exception as e:  # noqa: BLE001
                        hit(flavour, "refused_with_%s" % type(e).__name__, case["what"], "BadStructureError", str(e)[:200])
                    if len(f) != 0:
                        hit(flavour, "file_changed_by_refused_call", case["what"], [], list(f.keys()))
                else:
                    spec = apply_devs(((2, 1), (0, 1)), PALETTES[case["pal"]], [["extra", None, "plain"]])
                    col = {"chain_id": 0, "ins_code": 2, "res_name": 3, "atom_name": 5, "element": 6}.get(case["what"])
                    if col is not None:
                        for k, a in enumerate(spec["atoms"]):
                            a[col] = ""
                            if case["what"] in ("chain_id", "res_name"):
                                a[1] = 10 + k  # residues stay uniquely identifiable through their ids
                    else:
                        spec["extra"] = [""] * len(spec["atoms"])
                    res = roundtrip(spec, flavour)
                    for kind, (e_, o_) in expand_kinds(spec, res).items():
                        hit(flavour, kind, "all_values_empty:" + case["what"], e_, o_)
            elif sub == "ambient":
                ambient_check(ctx, case, flavour, hit)
            elif sub == "precedence":
                if precedence_check(case, flavour, hit) == "unspecified":
                    unspecified[0] = True
            elif sub == "foreign":
                if foreign_check(case, flavour, hit) == "unspecified":
                    unspecified[0] = True
            elif sub == "threshold":
                spec = threshold_spec(case)
                res = roundtrip(spec, flavour)
                for kind, (e_, o_) in expand_kinds(spec, res).items():
                    hit(flavour, kind, "res_id_step=%d,bond=%s" % (case["step"], case["bond"]), e_, o_)
            elif sub == "strings":
                # two awkward features in one value (handled by different branches of the text writer)
                spec = apply_devs(((2, 1), (0, 0)), PALETTES[case["pal"]], [["bonds", None, "path"], ["extra", None, "plain"]])
                v = TWO_FEATURES[case["label"]]
                pos = case["pos"]
                if pos == "extra":
                    spec["extra"][1] = v
                elif pos == "atom_name":
                    spec["atoms"][2][5] = v
                else:
                    spec["atoms"][2][{"chain_id": 0, "ins_code": 2, "res_name": 3}[pos]] = v
                res = roundtrip(spec, flavour)
                for kind, (e_, o_) in expand_kinds(spec, res).items():
                    hit(flavour, kind, "%s:%s" % (pos, case["label"]), e_, o_)
            elif sub == "identity":
                if flavour == "cif":
                    continue
                identity_check(case, hit)
            elif sub == "resize":
                resize_check(case, flavour, hit)
            elif sub == "derived":
                derived_check(case, flavour, hit)
            else:
                raise ValueError(case)
    ctx.ev(1, 1)
    ctx.count("unspecified" if unspecified[0] else ("refused" if sub == "errors" else "accepted"))
    ctx.outcome(("flavour", json.dumps(case, sort_keys=True), tuple(sorted(found))))
    if len(ctx.samples) < 1:
        ctx.sample(case)
    for (failure, cls), ent in found.items():
        fl = "all" if len(ent["fmts"]) == 2 else ent["fmts"][0]
        if failure.startswith("bonds|"):
            # same classes (and signatures) as in the other round-trip families
            ctx.violation("roundtrip|%s|%s" % (fl, failure), "read-back bond set differs from the written one (%s)" % failure,
                          case, ent["e"], ent["o"])
            continue
        ctx.violation("flavour|%s|%s|%s|%s" % (fl, sub, failure, cls),
                      "%s: %s (%s)" % (sub, failure, cls), case, ent["e"], ent["o"])


# ---- third audit: ambient state, option precedence, foreign rows, threshold of the link rule -------------
ALT_CCD_BONDS = {"ALA": {("N", "CA"): 2}}  # what differs in the alternative dictionary (and GLY: NON-POLYMER)


def alt_ccd_path():
    """A second synthetic dictionary: ALA N-CA is a double bond, GLY is no polymer component."""
    import copy
    from mc import ccd, loader

    path = loader.BUILD / "ccd_synth_alt.bcif"
    if path.exists():
        return path
    orig = ccd.COMPONENTS
    alt = copy.deepcopy(orig)
    n, t, o, fw, atoms, bonds = alt["ALA"]
    alt["ALA"] = (n, t, o, fw, atoms, [("N", "CA", "DOUB", "N")] + [b for b in bonds if b[:2] != ("N", "CA")])
    n, t, o, fw, atoms, bonds = alt["GLY"]
    alt["GLY"] = (n, "NON-POLYMER", o, fw, atoms, bonds)
    try:
        ccd.COMPONENTS = alt
        f = ccd._build()
    finally:
        ccd.COMPONENTS = orig
    tmp = str(path) + ".tmp%d" % os.getpid()
    f.write(tmp)
    os.replace(tmp, path)
    return path


def ambient_check(ctx, case, flavour, hit):
    """Ambient state changes as events between the operations: the result must not follow numpy's print /
    error state or the working directory; it must follow the component dictionary set_ccd_path() installs."""
    import biotite.structure.info as info
    from biotite.structure.io import pdbx
    from mc import ccd

    File, _ = _classes(flavour)
    ev = case["event"]
    if ev != "ccd_switch":
        spec = flavour_base(1, 0)
        fields = _fields(None, spec)
        ref = File()
        _put(ref, spec)
        base = _reads(_load(flavour, _dump(flavour, ref)), None, fields)
        old_print, old_err, old_cwd = np.get_printoptions(), np.geterr(), os.getcwd()

        def event():
            if ev == "printoptions":
                np.set_printoptions(precision=1, suppress=True, threshold=2, floatmode="fixed")
            elif ev == "printoptions_legacy_1.13":
                np.set_printoptions(legacy="1.13")
            elif ev == "errstate":
                np.seterr(all="raise")
            elif ev == "cwd":
                os.chdir("/")

        try:
            for when in ("before_write", "between_write_and_serialise", "before_read"):
                f = File()
                if when == "before_write":
                    event()
                _put(f, spec)
                if when == "between_write_and_serialise":
                    event()
                data = _dump(flavour, f)
                g = _load(flavour, data)
                if when == "before_read":
                    event()
                d = _first_diff(base, _reads(g, None, fields))
                np.set_printoptions(**old_print)
                np.seterr(**old_err)
                os.chdir(old_cwd)
                if d is not None and ev == "printoptions_legacy_1.13":
                    # numpy's legacy mode changes str() of every float; the statement is silent on it
                    ctx.count("unspecified_numpy_legacy_print_mode_changes_written_floats")
                elif d is not None:
                    hit(flavour, "result_follows_ambient_state:%s" % d, "%s,%s" % (ev, when), "as without the event", d)
        finally:
            np.set_printoptions(**old_print)
            np.seterr(**old_err)
            os.chdir(old_cwd)
        return

    def go():
        # in a forked child: the dictionary is module state of biotite.structure.info
        atoms = [["A", 1, "", "ALA", 0, "N", "N"], ["A", 1, "", "ALA", 0, "CA", "C"], ["A", 1, "", "ALA", 0, "C", "C"],
                 ["A", 2, "", "GLY", 0, "N", "N"]]
        spec = {"atoms": atoms, "coord": [[[1.5 * k, 0.0, -k] for k in range(4)]], "stack": False, "box": None,
                "opt": {}, "extra": None, "bonds": None}
        f = File()
        _put(f, spec)
        g = _load(flavour, _dump(flavour, f))
        want = {"std": [[0, 1, 1], [1, 2, 1], [2, 3, 1]], "alt": [[0, 1, 2], [1, 2, 1]]}
        paths = {"std": ccd.ensure_ccd(), "alt": alt_ccd_path()}
        out = []
        for which in case["order"]:
            info.set_ccd_path(paths[which])
            r = pdbx.get_structure(g, model=1, include_bonds=True)
            got = sorted([int(i), int(j), int(t)] for i, j, t in r.bonds.as_array())
            out.append((which, want[which], got))
        return out

    r = ctx.isolated(go, timeout=60)
    if r[0] != "ok":
        hit(flavour, "ccd_switch_failed_%s" % r[0], "order=" + "-".join(case["order"]), "bond lists", repr(r[1:])[:200])
        return
    seen_before = []
    for which, want, got in r[1]:
        if want != got:
            hit(flavour, "bonds_not_from_the_installed_dictionary",
                "set_ccd_path_as_event", {"dictionary": which, "bonds": want},
                {"bonds": got, "dictionaries_used_before": list(seen_before)})
        seen_before.append(which)


def precedence_check(case, flavour, hit):
    """A value that can come from two places: explicit argument vs object; both present and different."""
    import biotite.structure as struc
    from biotite.structure.io import pdbx

    File, Block = _classes(flavour)
    what = case["what"]
    spec = flavour_base(0, 0)
    fields = _fields(None, spec)
    if what in ("block_object_ignores_data_block", "explicit_name_of_the_single_block", "two_blocks_default_block"):
        f = File()
        _put(f, spec)
        base = _reads(f, None, fields)
        if what == "explicit_name_of_the_single_block":
            d = _first_diff(base, _reads(f, "structure", fields))
        elif what == "block_object_ignores_data_block":
            b = Block()
            pdbx.set_structure(b, build(spec), data_block="ignored", include_bonds=True, extra_fields=[EXTRA_NAME])
            d = _first_diff(base, _reads(b, "also_ignored", fields)) or _first_diff(base, _reads(f.block, "x", fields))
        else:
            other = flavour_base(1, 1)
            pdbx.set_structure(f, build(other), data_block="second", include_bonds=True, extra_fields=[EXTRA_NAME])
            got = _reads(f, None, fields)
            if all(g[0] == "raised" for g in got):
                return "unspecified"  # documented default "first block"; the tree refuses a file with several blocks
            d = _first_diff(base, got)
        if d is not None:
            hit(flavour, "read_differs:%s" % d, what, "the single / first / passed block", d)
    elif what == "entity_id_annotation_wins":
        a = build(spec)
        a.set_annotation("label_entity_id", np.array([5, 5, 7, 9]))
        f = File()
        pdbx.set_structure(f, a, include_bonds=True, extra_fields=[EXTRA_NAME])
        r = pdbx.get_structure(_load(flavour, _dump(flavour, f)), model=1, extra_fields=["label_entity_id"])
        got = [str(v) for v in r.label_entity_id]
        if got != ["5", "5", "7", "9"]:
            hit(flavour, "annotation_does_not_win_over_derived_value", what, ["5", "5", "7", "9"], got)
    elif what == "label_column_next_to_author_annotation":
        tb, drop = sel_table({"names": 0, "alts": [".", ".", "."], "occ": [1, 0, 2], "r2": ".", "models": 1, "variant": "full"})
        f = table_read(table_cats(tb, drop), flavour)
        for author in (True, False):
            other = "label_asym_id" if author else "auth_asym_id"
            r = pdbx.get_structure(f, model=1, use_author_fields=author, extra_fields=[other, "label_seq_id"])
            want_chain = [row["a_asym" if author else "asym"] for row in tb["rows"]]
            want_other = [row["asym" if author else "a_asym"] for row in tb["rows"]]
            if r.chain_id.tolist() != want_chain or [str(v) for v in r.get_annotation(other)] != want_other or [
                    str(v) for v in r.label_seq_id] != [str(row["seq"]) for row in tb["rows"]]:
                hit(flavour, "explicit_column_and_standard_annotation_mixed_up", "%s,author=%d" % (what, author),
                    {"chain_id": want_chain, other: want_other},
                    {"chain_id": r.chain_id.tolist(), other: [str(v) for v in r.get_annotation(other)]})
    elif what.startswith("fallback:"):
        # documented: "If the requested field is not available, the respective other field is taken as fallback"
        col = what.split(":")[1]  # e.g. auth_seq_id
        tb, _ = sel_table({"names": 0, "alts": [".", "A", "B"], "occ": [1, 0, 2], "r2": ".", "models": 1, "variant": "full"})
        tb["conn"] = []
        cols = ["auth_seq_id", "auth_asym_id", "auth_comp_id", "auth_atom_id"] if col == "auth_all" else (
            ["label_seq_id", "label_asym_id", "label_comp_id", "label_atom_id"] if col == "label_all" else [col])
        author = cols[0].startswith("auth")
        f = table_read(table_cats(tb, tuple(cols)), flavour)
        tb2 = json.loads(json.dumps(tb))
        pairs = {"seq_id": ("a_seq", "seq"), "asym_id": ("a_asym", "asym"), "comp_id": ("a_comp", "comp"), "atom_id": ("a_name", "name")}
        for c in cols:
            a_key, l_key = pairs[c.split("_", 1)[1]]
            for row in tb2["rows"]:
                if author:
                    row[a_key] = row[l_key]
                else:
                    row[l_key] = row[a_key]
        rd = {"model": 1, "altloc": "first", "author": author, "extra": ["atom_id"], "bonds": False}
        model = model_get_structure(tb2["rows"], {"label_alt_id", "occupancy"}, 1, "first", author, ["atom_id"], None)
        try:
            r = pdbx.get_structure(f, model=1, altloc="first", use_author_fields=author, extra_fields=["atom_id"])
            d = compare(model[1][0], observe(r), flavour)
        except Exception as e:  # noqa: BLE001
            d = [("raises_" + type(e).__name__, "fallback value", str(e)[:200])]
        for field, e_, o_ in d[:1]:
            hit(flavour, "differs_" + field, what, str(e_)[:300], str(o_)[:300])
    else:
        raise ValueError(case)
    return None


def foreign_check(case, flavour, hit):
    """Bond tables that are LARGER than the structure: struct_conn rows naming atoms atom_site does not
    have, chem_comp_bond rows for absent components / atom names, next to valid rows.  The reader may
    refuse such a file (unspecified); if it reads it, the valid rows must come out untouched."""
    from biotite.structure.io import pdbx

    tb, _ = indep_table({"fam": "indep", "tpl": "pep3+1", "edges": [[0, 1, 2], [1, 3, 2], [0, 3, 6]], "models": 1, "cell": 0})
    ghost = dict(tb["rows"][3])
    ghost.update(seq=99, a_seq=99, name="ZZ", a_name="ZZ")
    ghost2 = dict(tb["rows"][0])
    ghost2.update(asym="Q", a_asym="Q")
    rows = {"first_partner": {"type": "covale", "order": "doub", "p1": ghost, "p2": 1},
            "second_partner": {"type": "metalc", "order": "?", "p1": 0, "p2": ghost},
            "both_partners": {"type": "covale", "order": "?", "p1": ghost2, "p2": ghost}}
    extra = rows[case["missing"]]
    tb["conn"] = {"before": [extra] + tb["conn"], "after": tb["conn"] + [extra], "between": tb["conn"][:1] + [extra] + tb["conn"][1:]}[
        case["position"]]
    if case["ccb"] == "absent_component":
        tb["ccb"] = [("XYZ", "N", "CA", "TRIP", "N")] + tb["ccb"]
    elif case["ccb"] == "absent_atom_name":
        tb["ccb"] = tb["ccb"] + [("ALA", "N", "QQ", "DOUB", "N"), ("GLY", "QQ", "N", "SING", "N")]
    f = table_read(table_cats(tb, ()), flavour)
    want = sorted(model_bonds_fn(tb, True)(tb["rows"]))
    d = {}
    for i, j, t in want:
        d.setdefault((min(i, j), max(i, j)), t)
    want = sorted([i, j, t] for (i, j), t in d.items())
    try:
        r = pdbx.get_structure(f, model=1, include_bonds=True)
    except Exception:  # noqa: BLE001
        return "unspecified"
    got = sorted([int(i), int(j), int(t)] for i, j, t in r.bonds.as_array())
    if got != want:
        hit(flavour, "valid_bond_rows_disturbed_by_rows_for_absent_atoms",
            "missing=%s,position=%s,chem_comp_bond=%s" % (case["missing"], case["position"], case["ccb"]), want, got)
    return None


def threshold_spec(case):
    """ALA [CA, C] followed by GLY [N, CA] whose res_id differs by `step` (0: insertion code): on both
    sides of the 'consecutive residue' threshold of the link rule."""
    step = case["step"]
    atoms = [["A", 10, "", "ALA", 0, "CA", "C"], ["A", 10, "", "ALA", 0, "C", "C"],
             ["A", 10 + step, "A" if step == 0 else "", "GLY", 0, "N", "N"],
             ["A", 10 + step, "A" if step == 0 else "", "GLY", 0, "CA", "C"]]
    bonds = [[0, 1, 1], [2, 3, 1]]
    if case["bond"] != "none":
        bonds.append([1, 2, {"single": 1, "double": 2}[case["bond"]]])
    return {"atoms": atoms, "coord": [[[1.5 * k, 0.25, -k] for k in range(4)]], "stack": False, "box": None, "opt": {},
            "extra": None, "bonds": bonds}


TWO_FEATURES = {
    # label: value; features: single quote, double quote, blank, tab, special first character,
    # reserved word prefix, (extra field only) line break
    "squote+dquote": "a'b\"c", "squote+blank": "5' end", "squote_then_blank+dquote_free": "a' b",
    "squote+tab": "a'\tb", "squote+special_start": "#a'b", "leading_squote+blank": "'a b",
    "squote+reserved": "data_a'b", "dquote+blank": 'd" q', "dquote+tab": 'a"\tb', "dquote+special_start": '$a"b',
    "leading_dquote+blank": '"a b', "dquote+reserved": 'loop_"x', "blank+tab": "a \tb",
    "blank+special_start_underscore": "_a b", "blank+special_start_semicolon": ";a b",
    "blank+special_start_bracket": "[a b", "blank+special_start_hash": "#a b", "blank+reserved": "save_ x",
    "tab+special_start": "#a\tb", "tab+reserved": "global_\tx", "squote+dquote+blank": "a' \"b",
    "dquote_then_blank+squote": "a\" b'c", "squote_then_blank+dquote": "a' b\"c",
    "leading_blank+squote": " 'a", "trailing_blank+squote": "a' ", "squote+dquote+special_start": "_'\"",
    "newline+squote": "a'b\nc", "newline+dquote": "a\"b\nc", "newline+blank": "a b\nc d",
}
STRING_POSITIONS = ("chain_id", "res_name", "atom_name", "ins_code", "extra")


def identity_check(case, hit):
    """compress() returns a NEW object at every level: re-binding edits of the result (delete / add /
    replace an element) leave the operand as it was, also where nothing could be compressed."""
    from biotite.structure.io import pdbx

    spec = apply_devs(((1,), (0,)), PALETTES[case["pal"]], []) if case["degenerate"] else flavour_base(0, case["pal"])
    f = pdbx.BinaryCIFFile()
    _put(f, spec)
    before = _dump("bcif", f)
    level = case["level"]
    operand = {"file": f, "block": f.block, "category": f.block["atom_site"],
               "column": f.block["atom_site"]["Cartn_x"], "data": f.block["atom_site"]["Cartn_x"].data}[level]
    result = pdbx.compress(operand)
    if result is operand:
        hit("bcif", "compress_returns_its_operand", level, "a new object", "the operand")
        return
    if level == "file":
        result["added"] = pdbx.BinaryCIFBlock()
        del result["structure"]
    elif level == "block":
        del result["atom_site"]
        result["added"] = pdbx.BinaryCIFCategory({"x": np.array([1, 2])})
    elif level == "category":
        del result["Cartn_x"]
        result["added"] = np.arange(result.row_count)
    elif level == "column" and result.mask is None:
        pass  # columns and data have no re-binding edits; identity was the check
    after = _dump("bcif", f)
    if after != before:
        hit("bcif", "operand_changed_by_editing_the_compress_result", level, "operand as before", "changed")


def size_spec(n_res, models):
    """n_res two-atom residues with different names (n_res chem_comp_bond rows), chained by n_res - 1
    inter-residue bonds, `models` models: every looped table has another length for another size."""
    atoms, coord, bonds = [], [], []
    for r in range(n_res):
        for k in range(2):
            atoms.append(["A", r + 1, "", "R%d" % r, 1, "C%d" % (k + 1), "C"])
            a = len(coord)
            coord.append([1.5 * a, -0.5 * a, float(n_res)])
        bonds.append([2 * r, 2 * r + 1, 1 + r % 3])
        if r:
            bonds.append([2 * r - 1, 2 * r, 1 + r % 2])
    cs = [[[x + 8.0 * m for x in at] for at in coord] for m in range(models)]
    return {"atoms": atoms, "coord": cs, "stack": True, "box": None, "opt": {"charge": [(-1) ** i for i in range(len(atoms))]},
            "extra": None, "bonds": bonds}


SIZES = [(3, 2), (4, 2), (4, 3), (3, 3), (2, 2)]


def resize_check(case, flavour, hit):
    """Three writes of other sizes on one file object; between the writes every public read that may
    cache a count or a length; the last state must equal a fresh file."""
    from biotite.structure.io import pdbx

    File, _ = _classes(flavour)
    f = File()
    specs = [size_spec(*SIZES[k]) for k in case["sizes"]]
    for k, spec in enumerate(specs):
        _put(f, spec)
        if k == 0 and case["parsed"]:
            f = _load(flavour, _dump(flavour, f))
        if k < len(specs) - 1 or case["probe_last"]:
            if case["probe"] in ("counts", "all"):
                for cat in f.block.values():
                    cat.row_count
                    for col in cat.values():
                        len(col)
                pdbx.get_model_count(f)
            if case["probe"] in ("read", "all"):
                pdbx.get_structure(f, include_bonds=True, extra_fields=["charge"])
                pdbx.get_structure(f, model=-1)
            if case["probe"] in ("dump", "all"):
                _dump(flavour, f)
    last = specs[-1]
    fresh = File()
    _put(fresh, last)
    fields = _fields(None, last)
    where = {"file": f, "block_in_file": "structure", "fresh_block_in_file": "structure",
             "fresh_reparsed": _load(flavour, _dump(flavour, fresh))}
    fails, _ = reuse_compare(flavour, f, None, fresh, None, None, last, where)
    if pdbx.get_model_count(f) != len(last["coord"]):
        fails["model_count"] = (len(last["coord"]), pdbx.get_model_count(f))
    rc = {k: f.block[k].row_count for k in f.block.keys()}
    rcf = {k: fresh.block[k].row_count for k in fresh.block.keys()}
    if rc != rcf:
        fails["row_count"] = (rcf, rc)
    cls = "sizes=%s,probe=%s" % ("".join("<" if b > a else ">" if b < a else "=" for a, b in zip(
        [2 * SIZES[k][0] * SIZES[k][1] for k in case["sizes"]][:-1], [2 * SIZES[k][0] * SIZES[k][1] for k in case["sizes"]][1:])),
        case["probe"])
    for k, v in fails.items():
        hit(flavour, k, cls, v[0], v[1])


DERIVED_OPS = ("copy", "mask", "slice_step2", "reversed", "index_array_unsorted", "stack_first", "stack_last",
               "stack_slice_depth1", "stack_atom_mask", "stack_atoms_reversed", "concatenate_two", "concatenate_one",
               "stack_of_arrays", "read_cif_model1", "read_bcif_stack", "read_cif_last_model", "read_altloc_filtered",
               "from_template", "repeat")


def derived_structure(case):
    """A structure handed out by the library itself (one operation applied to a plain structure)."""
    import biotite.structure as struc
    from biotite.structure.io import pdbx

    pal = case["pal"]
    base = flavour_base(0, pal)
    base["box"] = None
    sbase = flavour_base(1, pal)
    sbase["box"] = None
    a, st = build(base), build(sbase)
    op = case["op"]
    n = a.array_length()
    mask = np.array([True, False, True, True][:n])
    if op == "copy":
        return a.copy()
    if op == "mask":
        return a[mask]
    if op == "slice_step2":
        return a[::2]
    if op == "reversed":
        return a[::-1]
    if op == "index_array_unsorted":
        return a[np.array([2, 0, 3])]
    if op == "stack_first":
        return st[0]
    if op == "stack_last":
        return st[-1]
    if op == "stack_slice_depth1":
        return st[1:2]
    if op == "stack_atom_mask":
        return st[:, mask]
    if op == "stack_atoms_reversed":
        return st[:, ::-1]
    if op in ("concatenate_two", "concatenate_one"):
        b = a.copy()
        b.chain_id[:] = "Z"
        return struc.concatenate([a, b] if op == "concatenate_two" else [a])
    if op == "stack_of_arrays":
        b = a.copy()
        b.coord += 4.0
        return struc.stack([a, b])
    if op in ("read_cif_model1", "read_bcif_stack", "read_cif_last_model"):
        flavour = "bcif" if "bcif" in op else "cif"
        File, _ = _classes(flavour)
        f = File()
        _put(f, sbase)
        f = _load(flavour, _dump(flavour, f))
        model = {"read_cif_model1": 1, "read_bcif_stack": None, "read_cif_last_model": -1}[op]
        return pdbx.get_structure(f, model=model, include_bonds=True, extra_fields=_fields(None, sbase)[0])
    if op == "read_altloc_filtered":
        tb, drop = sel_table({"names": 0, "alts": ["A", "B", "."], "occ": [1, 0, 2], "r2": "BA", "models": 2,
                              "variant": "full"})
        f = table_read(table_cats(tb, drop), "cif")
        return pdbx.get_structure(f, altloc="occupancy", include_bonds=True, extra_fields=["atom_id", "b_factor", "occupancy", "charge"])
    if op == "from_template":
        return struc.from_template(a, st.coord + 2.0)
    if op == "repeat":
        return struc.repeat(a[:2], np.stack([a.coord[:2], a.coord[:2] + 32.0]))
    raise ValueError(op)


def derived_check(case, flavour, hit):
    """set_structure(op(x)) -> file -> get_structure must return op(x), whatever shape op(x) has."""
    from biotite.structure.io import pdbx
    import biotite.structure as struc

    d = derived_structure(case)
    if case["op"] == "repeat":
        # repeated atoms carry repeated identifiers: give the copies another chain (public attribute)
        d.chain_id[2:] = "Y"
    before = _snapshot(d)
    want = observe(d)
    cats = d.get_annotation_categories()
    extra = [c for c in cats if c not in ("chain_id", "res_id", "ins_code", "res_name", "hetero", "atom_name", "element",
                                          "atom_id", "b_factor", "occupancy", "charge")]
    read_extra = [c for c in ("atom_id", "b_factor", "occupancy", "charge") if c in cats] + extra
    File, _ = _classes(flavour)
    f = File()
    pdbx.set_structure(f, d, include_bonds=d.bonds is not None, extra_fields=extra)
    if case.get("compress") and flavour == "bcif":
        f = pdbx.compress(f)
    if _snapshot(d) != before:
        hit(flavour, "argument_modified_by_set_structure", case["op"], "unchanged", "changed")
    g = _load(flavour, _dump(flavour, f))
    is_stack = isinstance(d, struc.AtomArrayStack)
    got = observe(pdbx.get_structure(g, model=None if is_stack else 1, include_bonds=d.bonds is not None,
                                     extra_fields=read_extra))
    for k in ("kind", "n", "depth", "coord", "bonds", "box"):
        if not _same(want.get(k), got.get(k)):
            hit(flavour, "differs_%s" % k, case["op"], str(want.get(k))[:300], str(got.get(k))[:300])
            return
    for c in sorted(set(want["annot"]) | set(got["annot"])):
        x, y = want["annot"].get(c), got["annot"].get(c)
        if c in extra and x is not None:
            x = [str(v) for v in x]  # extra fields come back as strings (documented)
        if not _same(x, y):
            hit(flavour, "differs_annot:%s" % c, case["op"], str(x)[:300], str(y)[:300])
            return


def count_class(n):
    return {9: "9", 10: "10", 11: "11", 99: "99", 100: "100", 101: "101"}.get(n, "other")


def many_spec(case):
    """Many models / chains / residues: counts whose decimal width changes."""
    n = case["count"]
    what = case["what"]
    if what == "models":
        atoms = [["A", 1, "", "LIG", 1, "C1", "C"], ["A", 2, "", "LIG", 1, "C1", "C"]]
        coord = [[[float(k), 0.5 * k + a, -1.25 * a] for a in range(2)] for k in range(n)]
        return {"atoms": atoms, "coord": coord, "stack": True, "box": [BOXES["ortho"]] * n,
                "opt": {"atom_id": [7, 3]}, "extra": None, "bonds": [[0, 1, 2]]}
    atoms = []
    for i in range(n):
        if what == "chains_numeric":
            atoms.append([str(i + 1), 1, "", "LIG", 1, "C1", "C"])
        elif what == "chains_two_letters":
            atoms.append([chr(65 + i // 26) + chr(65 + i % 26), 1, "", "LIG", 1, "C1", "C"])
        elif what == "chains_mixed":
            atoms.append(["C%d" % i if i % 2 else "c%dx" % i, 1, "", "LIG", 1, "C1", "C"])
        else:  # residues of one chain
            atoms.append(["A", i + 1, "", "LIG", 1, "C1", "C"])
    coord = [[[1.5 * i, -0.25 * i, float(i % 5)] for i in range(n)]]
    bonds = [[i, i + 1, BIG_TYPES[i % len(BIG_TYPES)]] for i in range(n - 1)] + [[0, n - 1, 1]]
    return {"atoms": atoms, "coord": coord, "stack": False, "box": None, "opt": {"atom_id": list(range(n, 0, -1))},
            "extra": None, "bonds": bonds}


ORDER_RES = {"A1": ("A", 1, "ALA"), "A2": ("A", 2, "GLY"), "B1": ("B", 1, "SER"), "B2": ("B", 2, "ALA")}
ROT_BOXES = {
    "rot_z90": [[0.0, 10.5, 0.0], [-20.25, 3.25, 0.0], [-6.75, -4.5, 30.125]],
    "axes_permuted": [[0.0, 0.0, 10.5], [0.0, 20.25, 3.25], [30.125, 6.75, -4.5]],
    "left_handed": [[10.5, 0.0, 0.0], [3.25, 20.25, 0.0], [-4.5, 6.75, -30.125]],
    "general_rotation": [[6.0, 6.0, 3.0], [-6.0, 3.0, 6.0], [6.0, -12.0, 12.0]],
}


def order_spec(case):
    what = case["what"]
    if what == "atom_order_in_residue":
        names = [("N", "N"), ("CA", "C"), ("C", "C"), ("CB", "C")]
        perm = case["perm"]
        atoms = [["A", 5, "", "ALA", 0, names[k][0], names[k][1]] for k in perm]
        pos = {names[k][0]: i for i, k in enumerate(perm)}
        bonds = [[pos["N"], pos["CA"], 1], [pos["C"], pos["CA"], 1], [pos["CB"], pos["CA"], 1]]
        coord = [[[1.5 * k, -k, 0.25 * k] for k in perm]]
        return {"atoms": atoms, "coord": coord, "stack": False, "box": None, "opt": {}, "extra": None, "bonds": bonds}
    if what == "residue_order":
        atoms, bonds, idx = [], [], {}
        for rname in case["perm"]:
            ch, rid, comp = ORDER_RES[rname]
            for an, el in (("N", "N"), ("CA", "C"), ("C", "C")):
                idx[(rname, an)] = len(atoms)
                atoms.append([ch, rid, "", comp, 0, an, el])
        for rname in case["perm"]:
            bonds.append([idx[(rname, "CA")], idx[(rname, "N")], 1])  # orientation (j, i) on purpose
            bonds.append([idx[(rname, "CA")], idx[(rname, "C")], 1])
        bonds.append([idx[("A2", "N")], idx[("A1", "C")], 1])
        bonds.append([idx[("B1", "C")], idx[("B2", "N")], 1])
        bonds.append([idx[("B2", "CA")], idx[("A1", "CA")], 2])
        bonds.reverse()
        coord = [[[0.5 * k, 2.0 - k, 0.125 * k] for k in range(len(atoms))]]
        return {"atoms": atoms, "coord": coord, "stack": False, "box": None, "opt": {}, "extra": None, "bonds": bonds}
    if what == "box_orientation":
        spec = apply_devs(((2, 1), (0, 0)), PALETTES[0], [["models", None, 2]] if case["stack"] else [])
        spec["box"] = [ROT_BOXES[case["box"]]] * len(spec["coord"])
        return spec
    raise ValueError(case)


def flavour_cases(tier, seed):
    pal = seed % len(PALETTES)
    base = {"fam": "flavour", "pal": pal}
    for name in FLAVOURS:
        for stack in (0, 1):
            yield {**base, "sub": "dtype", "flavour": name, "stack": stack}
    for stack in (0, 1):
        for compress in (0, 1):
            yield {**base, "sub": "alias", "what": "argument_after_write", "stack": stack, "compress": compress}
        for what in ("result_of_written_file", "result_of_parsed_file"):
            yield {**base, "sub": "alias", "what": what, "stack": stack}
    for what in ("models", "chains_numeric", "chains_two_letters", "chains_mixed", "residues"):
        for n in (9, 10, 11, 99, 100, 101):
            yield {**base, "sub": "many", "what": what, "count": n}
    for perm in itertools.permutations(range(4)):
        yield {**base, "sub": "order", "what": "atom_order_in_residue", "perm": list(perm)}
    for perm in itertools.permutations(sorted(ORDER_RES)):
        yield {**base, "sub": "order", "what": "residue_order", "perm": list(perm)}
    for b in ROT_BOXES:
        for stack in (0, 1):
            yield {**base, "sub": "order", "what": "box_orientation", "box": b, "stack": stack}
    cats = ["atom_site", "struct_conn", "chem_comp_bond", "cell"]
    for k in range(len(cats) + 1):
        for force in itertools.combinations(cats, k):
            for deep in ((0, 1) if force else (0,)):
                for eq_first in (0, 1):
                    yield {**base, "sub": "lazy", "force": list(force), "deep": deep, "eq_first": eq_first, "stack": k % 2}
    for model in (None, 1, 2, -1):
        for int_type in ("int64", "int32", "uint8"):
            if model is None and int_type != "int64" or (model == -1 and int_type == "uint8"):
                continue
            for container in ("list", "tuple", "set", "ndarray"):
                yield {**base, "sub": "args", "model": model, "int_type": int_type, "container": container}
    for what in ("chain_id", "ins_code", "res_name", "atom_name", "element", "extra", "depth0_stack", "length0_stack"):
        yield {**base, "sub": "empty", "what": what}
    for event in ("printoptions", "printoptions_legacy_1.13", "errstate", "cwd"):
        yield {**base, "sub": "ambient", "event": event}
    for order in (["std", "alt", "std"], ["alt", "std", "alt"]):
        yield {**base, "sub": "ambient", "event": "ccd_switch", "order": order}
    for what in ("block_object_ignores_data_block", "explicit_name_of_the_single_block", "two_blocks_default_block",
                 "entity_id_annotation_wins", "label_column_next_to_author_annotation", "fallback:auth_seq_id",
                 "fallback:auth_asym_id", "fallback:auth_comp_id", "fallback:auth_atom_id", "fallback:auth_all",
                 "fallback:label_seq_id", "fallback:label_asym_id", "fallback:label_comp_id", "fallback:label_atom_id",
                 "fallback:label_all"):
        yield {**base, "sub": "precedence", "what": what}
    for missing in ("first_partner", "second_partner", "both_partners"):
        for position in ("before", "between", "after"):
            for ccb in ("none", "absent_component", "absent_atom_name"):
                yield {**base, "sub": "foreign", "missing": missing, "position": position, "ccb": ccb}
    for step in (-2, -1, 0, 1, 2, 3):
        for bond in ("none", "single", "double"):
            yield {**base, "sub": "threshold", "step": step, "bond": bond}
    for pos in STRING_POSITIONS:
        for label, v in TWO_FEATURES.items():
            if "\n" in v and pos != "extra":
                continue  # identifiers with line breaks are not generated
            if pos == "ins_code" and label not in ("squote+dquote", "squote+blank", "dquote+blank", "blank+tab",
                                                   "squote+dquote+blank", "blank+special_start_hash"):
                continue
            yield {**base, "sub": "strings", "pos": pos, "label": label}
    for level in ("file", "block", "category", "column", "data"):
        for degenerate in (0, 1):
            yield {**base, "sub": "identity", "level": level, "degenerate": degenerate}
    for sizes in itertools.product(range(4), repeat=3):
        for probe in ("all", "counts") if tier == "quick" else ("all", "counts", "read", "dump", "none"):
            yield {**base, "sub": "resize", "sizes": list(sizes), "probe": probe, "probe_last": 1, "parsed": sum(sizes) % 2}
    for sizes in ((4, 0, 4), (0, 4, 0), (4, 4, 0)):  # down to / up from a one-row struct_conn
        for probe in ("all", "counts"):
            yield {**base, "sub": "resize", "sizes": list(sizes), "probe": probe, "probe_last": 1, "parsed": 0}
    for op in DERIVED_OPS:
        yield {**base, "sub": "derived", "op": op, "compress": 1}
    for refusal in ("zero_model", "model_above", "model_below", "bad_altloc", "missing_extra_field", "missing_block"):
        for stack in (0, 1):
            for parsed in (0, 1):
                yield {**base, "sub": "errors", "refusal": refusal, "stack": stack, "parsed": parsed}


# ---- 'big': both sides of every size switch of the reader / writer -----------------------------
# convert.py _find_matches(): (covalent struct_conn rows) x (atoms of the model) <= 4 000 000 -> dense
# comparison matrix, above -> dictionary lookup.  Other count-dependent branches (one-row categories
# written as key-value pairs, single-model flattening, columns of length 1 in compress()) are reached
# by the small families; integer widths of the BinaryCIF encodings (255 / 65 535) are crossed by the
# ids of these structures.
MATCH_SWITCH = 4000000
BIG_TYPES = [1, 2, 3, 4, 8]  # what struct_conn can express


def big_spec(case):
    """case = {"fam": "big", "layout": "single"|"double", "n_res": N, "q": inter-residue bonds,
    "models": m, "dup": 0/1}.  A chain of N hetero residues (one or two atoms each) in two chains;
    the first q pairs of a fixed candidate order are bonded: (first atom, last atom), then every
    residue to the next, to the second next, ..., types cycling through BIG_TYPES."""
    per = 1 if case["layout"] == "single" else 2
    n_res = case["n_res"]
    n = per * n_res
    atoms, coord = [], []
    for r in range(n_res):
        chain = "A" if r < n_res // 2 else "B"
        for k in range(per):
            atoms.append([chain, r - 5, "", "LIG", 1, "C%d" % (k + 1), "C"])
            a = len(coord)
            coord.append([0.5 * a, -0.25 * a, float(a % 7)])
    if case.get("dup"):
        # residue 1000 repeats the identifiers of residue 5 (not adjacent): not uniquely identifiable
        for k in range(per):
            atoms[per * 1000 + k][0] = atoms[per * 5 + k][0]
            atoms[per * 1000 + k][1] = atoms[per * 5 + k][1]
    bonds = []
    if per == 2:
        bonds += [[2 * r, 2 * r + 1, 1] for r in range(n_res)]
    cand = [(0, n - 1)]
    for d in range(1, 6):
        for r in range(n_res - d):
            if per == 1:
                cand.append((r, r + d))
            else:
                cand.append((2 * r + 1, 2 * (r + d)))
                cand.append((2 * r, 2 * (r + d)))
    seen = set()
    q = 0
    for i, j in cand:
        if q == case["q"]:
            break
        if (i, j) in seen:
            continue
        seen.add((i, j))
        bonds.append([i, j, BIG_TYPES[q % len(BIG_TYPES)]])
        q += 1
    if q != case["q"]:
        raise ValueError("big: not enough candidate pairs for %r" % (case,))
    m = case.get("models", 1)
    cs = [coord] + [[[x + 16.0 * k for x in at] for at in coord] for k in range(1, m)]
    return {"atoms": atoms, "coord": cs, "stack": m > 1, "box": None, "opt": {"atom_id": list(range(n, 0, -1))},
            "extra": None, "bonds": bonds}


def big_case(ctx, case):
    if not ctx.journal(json.dumps(case)):
        return
    spec = big_spec(case)
    n = len(spec["atoms"])
    path = "dense" if case["q"] * n <= MATCH_SWITCH else "dict"
    fmts = FORMATS if case.get("cbcif") else FORMATS[:2]
    merged = eval_spec(spec, fmts=fmts)
    ctx.ev(1, 1)
    ctx.count("big_" + path)
    ctx.sample({**case, "atoms": n, "product": case["q"] * n, "path": path}) if len(ctx.samples) < 1 else None

    def short(x):
        if isinstance(x, dict) and "all" in x:
            x = {k: v for k, v in x.items() if k != "all"}
            return x
        t = json.dumps(x, default=str)
        return x if len(t) < 600 else t[:600] + "..."

    if case.get("dup"):
        # not uniquely identifiable: InvalidFileError or the exact structure
        ctx.count("unspecified")
        merged.pop("get_structure_raises_InvalidFileError", None)
    else:
        ctx.count("accepted")
    ctx.outcome(("big", json.dumps(case), outcome_key(merged)))
    cls = "match_path=%s,layout=%s,%s%s" % (path, case["layout"], "stack" if case.get("models", 1) > 1 else "array",
                                          ",repeated_residue_ids" if case.get("dup") else "")
    for kind, ent in merged.items():
        if kind.startswith("_"):
            continue
        ctx.violation("roundtrip_big|%s|%s|%s" % (fmt_label(ent["fmts"], fmts), kind, cls),
                      "large structure (%d atoms, %d struct_conn rows, %s matching): %s" % (n, case["q"], path, kind),
                      case, short(ent["exp"]), short(ent["obs"]))


def big_cases(tier):
    base = {"fam": "big", "models": 1, "dup": 0}
    out = [
        {**base, "layout": "single", "n_res": 2000, "q": 1999},             # 3 998 000 dense
        {**base, "layout": "single", "n_res": 2000, "q": 2000, "cbcif": 1},  # 4 000 000 dense (boundary)
        {**base, "layout": "single", "n_res": 2000, "q": 2001, "cbcif": 1},  # 4 002 000 dict
        {**base, "layout": "single", "n_res": 2001, "q": 1999},             # 3 999 999 dense
        {**base, "layout": "single", "n_res": 2001, "q": 2000},             # 4 002 000 dict
        {**base, "layout": "single", "n_res": 2000, "q": 2001, "models": 2},  # dict, 2-model stack
        {**base, "layout": "single", "n_res": 2000, "q": 2000, "models": 2},  # dense, 2-model stack
        {**base, "layout": "double", "n_res": 1001, "q": 1998},             # 3 999 996 dense
        {**base, "layout": "double", "n_res": 1001, "q": 1999},             # 4 001 998 dict
        {**base, "layout": "single", "n_res": 2000, "q": 2001, "dup": 1},   # dict, ambiguous partner
        {**base, "layout": "single", "n_res": 2000, "q": 2000, "dup": 1},   # dense, ambiguous partner
    ]
    if tier == "thorough":
        for c in out:
            c["cbcif"] = 1
        out += [
            {**base, "layout": "single", "n_res": 4000, "q": 1000, "cbcif": 1},   # 4 000 000 dense
            {**base, "layout": "single", "n_res": 4000, "q": 1001, "cbcif": 1},   # dict
            {**base, "layout": "single", "n_res": 1250, "q": 3200, "cbcif": 1},   # 4 000 000 dense, q > n
            {**base, "layout": "single", "n_res": 1250, "q": 3201, "cbcif": 1},   # dict, q > n
            {**base, "layout": "double", "n_res": 1001, "q": 1999, "models": 2, "cbcif": 1},
            {**base, "layout": "single", "n_res": 66000, "q": 60, "cbcif": 1},    # ids beyond 65 535; 3 960 000 dense
            {**base, "layout": "single", "n_res": 66000, "q": 61, "cbcif": 1},    # 4 026 000 dict
        ]
    return out


# ---------------------------------------------------------------------------
# shards / dispatch
# ---------------------------------------------------------------------------
def graph_palettes(tier, seed):
    if tier == "thorough":
        return [p["bt"] for p in PALETTES]
    return [PALETTES[seed % len(PALETTES)]["bt"]]


def _chunks(n, size):
    parts = max(1, -(-n // size))
    return parts


def shards(tier, seed):
    out = []
    pal_i = seed % len(PALETTES)
    for si, skel in enumerate(SKELETONS):
        cnt = sum(1 for _ in annot_sets(skel, tier, False))
        parts = _chunks(cnt, 700)
        for p in range(parts):
            out.append({"fam": "annot", "skel": si, "pal": pal_i, "extreme": False, "part": p, "parts": parts,
                        "w": 10 * cnt // parts})
    for si, skel in enumerate(SKELETONS):
        if skel in EXTREME_SKELETONS:
            out.append({"fam": "annot", "skel": si, "pal": pal_i, "extreme": True, "part": 0, "parts": 1, "w": 30000})
    gp = graph_palettes(tier, seed)
    for name in TEMPLATES:
        npairs = len(template_pairs(name))
        for types in gp:
            parts = 2 if npairs >= 6 else 1
            for p in range(parts):
                out.append({"fam": "bonds", "tpl": name, "mode": "graphs", "types": list(types), "part": p,
                            "parts": parts, "w": 13 * 3 ** npairs // parts})
        out.append({"fam": "bonds", "tpl": name, "mode": "single", "skip": [list(t) for t in gp], "w": npairs * 30 * 40})
        if tier == "thorough":
            for p in range(2):
                out.append({"fam": "bonds", "tpl": name, "mode": "double", "skip": [list(t) for t in gp], "part": p,
                            "parts": 2, "w": 13 * 750})
    nsel = sum(1 for _ in sel_cases(tier))
    parts = _chunks(nsel, 150)
    for p in range(parts):
        out.append({"fam": "sel", "part": p, "parts": parts, "w": 25 * nsel // parts})
    nind = sum(1 for _ in indep_cases(tier, seed))
    parts = _chunks(nind, 400)
    for p in range(parts):
        out.append({"fam": "indep", "part": p, "parts": parts, "w": 8 * nind // parts})
    for v in ROPT_VARIANTS:
        out.append({"fam": "ropts", "variant": v, "pal": pal_i, "w": 9000})
        if tier == "thorough":
            out.append({"fam": "ropts", "variant": v, "pal": (pal_i + 1) % len(PALETTES), "w": 9000})
    out.append({"fam": "nonuniq", "w": 500})
    nre = sum(1 for _ in reuse_cases(tier, seed))
    parts = _chunks(nre, 100)
    for p in range(parts):
        out.append({"fam": "reuse", "part": p, "parts": parts, "w": 30 * nre // parts})
    nfl = sum(1 for _ in flavour_cases(tier, seed))
    parts = _chunks(nfl, 60)
    for p in range(parts):
        out.append({"fam": "flavour", "part": p, "parts": parts, "w": 40 * nfl // parts})
    nocc = sum(1 for _ in occ_cases(tier))
    parts = _chunks(nocc, 110)
    for p in range(parts):
        out.append({"fam": "occ", "part": p, "parts": parts, "w": 60 * nocc // parts})
    for k, c in enumerate(big_cases(tier)):
        out.append({"fam": "big", "index": k, "w": 40000 if c["n_res"] < 10000 else 200000})
    out.sort(key=lambda s: -s.get("w", 0))
    return out


EXTREME_SKELETONS = [((1,), (0,)), ((2,), (0,)), ((1, 1), (0, 1)), ((2, 1, 1), (0, 0, 1))]


def run_shard(shard, ctx):
    from mc import ccd

    ccd.install_ccd()
    fam = shard["fam"]
    if fam == "annot":
        run_annot(shard, ctx)
    elif fam == "bonds":
        run_bonds(shard, ctx)
    elif fam == "sel":
        for idx, case in enumerate(sel_cases(ctx.tier)):
            if idx % shard["parts"] == shard["part"]:
                sel_case(ctx, case)
    elif fam == "indep":
        for idx, case in enumerate(indep_cases(ctx.tier, ctx.seed)):
            if idx % shard["parts"] == shard["part"]:
                indep_case(ctx, case)
    elif fam == "ropts":
        ropts_case(ctx, {"fam": "ropts", "variant": shard["variant"], "pal": shard["pal"]})
    elif fam == "nonuniq":
        for case in nonuniq_cases():
            nonuniq_case(ctx, case)
    elif fam == "big":
        big_case(ctx, big_cases(ctx.tier)[shard["index"]])
    elif fam == "occ":
        for idx, case in enumerate(occ_cases(ctx.tier)):
            if idx % shard["parts"] == shard["part"]:
                occ_case(ctx, case)
    elif fam == "flavour":
        for idx, case in enumerate(flavour_cases(ctx.tier, ctx.seed)):
            if idx % shard["parts"] == shard["part"]:
                flavour_case(ctx, case)
    elif fam == "reuse":
        for idx, case in enumerate(reuse_cases(ctx.tier, ctx.seed)):
            if idx % shard["parts"] == shard["part"]:
                (refuse_case if case["kind"] == "refuse" else reuse_case)(ctx, case)
    else:
        raise ValueError(shard)


def replay(case, ctx):
    from mc import ccd

    ccd.install_ccd()
    if isinstance(case, str):
        case = json.loads(case)
    fam = case["fam"]
    if fam == "annot":
        annot_case(ctx, case["skel"], case["pal"], case["devs"], {}, {})
    elif fam == "bonds":
        bonds_case(ctx, case)
    elif fam == "sel":
        sel_case(ctx, {k: v for k, v in case.items() if k != "read"})
    elif fam == "indep":
        indep_case(ctx, {k: v for k, v in case.items() if k != "read"})
    elif fam == "ropts":
        ropts_case(ctx, case)
    elif fam == "nonuniq":
        nonuniq_case(ctx, case)
    elif fam == "big":
        big_case(ctx, case)
    elif fam == "reuse":
        (refuse_case if case["kind"] == "refuse" else reuse_case)(ctx, case)
    elif fam == "flavour":
        flavour_case(ctx, case)
    elif fam == "occ":
        occ_case(ctx, {k: v for k, v in case.items() if k != "read"})
    else:
        raise ValueError(case)


def crash_class(case):
    if isinstance(case, dict):
        return str(case.get("fam", "unclassified"))
    return "unclassified"


def bounds(tier):
    return {
        "annot": {
            "atoms": "1-4", "residues": "1-3", "chains": "1-2", "skeletons": len(SKELETONS),
            "deviations_per_structure": ("<= 2 (4-atom layouts: every single deviation, pairs of the reduced ladder)"
                                         if tier == "quick" else
                                         "<= 2 of the full ladder; 3 of the reduced ladder on layouts of <= 3 atoms"),
            "ladder_size_largest_skeleton": len(ladder(SKELETONS[-1], tier)),
            "models": "1-3", "palette": "1 of %d per seed" % len(PALETTES),
            "compressed_encoding": "every single deviation, pairs of the reduced ladder, extreme-coordinate sets "
                                   "on %d layouts" % len(EXTREME_SKELETONS),
        },
        "bonds": {
            "templates": len(TEMPLATES), "atoms_per_template": 4,
            "graphs": "every edge set x every assignment of a 2-type palette (%s palettes)" % (
                "1 per seed" if tier == "quick" else "all 5"),
            "single_edge": "every atom pair x all 10 bond types x {array, 1-model stack, 2-model stack}, 3 encodings",
            "double_edge": "thorough: every 2 atom pairs x 10 x 10 types" if tier == "thorough" else "not in quick",
        },
        "sel": {"rows_with_alt_id": "<= 3 in residue 1 (+ 0-2 in residue 2)", "alt_ids": "'.', 'A', 'B'",
                "occupancies": "0.25/0.5/0.75 per row (all 27 assignments on the base layout)", "models": "1-2",
                "policies": ["first", "occupancy", "all"], "variants": ["full", "no_occ", "no_alt", "q_alt"]},
        "indep": {"templates": len(INDEP_TEMPLATES), "intra_spellings": len(INTRA_SPELL),
                  "inter_spellings": len(INTER_SPELL),
                  "rows": "0, 1 (every pair x every spelling), 2 (every two pairs x spelling palette)"},
        "ropts": {"files": len(ROPT_VARIANTS), "models": "None, 1..m, -m..-1, 0, m+1, -(m+1), -(m+2)",
                  "altloc": 3, "use_author_fields": 2, "include_bonds": 2, "extra_fields": "every subset of 5 (4)"},
        "nonuniq": {"cases": sum(1 for _ in nonuniq_cases())},
        "occ": {"palette": [str(v) for v in OCC_PALETTE], "tables": sum(1 for _ in occ_cases(tier)),
                "residues": "none / 2 alt ids (one with two atoms) / 3 alt ids", "encodings": list(FORMATS),
                "policies": ["first", "occupancy", "all"]},
        "flavour": {"array_flavours": len(FLAVOURS), "counts": [9, 10, 11, 99, 100, 101],
                    "many_of": ["models", "chains_numeric", "chains_two_letters", "chains_mixed", "residues"],
                    "atom_orders": 24, "residue_orders": 24, "box_orientations": len(ROT_BOXES),
                    "forced_category_subsets": 16, "two_feature_strings": len(TWO_FEATURES),
                    "string_positions": list(STRING_POSITIONS), "resize_palette": SIZES, "derived_ops": list(DERIVED_OPS), "cases": sum(1 for _ in flavour_cases(tier, 0))},
        "reuse": {"palette": len(REUSE_PALETTE), "kinds": list(REUSE_KINDS), "ordered_pairs": len(REUSE_PALETTE) ** 2,
                  "mid_read": 2, "refusals": list(REFUSALS)},
        "big": {"cases": len(big_cases(tier)), "atoms": "2000-2002" + (", 1250, 4000, 66000" if tier == "thorough" else ""),
                "struct_conn_rows_x_atoms": "both sides of 4 000 000 (3 998 000 ... 4 002 000)",
                "compressed_encoding": "2 cases" if tier == "quick" else "all"},
    }


RULE = (
    "annot: case = (layout of 1-4 atoms in 1-3 residues in 1-2 chains, set of deviations from the plain structure); "
    "deviation = (field, location, value) from a fixed ladder (chain / residue / atom names with quotes, primes, "
    "blanks; res ids 0, negative, 5 digits; insertion code; hetero; empty / 2-letter element; coordinates 0, -0.001, "
    "123456.789, float32 min-normal, 3.4e38; 2-3 models; stack of depth 1; orthorhombic / triclinic / per-model "
    "box; atom ids unsorted / negative; B-factor values / NaN; occupancy; charge; extra string field; bond path); "
    "every subset up to the stated size with at most one value per location is written and read in CIF, BinaryCIF "
    "and (reduced set) compressed BinaryCIF, as a stack and as the last model; non-trivial = at least one "
    "deviation. A failing set is reported only if no proper subset fails the same way (minimal causes). "
    "bonds: case = (residue template, typed edge set); non-trivial = at least one edge; bond differences are "
    "classified by the position of the bond in the input (intra / standard polymer link / other inter-residue) and "
    "the way it differs. sel / indep: case = one model-written table (text and BinaryCIF) x one option set; every "
    "call counts; the oracle is a per-residue recomputation from the get_structure documentation. ropts: one call "
    "per (written file, option set). reuse: case = (kind of reuse, first structure, last structure, read in between "
    "or not) resp. (first structure, refused call, same / new block), each in text and BinaryCIF. flavour: case = "
    "one value of one factor (array flavour, aliasing scenario, argument type, count, permutation, box orientation, "
    "forced category subset, refused call) on a fixed structure, compared with the plain reference. big: case = (chain of N one- or two-atom residues, number q of inter-residue "
    "bonds incl. first-atom/last-atom bonds, array or 2-model stack), q x atoms chosen on both sides of "
    "FIND_MATCHES_SWITCH_THRESHOLD; complete comparison as in annot. Distinct outcomes = distinct (case, result) pairs resp. distinct decoded "
    "structures."
)
ASSUMPTIONS = [
    "precondition kept: residues (chain, res_id, ins_code, res_name) unique; with bonds also atom names unique inside a "
    "residue; deviation sets that break it are counted (annot_outside_precondition) and skipped; the 'nonuniq' family "
    "demands InvalidFileError or the exact bonds for them",
    "the synthetic component dictionary (mc/ccd.py: ALA GLY SER A DA HOH LIG NA) stands for the CCD; standard "
    "residues outside it are not generated",
    "coordinates compared bit-exactly as float32 in CIF and BinaryCIF; after compress() within the documented "
    "relative tolerance 1e-6 (1.5e-6 allowed); b_factor / occupancy likewise",
    "box: equal cell lengths and angles within 1e-4 relative; every model carries the first model's box "
    "(documented single-box limitation)",
    "a model number that does not exist: an exception or an empty structure are both accepted (counted as refused)",
    "altloc='occupancy' on a table with alt ids but without occupancy column, ties between alt ids, b_factor / "
    "occupancy / charge requested from a file that does not store them: exception or the documented fallback value "
    "(counted as unspecified)",
    "compress() costs ten times the other encodings: it runs on every single deviation, on pairs of the reduced "
    "ladder, on every single-edge bond case; extreme coordinates (float32 min-normal, 3.4e38) run in a forked child "
    "with a %.0f s time-out and, after the first time-out of a class inside a shard, the remaining compressed "
    "evaluations of that class are skipped and counted (cbcif_skipped_after_hang)" % 4.0,
    "an empty atom name together with bonds: the BadStructureError set_structure announces or the exact round trip "
    "(counted as unspecified); '.'/'?' as annotation values (CIF text layer, property C06) are not generated",
    "bond lists that the format cannot express (no link between consecutive standard residues, different bonds in "
    "residues of one name, no intra-residue bond at all) are generated and reported under their own signatures",
]
